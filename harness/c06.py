"""C06 — transparent UDP proxying (UdpProxy.tla, UdpProxy_MC/_MBT/_Trace.tla).

B1  every edge of the exhaustively enumerated bounded model (all interleavings of logins, region
    registrations, viewer datagrams and far-host datagrams of every class on 2 associations /
    2 sessions / 2-3 simulators) is replayed into real SessionManager / Session /
    InterceptingLLUDPProxyProtocol / SOCKS5UDPTransport objects; after every event the datagrams
    handed to the (fake) asyncio datagram transport and the public session state are compared with
    the edge's `obs` / `dst`.  "valid message" edges cycle through every message template in both
    directions.  Addresses and SOCKS header bytes come out of TLC (table record).  Edges that differ
    only in act.ch are the outcomes the property leaves to the implementation: any of them is accepted.
B2  long random runs with random addresses are recorded byte for byte and validated by TLC
    (UdpProxy_Trace: TLC strips / builds the SOCKS framing itself and re-runs the actions).

Features attached to violations (for known_findings.json):
  B1: {"kind":"b1","clause":"sends"|"state","what":...,"act":"C"|"H"|..,"k":<class>,"after_self_addressed":bool[,"msg":<label>]}
  B2: {"kind":"b2","clause":"C.sent"|"C.state"|"H.sent"|"H.state","k":<class>,"after_self_addressed":bool[,"msg":<label>]}
  B2 failures inside an address-churn run additionally carry "churn": true.
  after_self_addressed: an earlier, well-formed viewer datagram of the same association was addressed
  to that viewer's own address ("msg" is omitted then: every later viewer datagram is affected).
  "<Name>/0" labels a message whose Variable blocks all have zero instances.
"""
from __future__ import annotations

import asyncio
import collections
import errno
import gc
import json
import os
import random
import struct
import time
import zlib

from . import common
from .common import Check, Graph, impl_call

INVS = ["TypeOK", "ClaimConsistent", "CircuitsAnchored"]
PROPS = ["GhostsRight", "AnnounceRule", "CloseRule", "SendFaultRule", "ClaimRule", "DeliveredOnce", "UseCircuitRule", "DiscardsInert", "NoCrossTalk", "OnlyNamedChanges",
         "OpenStaysDeliverable"]
SOCKS_BAD = ("badrsv", "badfrag", "badatyp", "shortsocks")
LLUDP_BAD = ("short", "unkmsg")
KILL_NAMES = ("CloseCircuit", "DisableSimulator")
KILL_KINDS = {"killc": "CloseCircuit", "killd": "DisableSimulator"}


def _consts(c):
    return 'NA = %(NA)d NS = %(NS)d NH = %(NH)d Dyn = %(Dyn)s NG = %(NG)d Tcp = %(Tcp)s Flt = %(Flt)s GMode = "%(GMode)s"' % c


# ----------------------------------------------------------------------------------------
# input generation: valid datagrams of every template, and the broken classes
# ----------------------------------------------------------------------------------------

REACTIVE_NAMES = ("RegionHandshake", "AgentMovementComplete", "AgentDataUpdate", "PacketAck", "StartPingCheck",
                  "CompletePingCheck", "ChatFromViewer", "ChatFromSimulator", "UseCircuitCode", "RegionHandshakeReply",
                  "CompleteAgentMovement", "AgentUpdate", "LogoutRequest", "LogoutReply", "KickUser", "TeleportStart",
                  "TeleportProgress", "TeleportLocal", "EnableSimulator", "ConfirmEnableSimulator")


def _subscribed_names():
    """Message names the proxy's own session / region handlers subscribe to (reflection over the public
    `handlers` maps of a freshly created session; nothing found is no failure, just a smaller set)."""
    names = set()
    try:
        sm = _session_manager()
        from hippolyzer.lib.base.datatypes import UUID
        se = sm.create_session({"session_id": str(UUID.random()), "secure_session_id": str(UUID.random()),
                                "agent_id": str(UUID.random()), "circuit_code": 1, "sim_ip": "127.0.0.1", "sim_port": 1,
                                "region_x": 1, "region_y": 1, "seed_capability": "https://example/seed"})
        try:
            for mh in [se.message_handler] + [r.message_handler for r in se.regions]:
                names |= {k for k in getattr(mh, "handlers", {}) if isinstance(k, str) and k != "*"}
        finally:
            sm.close_session(se)
    except Exception:
        pass
    return names


def _rand_val(rng, var):
    from hippolyzer.lib.base.datatypes import UUID
    from hippolyzer.lib.base.message.msgtypes import MsgType as T
    t = var.type

    def f32(lo=-1000.0, hi=1000.0):
        return struct.unpack("<f", struct.pack("<f", rng.uniform(lo, hi)))[0]
    if t == T.MVT_FIXED:
        return bytes(rng.randrange(256) for _ in range(var.size))
    if t == T.MVT_VARIABLE:
        n = rng.choice([0, 1, 2, 5, 9])
        if var.probably_text:
            return "".join(rng.choice("abc xyz/:.") for _ in range(n))
        return bytes(rng.randrange(256) for _ in range(n))
    ints = {T.MVT_U8: (0, 1 << 8), T.MVT_U16: (0, 1 << 16), T.MVT_U32: (0, 1 << 32), T.MVT_U64: (0, 1 << 64),
            T.MVT_S8: (-(1 << 7), 1 << 7), T.MVT_S16: (-(1 << 15), 1 << 15), T.MVT_S32: (-(1 << 31), 1 << 31),
            T.MVT_S64: (-(1 << 63), 1 << 63), T.MVT_IP_PORT: (0, 1 << 16)}
    if t in ints:
        lo, hi = ints[t]
        return rng.choice([lo, hi - 1, 0, 1, rng.randrange(lo, hi)])
    if t == T.MVT_F32:
        return f32()
    if t == T.MVT_F64:
        return rng.uniform(-1e6, 1e6)
    if t == T.MVT_LLVector3:
        return (f32(), f32(), f32())
    if t == T.MVT_LLVector3d:
        return (rng.uniform(-1e6, 1e6), rng.uniform(-1e6, 1e6), rng.uniform(-1e6, 1e6))
    if t == T.MVT_LLVector4:
        return (f32(), f32(), f32(), f32())
    if t == T.MVT_LLQuaternion:
        return (f32(-0.5, 0.5), f32(-0.5, 0.5), f32(-0.5, 0.5))
    if t == T.MVT_LLUUID:
        return UUID(bytes=bytes(rng.randrange(256) for _ in range(16)))
    if t == T.MVT_BOOL:
        return rng.randrange(2)
    if t == T.MVT_IP_ADDR:
        return "%d.%d.%d.%d" % tuple(rng.randrange(256) for _ in range(4))
    raise common.MachineryError("unknown template variable type %r" % (t,))


class Pool:
    """Datagrams by class.  Every entry is (template name, LLUDP bytes with packet id 0)."""

    def __init__(self, rng, variants):
        import llsd
        from hippolyzer.lib.base.message.data import msg_details
        from hippolyzer.lib.base.message.message import Message, Block
        from hippolyzer.lib.base.message.msgtypes import MsgBlockType, MsgType, PacketFlags
        from hippolyzer.lib.base.message.template_dict import DEFAULT_TEMPLATE_DICT
        from hippolyzer.lib.base.message.udpserializer import UDPMessageSerializer
        from hippolyzer.lib.base.message.udpdeserializer import UDPMessageDeserializer
        from hippolyzer.lib.base.network.transport import Direction
        from hippolyzer.lib.base.settings import Settings
        self.Message, self.Block, self.Direction, self.PacketFlags = Message, Block, Direction, PacketFlags
        self.ser = UDPMessageSerializer()
        st = Settings()
        st.ENABLE_DEFERRED_PACKET_PARSING = False
        eager = UDPMessageDeserializer(settings=st)
        # the UDP ban list is message.xml itself: every message whose flavor is not "template"
        details = llsd.parse(msg_details)["messages"]
        tdict = DEFAULT_TEMPLATE_DICT
        self.banned_names = sorted(n for n, d in details.items() if d.get("flavor") != "template"
                                   and tdict.get_template_by_name(n) is not None)
        self.msgs = {"C": [], "H": []}
        self.banned = {"C": [], "H": []}
        self.kills = {"C": [], "H": []}
        self.badbody = {"C": [], "H": []}
        self.excluded = []
        names = sorted(tdict.message_templates)
        self.n_templates = len(names)
        for name in names:
            tmpl = tdict.get_template_by_name(name)
            for dkey, dirn in (("C", Direction.OUT), ("H", Direction.IN)):
                if name == "UseCircuitCode" and dkey == "C":
                    continue
                has_var = any(b.block_type == MsgBlockType.MBT_VARIABLE for b in tmpl.blocks)
                # variant -1: every Variable block present with ZERO instances (label "<name>/0")
                for v in ([-1] if has_var else []) + list(range(variants)):
                    blocks = []
                    for b in tmpl.blocks:
                        n = 1 if b.block_type == MsgBlockType.MBT_SINGLE else b.number \
                            if b.block_type == MsgBlockType.MBT_MULTIPLE else 0 if v < 0 else rng.choice([1, 1, 2, 3])
                        for _ in range(n):
                            blocks.append(Block(b.name, **{var.name: _rand_val(rng, var) for var in b.variables}))
                    flags = 0
                    if rng.random() < 0.4:
                        flags |= PacketFlags.RELIABLE
                        if rng.random() < 0.3:
                            flags |= PacketFlags.RESENT
                    if (tmpl.encoding is not None and int(tmpl.encoding) == 1) or rng.random() < 0.15:
                        flags |= PacketFlags.ZEROCODED
                    acks = ()
                    if rng.random() < 0.25:
                        acks = tuple(rng.randrange(1, 1 << 20) for _ in range(rng.choice([1, 2, 3])))
                        flags |= PacketFlags.ACK
                    m = Message(name, *blocks, packet_id=0, flags=int(flags), acks=acks, direction=dirn)
                    if v < 0:
                        for b in tmpl.blocks:
                            if b.block_type == MsgBlockType.MBT_VARIABLE:
                                m.create_block_list(b.name)
                    if name == "ChatFromViewer":
                        m["ChatData"]["Channel"] = rng.choice([0, 1, -5, 100])   # 524 is the addon command channel
                    try:
                        data = bytes(self.ser.serialize(m))
                        back = bytes(self.ser.serialize(eager.deserialize(data)))
                    except Exception as e:  # generator domain: what the codec itself round-trips (C01's subject)
                        self.excluded.append((name, dkey, type(e).__name__))
                        continue
                    if back != data or len(data) > 900:
                        self.excluded.append((name, dkey, "not canonical" if back != data else "too long"))
                        continue
                    ent = (name + ("/0" if v < 0 else ""), data)
                    if name in KILL_NAMES:
                        self.kills[dkey].append(ent)
                    elif name in self.banned_names:
                        self.banned[dkey].append(ent)
                    else:
                        self.msgs[dkey].append(ent)
                        last = tmpl.blocks[-1].variables[-1] if tmpl.blocks and tmpl.blocks[-1].variables else None
                        if (v >= 0 and last is not None and last.type not in (MsgType.MVT_VARIABLE,) and last.size >= 2
                                and not (flags & (PacketFlags.ZEROCODED | PacketFlags.ACK))):
                            self.badbody[dkey].append((name, data[:-1]))
        # messages the proxy itself reacts to on the forwarding path: the ones lludp_proxy.py / proxy/circuit.py /
        # AddonManager name, plus whatever the session- and region-level message handlers subscribe to
        reactive = set(REACTIVE_NAMES) | _subscribed_names()
        self.reactive = {k: [e for e in self.msgs[k] if e[0].split("/")[0] in reactive] for k in ("C", "H")}
        self.n_reactive = len({e[0].split("/")[0] for k in ("C", "H") for e in self.reactive[k]})
        # message numbers no template has
        self.unknown_nums = []
        for freq, prefix, width, rng_n in (("High", b"", 1, range(1, 255)), ("Medium", b"\xff", 1, range(1, 255)),
                                           ("Low", b"\xff\xff", 2, range(1, 2000)), ("Fixed", b"\xff\xff\xff", 1, range(0, 256))):
            for n in rng_n:
                if tdict.get_template_by_pair(freq, n) is None:
                    self.unknown_nums.append(prefix + n.to_bytes(width, "big"))
        for k in ("C", "H"):
            if not (self.msgs[k] and self.banned[k] and self.kills[k] and self.badbody[k]):
                raise common.MachineryError("message pool has an empty class for direction %s" % k)
        if not self.unknown_nums:
            raise common.MachineryError("no unused message number found")

    def ucc(self, rng, session_id, agent_id, code):
        m = self.Message("UseCircuitCode", self.Block("CircuitCode", Code=code, SessionID=session_id, ID=agent_id),
                         packet_id=0, flags=int(self.PacketFlags.RELIABLE) if rng.random() < 0.7 else 0,
                         direction=self.Direction.OUT)
        return bytes(self.ser.serialize(m))

    def broken(self, rng, k):
        if k == "short":
            c = rng.randrange(4)
            if c == 0:
                return bytes(rng.randrange(256) for _ in range(rng.randrange(0, 7)))
            if c == 1:
                return b""
            if c == 2:     # ACK flag whose count runs into the header
                return bytes([0x10]) + struct.pack("!I", rng.randrange(1, 1000)) + b"\x00" + bytes([rng.randrange(1, 250)]) + b"\xff"
            return bytes([rng.choice([0, 0x40, 0x80])]) + struct.pack("!I", rng.randrange(1, 1000)) + b"\x00"
        num = rng.choice(self.unknown_nums)
        return bytes([rng.choice([0, 0x40])]) + struct.pack("!I", rng.randrange(1, 1000)) + b"\x00" + num + \
            bytes(rng.randrange(1, 256) for _ in range(rng.randrange(0, 12)))


def _with_pid(data: bytes, pid: int) -> bytes:
    return data[:1] + struct.pack("!I", pid) + data[5:] if len(data) >= 5 else data


def _bad_socks(rng, k, hdr: bytes, payload: bytes) -> bytes:
    """A viewer datagram that is not a SOCKS5 UDP request the proxy supports (built from a good one)."""
    h = bytearray(hdr)
    if k == "badrsv":
        h[rng.randrange(2)] = rng.randrange(1, 256)
    elif k == "badfrag":
        h[2] = rng.randrange(1, 256)
    elif k == "badatyp":
        h[3] = rng.choice([0, 2, 4, 5, 255])
        if h[3] == 4:    # a well-formed IPv6 request, which the proxy does not support
            h = h[:4] + bytearray(16) + h[-2:]
    else:
        whole = hdr + payload
        return whole[:rng.randrange(0, len(hdr))]
    return bytes(h) + payload


# ----------------------------------------------------------------------------------------
# the real objects
# ----------------------------------------------------------------------------------------

class FakeDatagramTransport:
    """Stands for the asyncio DatagramTransport of one association's UDP socket."""

    def __init__(self, sink, a):
        self.sink, self.a = sink, a
        self.closed = False
        self.protocol = None
        self.fault = "none"      # armed by World.recv for ONE datagram
        self.fired = False

    def sendto(self, data, addr=None):
        self.sink.append((self.a, bytes(data), addr))     # also when closed: nothing may be sent then
        if self.fault != "none":
            # the operating system refuses this one datagram (it is lost), reported as asyncio does
            kind, self.fault, self.fired = self.fault, "none", True
            exc = OSError(errno.EMSGSIZE, "Message too long")
            if kind == "raise":
                raise exc
            handler = getattr(self.protocol, "error_received", None)
            if handler is not None:
                handler(exc)

    def close(self):
        self.closed = True

    def abort(self):
        self.closed = True

    def get_extra_info(self, name, default=None):
        return ("0.0.0.0", 30000 + self.a) if name == "sockname" else default


class FakeStreamWriter:
    """Stands for the StreamWriter of one viewer's SOCKS control (TCP) connection."""

    def __init__(self, peer):
        self.peer = peer
        self.data = bytearray()
        self.closed = False

    def get_extra_info(self, name, default=None):
        return self.peer if name == "peername" else default

    def write(self, b):
        if not self.closed:
            self.data += bytes(b)

    async def drain(self):
        return None

    def close(self):
        self.closed = True


_ENDPOINT_HOOK = None     # set by the World that is associating: (protocol factory) -> (transport, protocol)


_LOOP = None
_LOOP_PID = None


def _loop():
    global _LOOP, _LOOP_PID
    if _LOOP is None or _LOOP_PID != os.getpid():
        _LOOP = asyncio.new_event_loop()
        asyncio.set_event_loop(_LOOP)
        _LOOP_PID = os.getpid()

        async def fake_endpoint(factory, local_addr=None, **kw):
            # the UDP socket SOCKS5Server binds for a UDP ASSOCIATE command
            if _ENDPOINT_HOOK is None:
                raise common.MachineryError("datagram endpoint requested outside an Associate step")
            return _ENDPOINT_HOOK(factory)
        _LOOP.create_datagram_endpoint = fake_endpoint
    return _LOOP


def _pump(n=1):
    lp = _loop()
    for _ in range(n):
        lp.run_until_complete(asyncio.sleep(0))


_SM = None
_SM_PID = None


def _session_manager():
    """One real SessionManager per process, handed to one World at a time and emptied through its
    own close_session() in between (constructing one costs ~0.1 s of multiprocessing primitives)."""
    global _SM, _SM_PID
    from hippolyzer.lib.proxy.sessions import SessionManager
    from hippolyzer.lib.proxy.settings import ProxySettings
    if _SM is None or _SM_PID != os.getpid():
        _SM = SessionManager(ProxySettings())
        _SM_PID = os.getpid()
    if _SM.sessions:
        raise common.MachineryError("SessionManager handed out while still in use")
    return _SM


_EM = None


def _event_manager(sm):
    """The proxy's HTTP event manager (handles event-queue messages), one per SessionManager."""
    global _EM
    if _EM is None or _EM[0] is not sm:
        from hippolyzer.lib.base.message.llsd_msg_serializer import LLSDMessageSerializer
        from hippolyzer.lib.proxy.http_event_manager import MITMProxyEventManager
        _EM = (sm, MITMProxyEventManager(sm, sm.flow_context), LLSDMessageSerializer())
    return _EM[1], _EM[2]


def _addr(e):
    return (".".join(str(b) for b in e["ip"]), e["port"])


class World:
    """Real SessionManager + SLSOCKS5Server; every viewer's UDP association is created by the real
    SOCKS5Server.handle_connection from a hand-fed StreamReader (greeting, UDP ASSOCIATE) and ends
    when that reader gets EOF."""

    def __init__(self, pool: Pool, clients, sims, unk, NA, NS, NH, rng, tcp=False):
        from hippolyzer.lib.base.datatypes import UUID
        from hippolyzer.lib.proxy.lludp_proxy import SLSOCKS5Server
        _loop()
        self.UUID = UUID
        self.pool, self.rng = pool, rng
        self.NA, self.NS, self.NH = NA, NS, NH
        self.clients = [_addr(c) for c in clients[:NA]]
        self.sims = [_addr(s) for s in sims[:NH]]
        self.unk = _addr(unk)
        self.sm = _session_manager()
        self.server = SLSOCKS5Server(self.sm)
        self.sink = []
        self.protos = [None] * NA      # the association's protocol object, once associated
        self.ctl = [None] * NA         # control connection: {"reader","writer","task","dgram"}
        self.sessions = [None] * NS
        self.ids = [(self._uuid(), self._uuid(), self._uuid(), rng.randrange(1, 1 << 31)) for _ in range(NS)]
        # packet IDs (LLUDP sequence numbers): one world in four counts up from a small number as a fresh
        # viewer would, the others take them from the whole 32-bit range in arbitrary order (see _next_pid)
        self.pid = rng.randrange(1, 200)
        self.pid_wild = rng.random() < 0.75
        self.pid_log = []
        self.cursor = rng.randrange(1 << 30)
        if not tcp:       # models without control connections: every viewer is associated from the start
            for a in range(1, NA + 1):
                self.associate(a)

    def _uuid(self):
        return self.UUID(bytes=bytes(self.rng.randrange(256) for _ in range(16)))

    def associate(self, a):
        """Viewer a connects to the SOCKS5 server and asks for a UDP association."""
        global _ENDPOINT_HOOK
        lp = _loop()
        c = {"reader": asyncio.StreamReader(loop=lp), "writer": FakeStreamWriter((self.clients[a - 1][0], 40000 + a)),
             "dgram": None}

        def hook(factory):
            proto = factory()
            tr = FakeDatagramTransport(self.sink, a)
            tr.protocol = proto
            proto.connection_made(tr)
            c["dgram"] = tr
            self.protos[a - 1] = proto
            return tr, proto
        self.ctl[a - 1] = c
        c["task"] = lp.create_task(self.server.handle_connection(c["reader"], c["writer"]))
        _ENDPOINT_HOOK = hook
        try:
            c["reader"].feed_data(b"\x05\x01\x00")                              # version 5, one method: no auth
            _pump(3)
            c["reader"].feed_data(b"\x05\x03\x00\x01" + bytes(4) + bytes(2))      # UDP ASSOCIATE 0.0.0.0:0
            _pump(4)
        finally:
            _ENDPOINT_HOOK = None

    def close_control(self, a):
        """The control connection of viewer a ends (EOF)."""
        self.ctl[a - 1]["reader"].feed_eof()
        _pump(5)

    def close(self):
        for c in self.ctl:
            if c is None:
                continue
            if not c["task"].done():
                c["task"].cancel()
        _pump(3)
        for c in self.ctl:
            if c is not None and c["task"].done() and not c["task"].cancelled():
                c["task"].exception()      # retrieve, so asyncio does not complain
        for p in self.protos:
            if p is not None:
                p.resend_task.cancel()
        for se in list(self.sm.sessions):
            self.sm.close_session(se)
        _pump(2)

    # --- environment actions ---------------------------------------------------------------
    def login(self, s, h, g=1):
        sid, ssid, aid, code = self.ids[s - 1]
        ip, port = self.sims[h - 1]
        self.sessions[s - 1] = self.sm.create_session({
            "session_id": str(sid), "secure_session_id": str(ssid), "agent_id": str(aid), "circuit_code": code,
            "sim_ip": ip, "sim_port": port, "region_x": 256000 + 256 * g, "region_y": 256000,    # = handle_value(g)
            "seed_capability": "https://sim%d.example/cap/seed-%d" % (h, s)})

    @staticmethod
    def handle_value(g):
        return ((256000 + 256 * g) << 32) | 256000

    def add_region(self, s, h, g):
        """Region handle g (0: none) is announced at simulator h, through one of the ways the proxy
        learns about regions: the event-queue messages EnableSimulator / TeleportFinish /
        CrossedRegion / EstablishAgentCommunication as handled by MITMProxyEventManager, or
        Session.register_region directly.  Returns the name of the way taken."""
        from hippolyzer.lib.base.message.message import Message, Block
        rng = self.rng
        se = self.sessions[s - 1]
        ip, port = self.sims[h - 1]
        self.n_seed = getattr(self, "n_seed", 0) + 1
        seed = "https://sim%d.example/cap/seed-%d-%d" % (h, s, self.n_seed)
        ways = (["EnableSimulator", "TeleportFinish", "CrossedRegion", "register_region", "register_region+seed"] if g
                else ["EstablishAgentCommunication", "register_region+seed"])
        if not se.regions:
            ways = [x for x in ways if x.startswith("register_region")]
        way = rng.choice(ways)
        hv = self.handle_value(g) if g else None
        if way == "register_region":
            se.register_region((ip, port), handle=hv)
            return way
        if way == "register_region+seed":
            se.register_region((ip, port), seed_url=seed, handle=hv)
            return way
        em, ser = _event_manager(self.sm)
        _, _, aid, _ = self.ids[s - 1]
        if way == "EnableSimulator":
            ev = ser.serialize(Message("EnableSimulator", Block("SimulatorInfo", Handle=hv, IP=ip, Port=port)), as_dict=True)
        elif way == "TeleportFinish":
            ev = ser.serialize(Message("TeleportFinish", Block(
                "Info", AgentID=aid, LocationID=4, SimIP=ip, SimPort=port, RegionHandle=hv, SeedCapability=seed,
                SimAccess=13, TeleportFlags=0)), as_dict=True)
        elif way == "CrossedRegion":
            ev = ser.serialize(Message(
                "CrossedRegion", Block("AgentData", AgentID=aid, SessionID=self.ids[s - 1][0]),
                Block("RegionData", SimIP=ip, SimPort=port, RegionHandle=hv, SeedCapability=seed),
                Block("Info", Position=(1.0, 2.0, 3.0), LookAt=(1.0, 0.0, 0.0))), as_dict=True)
        else:
            ev = {"message": "EstablishAgentCommunication",
                  "body": {"agent-id": str(aid), "sim-ip-and-port": "%s:%d" % (ip, port), "seed-capability": seed}}
        try:
            handler = em._handle_eq_event      # reflection bridge: the proxy's own event-queue hook
        except AttributeError as e:
            raise common.MachineryError("event-queue bridge broke: %s" % e)
        handler(se, rng.choice(list(se.regions)), ev)
        return way

    # --- datagrams ----------------------------------------------------------------------------
    PID_SPECIAL = (0, 1, 2, 255, 256, 511, 10000, 10001, 0xFFFF, 0x10000, 0xFFFFFE, 0xFFFFFF, 0x1000000,
                   0x7FFFFFFF, 0x80000000, 0xFFFFFFFE, 0xFFFFFFFF)

    def _next_pid(self):
        """Every 32-bit value is a legal packet ID and the property makes delivery depend on none of them:
        small steps, repeats (resends), named boundary values (24/31/32-bit wrap-around), huge jumps up
        and down, and uniformly random IDs, in any order."""
        rng = self.rng
        c = rng.random() if self.pid_wild else 0.0
        if c < 0.35:
            self.pid = (self.pid + rng.choice([1, 1, 1, 2, 7])) & 0xFFFFFFFF
        elif c < 0.43:
            pass
        elif c < 0.60:
            self.pid = rng.choice(self.PID_SPECIAL)
        elif c < 0.72:
            self.pid = (self.pid + rng.choice([9999, 10001, 65536, 1 << 24, 1 << 31])) & 0xFFFFFFFF
        elif c < 0.88:
            self.pid = (self.pid - rng.choice([1, 500, 9999, 10001, 20002, 65536, 1 << 24, 1 << 31])) & 0xFFFFFFFF
        else:
            self.pid = rng.randrange(1 << 32)
        self.pid_log.append(self.pid)
        return self.pid

    def payload(self, dkey, k, s=0):
        """LLUDP bytes of class k; returns (label, bytes)."""
        rng, pool = self.rng, self.pool
        if k == "ucc":
            if s:
                sid, _, aid, code = self.ids[s - 1]
            else:
                sid, aid, code = self._uuid(), self._uuid(), rng.randrange(1, 1 << 31)
            return "UseCircuitCode", _with_pid(pool.ucc(rng, sid, aid, code), self._next_pid())
        if k in LLUDP_BAD:
            return k, pool.broken(rng, k)
        if k in ("rhs", "amc"):
            want = "RegionHandshake" if k == "rhs" else "AgentMovementComplete"
            src = [x for x in pool.msgs[dkey] if x[0].split("/")[0] == want]
        elif k == "rmsg":
            src = pool.reactive[dkey]
        elif k in KILL_KINDS:
            src = [x for x in pool.kills[dkey] if x[0].split("/")[0] == KILL_KINDS[k]]
        else:
            src = {"banned": pool.banned, "badbody": pool.badbody}.get(k, pool.msgs)[dkey]
        self.cursor += 1
        name, data = src[self.cursor % len(src)]
        return name, _with_pid(data, self._next_pid())

    def recv(self, a, data, src, fault="none"):
        """One datagram on the socket of association a; fault: the first datagram the proxy hands to that
        association's transport while handling it is refused ("err" / "raise", see FakeDatagramTransport).
        Returns (sends, raised); self.fault_fired tells whether a datagram was refused."""
        del self.sink[:]
        tr = self.ctl[a - 1]["dgram"]
        tr.fault, tr.fired = fault, False
        st, r = impl_call(self.protos[a - 1].datagram_received, data, src)
        self.fault_fired = tr.fired
        tr.fault = "none"
        _pump()
        return list(self.sink), (r if st == "raise" else None)

    def open_sim(self, a):
        """A simulator the session held by association a has a circuit with (else simulator 1)."""
        se = self.protos[a - 1].session if self.protos[a - 1] is not None else None
        if se is not None:
            for r in se.regions:
                if r.circuit is not None and r.circuit_addr in self.sims:
                    return self.sims.index(r.circuit_addr) + 1
        return 1

    # --- projection of the public state ---------------------------------------------------
    def proj(self):
        st, regs, circ = [], [], []
        sess = []
        ctl = []
        for c in self.ctl:
            if c is None:
                ctl.append("none")
                continue
            alive = not c["task"].done() and not c["writer"].closed
            sock = c["dgram"] is not None and not c["dgram"].closed
            ctl.append("open" if alive and sock else "closed" if not alive and not sock
                       else "control %s, udp socket %s" % ("alive" if alive else "ended", "open" if sock else "closed or missing"))
        for p in self.protos:
            if p is None or p.session is None:
                sess.append(0)
            else:
                sess.append(next((i + 1 for i, x in enumerate(self.sessions) if x is p.session), 99))
        for i, se in enumerate(self.sessions):
            if se is None or se not in self.sm.sessions:
                st.append("absent" if se is None else "gone")
                regs.append([])
                circ.append(["none"] * self.NH)
                continue
            st.append("pending" if se.pending else "claimed")
            rs = []
            row = ["none"] * self.NH
            for r in se.regions:
                if r.circuit_addr not in self.sims:
                    rs.append(99)
                    continue
                h = self.sims.index(r.circuit_addr) + 1
                rs.append(h)
                c = r.circuit
                if c is None:
                    continue
                v = "open" if c.is_alive else "dead"
                owner = next((a for a, x in enumerate(sess) if x == i + 1), None)
                if owner is None or c.near_host != self.clients[owner] or c.host != self.sims[h - 1] \
                        or c.transport is not self.protos[owner].transport:
                    v += "!near=%r host=%r" % (c.near_host, c.host)
                row[h - 1] = v
            regs.append(sorted(rs))
            circ.append(row)
        return {"ctl": ctl, "st": st, "regs": regs, "sess": sess, "circ": circ}


# ----------------------------------------------------------------------------------------
# B1
# ----------------------------------------------------------------------------------------

_G = None        # Graph
_TABLE = None    # concretisation table printed by TLC
_POOL = None
_CONST = None
_SEED = 0


def _concretise(w: World, lay, act):
    """bytes + source address for a datagram act; returns (label, payload, datagram, src)."""
    rng = w.rng
    k, h, a = act["k"], act["h"], act["a"]
    if act["n"] == "H":
        if k == "spoof":
            label, pl = w.payload("C", "msg")
            return label, pl, bytes(lay["simhdr"][w.open_sim(a) - 1]) + pl, w.unk
        label, pl = w.payload("H", k, act["s"])
        return label, pl, pl, (w.sims[h - 1] if h else w.unk)
    label, pl = w.payload("C", "msg" if k in SOCKS_BAD or k == "dom" else k, act["s"])
    hdr = bytes(lay["simhdr"][h - 1] if h > 0 else lay["clienthdr"][-h - 1] if h < 0 else lay["unkhdr"])
    if k in SOCKS_BAD:
        return label, pl, _bad_socks(rng, k, hdr, pl), w.clients[a - 1]
    if k == "dom":
        return label, pl, bytes(lay["domhdr"]) + pl, w.clients[a - 1]
    return label, pl, hdr + pl, w.clients[a - 1]


def _apply(w: World, lay, act):
    """Perform one abstract action on the real objects; returns (label, payload, sends, raised)."""
    if act["n"] == "Login":
        del w.sink[:]
        w.login(act["s"], act["_login_sim"], act["_login_handle"])
        _pump()
        return "Login", b"", list(w.sink), None
    if act["n"] in ("Assoc", "Close"):
        del w.sink[:]
        (w.associate if act["n"] == "Assoc" else w.close_control)(act["a"])
        _pump()
        return act["n"], b"", list(w.sink), None
    if act["n"] == "Reg":
        del w.sink[:]
        way = w.add_region(act["s"], act["h"], act["a"])      # a Reg event carries the handle in field a
        _pump()
        return "Reg:" + way, b"", list(w.sink), None
    label, pl, dgram, src = _concretise(w, lay, act)
    sends, raised = w.recv(act["a"], dgram, src, act.get("ft", "none"))
    if raised and act.get("ft") == "raise" and w.fault_fired and raised.startswith("OSError"):
        raised = None        # the environment's own refusal coming back out of sendto(), not an escape of the code
    return label, pl, sends, raised


def _expected(w: World, lay, obs, pl):
    exp = []
    for s in obs["sends"]:
        if s["to"] > 0:
            exp.append((s["via"], pl, w.sims[s["to"] - 1]))
        else:
            exp.append((s["via"], bytes(lay["simhdr"][s["hdr"] - 1]) + pl, w.clients[-s["to"] - 1]))
    return exp


def _norm_state(d):
    return {"ctl": d["ctl"], "st": d["st"], "regs": [sorted(r) for r in d["regs"]], "sess": d["sess"], "circ": d["circ"]}


def _judge(w: World, lay, e, pl, sends, raised, pr):
    """Compare what the real objects did (sends, public state pr) on edge e with the specification."""
    bad = []
    exp = _expected(w, lay, e["obs"], pl)
    if not (sends == exp or (e["obs"]["may"] and sends == [])):
        what = "not forwarded" if not sends and exp else "forwarded but must be discarded" if sends and not exp \
            else "duplicated" if len(sends) > len(exp) else "wrong datagram"
        if sends and exp and len(sends) == len(exp):
            (v1, _, t1), (v2, _, t2) = sends[0], exp[0]
            what = "wrong destination" if t1 != t2 else "wrong socket" if v1 != v2 else "content changed"
        bad.append({"clause": "sends", "what": what, "expected": [(v, d.hex(), t) for v, d, t in exp],
                    "got": [(v, d.hex(), t) for v, d, t in sends], "raised": raised})
    want = _norm_state(e["dst"])
    if pr != want:
        stray = any("!" in c for row in pr["circ"] for c in row)
        bad.append({"clause": "state", "what": "a region's circuit is to another address than the region's" if stray
                    else "a viewer's control connection / UDP association is not in the state it must be in" if pr["ctl"] != want["ctl"]
                    else "public session state differs", "expected": want, "got": pr, "raised": raised})
    return bad


_CANDS = None     # state -> in-edges from shallower states, edges without implementation choice first
_GOODP = {}       # state -> in-edge that this implementation was seen to follow
_BADE = set()     # in-edges this implementation does not follow (it takes the other allowed branch)
_UNREACH = set()  # states none of whose in-edges it follows


def _prep(g: Graph):
    """Login edges need the login simulator, which the specification fixes (dst.regs).  A state is
    reached through its in-edges from shallower states, those without an implementation choice
    (act.ch) first."""
    global _CANDS
    for e in g.edges:
        if e["act"]["n"] == "Login":
            e["act"]["_login_sim"] = e["dst"]["regs"][e["act"]["s"] - 1][0]
            e["act"]["_login_handle"] = e["dst"]["hnd"][e["act"]["s"] - 1][e["act"]["_login_sim"] - 1]
    depth = {k: 0 for k in g.inits}
    dq = collections.deque(depth)
    while dq:
        st = dq.popleft()
        for ei in g.out.get(st, ()):
            d = g.edges[ei]["_d"]
            if d not in depth:
                depth[d] = depth[st] + 1
                dq.append(d)
    cands = collections.defaultdict(list)
    for i, e in enumerate(g.edges):
        if e["_s"] in depth and depth[e["_s"]] < depth[e["_d"]]:
            cands[e["_d"]].append(i)
    for k in cands:
        cands[k].sort(key=lambda i: (bool(g.edges[i]["act"]["ch"]), g.edges[i]["act"]["h"] < 0, depth[g.edges[i]["_s"]], i))
    _CANDS = dict(cands)
    _GOODP.clear()
    _BADE.clear()
    _UNREACH.clear()


def _path_to(skey):
    """Shortest-first path for display (first candidate in-edge of every state)."""
    path = []
    while _CANDS.get(skey):
        e = _G.edges[_GOODP.get(skey, _CANDS[skey][0])]
        path.append(e)
        skey = e["_s"]
    path.reverse()
    return path


def _new_world(lay, seed):
    c = _CONST
    return World(_POOL, lay["clients"], lay["sims"], lay["unk"], c["NA"], c["NS"], c["NH"], random.Random(seed),
                 tcp=c["Tcp"] == "TRUE")


def _reach(lay, skey, seed):
    """Real objects in abstract state skey, or None when this implementation does not get there (on
    every way in it takes the other branch of a choice the property leaves open; a step that no
    branch allows is reported where that edge itself is replayed).  The memo only ever causes a
    state to be skipped, never a verdict."""
    if not _CANDS.get(skey):
        return _new_world(lay, seed), []
    if skey in _UNREACH:
        return None, []
    order = list(_CANDS[skey])
    if skey in _GOODP:
        order.remove(_GOODP[skey])
        order.insert(0, _GOODP[skey])
    for ei in order:
        if ei in _BADE:
            continue
        e = _G.edges[ei]
        for attempt in range(2):     # the concrete datagram (message type) varies with the seed
            w, hist = _reach(lay, e["_s"], seed + 104729 * attempt)
            if w is None:
                break
            label, _, _, _ = _apply(w, lay, e["act"])
            hist.append(dict(e["act"], label=label))
            if w.proj() == _norm_state(e["dst"]):
                _GOODP[skey] = ei
                return w, hist
            w.close()
        _BADE.add(ei)
    _UNREACH.add(skey)
    return None, []


def _poisons(act):
    """A viewer datagram that is a well-formed SOCKS request for a viewer's own address."""
    return act["n"] == "C" and act["h"] < 0 and act["k"] not in SOCKS_BAD and act["k"] != "dom"


def _groups(skey):
    """Out-edges of a state grouped by datagram: edges that differ only in act.ch are the outcomes
    the specification allows for one and the same datagram."""
    groups = collections.OrderedDict()
    for i in _G.out.get(skey, ()):
        e = _G.edges[i]
        act = e["act"]
        groups.setdefault((act["n"], act["a"], act["h"], act["k"], act["s"], act["ft"]), []).append(e)
    return list(groups.values())


def _replay_states(tasks):
    """tasks: [(state key, layout index)].  Datagrams that leave the state unchanged are replayed one
    after the other on the same objects (so a discard that disturbs anything shows up in the next
    ones), state-changing ones each on freshly built objects."""
    fails = []
    n_edges = 0
    skipped = 0
    used = set()
    for skey, li in tasks:
        lay = _TABLE[li]
        base = zlib.crc32(("%d|%d|%s" % (_SEED, li, skey)).encode())
        groups = _groups(skey)
        loops = [g for g in groups if all(e["_d"] == e["_s"] for e in g)]
        moves = [g for g in groups if not all(e["_d"] == e["_s"] for e in g)]
        random.Random(base).shuffle(loops)
        # mis-addressed (to a viewer's own address) datagrams go last, each followed by probes: datagrams
        # of the same association that must be forwarded and already were on these very objects
        selfies = [g for g in loops if g[0]["act"]["n"] == "C" and g[0]["act"]["h"] < 0]
        loops = [g for g in loops if not (g[0]["act"]["n"] == "C" and g[0]["act"]["h"] < 0)]
        w, hist = _reach(lay, skey, base)
        if w is None:
            skipped += 1
            continue
        since = []
        passed = []

        def one(grp, fresh=False):
            nonlocal w, hist, since, n_edges
            act = grp[0]["act"]
            label, pl, sends, raised = _apply(w, lay, act)
            n_edges += 1
            used.add((act["n"], act["k"], label))
            pr = w.proj()
            bads = [_judge(w, lay, e, pl, sends, raised, pr) for e in grp]
            since.append(dict(act, label=label))
            if all(bads):
                bad = min(bads, key=len)
                fails.append({"layout": li + 1, "history": hist + since[-6:], "act": {k: v for k, v in act.items() if k != "ch"},
                              "label": label, "mismatches": bad[:2], "alternatives_allowed": len(grp),
                              "packet_ids_of_the_last_datagrams_built (all circuits, oldest first)": w.pid_log[-10:],
                              "after_self_addressed": act["n"] == "C" and any(
                                  _poisons(x) and x["a"] == act["a"] for x in hist + since[:-1])})
                if not fresh:
                    w.close()
                    w, hist = _reach(lay, skey, base + len(fails))
                    since = []
                return False
            return True
        for grp in loops:
            if w is None:
                break
            act = grp[0]["act"]
            if act["k"] == "spoof" and lay["unk"]["ip"] == lay["clients"][act["a"] - 1]["ip"]:
                continue    # on the viewer's own IP a stranger cannot be told from the viewer
            if one(grp) and all(e["obs"]["sends"] and not e["obs"]["may"] for e in grp):
                passed.append(grp)
        for grp in selfies:
            if w is None:
                break
            if not one(grp):
                continue
            probes = [p for p in passed if p[0]["act"]["a"] == grp[0]["act"]["a"]]
            for p in random.Random(base + n_edges).sample(probes, min(3, len(probes))):
                if w is None or not one(p):
                    break
        if w is None:
            skipped += 1
        else:
            w.close()
        for j, grp in enumerate(moves):
            w, hist = _reach(lay, skey, base + 7919 * (j + 1))
            if w is None:
                skipped += 1
                continue
            since = []
            one(grp, fresh=True)
            w.close()
    return n_edges, fails, used, skipped


def _records(out: str, tables: list):
    """The JSON records TLC printed, one at a time (1.4M edges in thorough: the text is walked without
    splitting it, and equal states / actions / outputs of different edges become ONE shared object)."""
    pools = {"src": {}, "act": {}, "obs": {}}
    pools["dst"] = pools["src"]
    pos, n = 0, len(out)
    while pos < n:
        end = out.find("\n", pos)
        if end < 0:
            end = n
        if out.startswith('"{', pos):
            try:
                r = json.loads(json.loads(out[pos:end]))
            except Exception:
                raise common.MachineryError("unparseable PrintT line: %r" % out[pos:pos + 200])
            if "table" in r:
                tables.append(r)
            else:
                for key, pool in pools.items():
                    if key in r:
                        r[key] = pool.setdefault(common.skey(r[key]), r[key])
                yield r
        pos = end + 1


def _features(f):
    m = f["mismatches"][0]
    act = f["act"]
    feat = {"kind": "b1", "clause": m["clause"], "what": m["what"], "act": act["n"], "k": act["k"],
            "after_self_addressed": f["after_self_addressed"]}
    if act["k"] in ("msg", "rmsg", "rhs", "amc", "killc", "killd", "banned", "badbody", "ucc") and not f["after_self_addressed"]:
        feat["msg"] = f["label"]
    if m.get("raised"):
        feat["escaped"] = str(m["raised"]).split(":")[0]     # the exception that escaped datagram_received
    return feat


def _b1(chk: Check, consts, label, layouts=(0, 1)):
    global _G, _TABLE, _CONST, _SEED
    # one TLC run: exhaustive check of the invariants / action properties and of the framing law
    # (UdpProxy_MBT extends UdpProxy_MC), and export of the labelled transition system
    cfgp = os.path.join(chk.scratch, "mbt-%s.cfg" % label)
    with open(cfgp, "w") as f:
        f.write("SPECIFICATION MSpec\nCONSTANTS %s\nVIEW MView\n%s%s" % (
            _consts(consts), "".join("INVARIANT %s\n" % i for i in INVS), "".join("PROPERTY %s\n" % p for p in PROPS)))
    res = common.run_tlc(os.path.join(common.SPECS, "UdpProxy_MBT.tla"), cfgp, workers=1, scratch=chk.scratch, heap="8g")
    chk.require_model_ok(res, "UdpProxy_MBT " + label)
    if not res.ok:
        return 0, 0
    tables = []
    g = Graph(_records(res.out, tables))
    res.out = ""
    if len(tables) != 1:
        raise common.MachineryError("UdpProxy_MBT printed %d table records" % len(tables))
    table = tables[0]["table"]
    canon = {k: k for k in g.states}
    for e in g.edges:
        e["_s"], e["_d"] = canon[e["_s"]], canon[e["_d"]]
    gc.collect()
    _prep(g)
    _G, _TABLE, _CONST, _SEED = g, table, consts, chk.seed
    keys = sorted(g.parent)
    if layouts == "alternate":     # every state in one of the two layouts
        tasks = [(k, zlib.crc32(("%d|%s" % (chk.seed, k)).encode()) % 2) for k in keys]
        layouts = (0,)
    else:
        tasks = [(k, li) for li in layouts for k in keys]
    random.Random(chk.seed).shuffle(tasks)
    t0 = time.time()
    gc.freeze()
    try:
        results = common.parallel_map(_replay_states, common.chunked(tasks, common.NCPU * 3))
    finally:
        gc.unfreeze()
    chk.notes.append("B1 %s: %d states x %d layouts replayed in %.1fs" % (label, len(keys), len(layouts), time.time() - t0))
    n = sum(r[0] for r in results)
    chk.count(n)
    chk.cov["traces_validated_against_impl"] += n
    chk.cov["b1_edges_replayed"] = chk.cov.get("b1_edges_replayed", 0) + n
    used = set()
    for r in results:
        used |= r[2]
    names = {u[2] for u in used if u[1] in ("msg", "rmsg", "rhs", "amc", "killc", "killd", "banned", "ucc")}
    chk.cov["b1_message_labels_used"] = max(chk.cov.get("b1_message_labels_used", 0), len(names))
    for e in g.edges:
        if e["obs"]["sends"] or e["src"] != e["dst"]:
            chk.nontrivial(("edge", label, e["_s"], common.skey(e["act"])))
    skipped = sum(r[3] for r in results)
    if skipped:
        chk.notes.append("B1 %s: %d (state, layout) pairs are not reached by this implementation (other branch of a "
                         "choice the property leaves open)" % (label, skipped))
    byfeat = collections.OrderedDict()
    for _, fails, _, _ in results:
        for f in fails:
            byfeat.setdefault(common.skey(_features(f)), []).append(f)
    for key in sorted(byfeat):
        fl = sorted(byfeat[key], key=lambda f: len(f["history"]))
        f = fl[0]
        chk.violation("B1 %s: %s (%s %s %s%s)" % (label, f["mismatches"][0]["what"], f["act"]["n"], f["act"]["k"], f["label"],
                                                 ", after a datagram addressed to the viewer itself" if f["after_self_addressed"] else ""),
                      _features(f), dict(f, failing_cases_with_these_features=len(fl)))
    if skipped > len(tasks) // 2 and not byfeat:
        raise common.MachineryError("B1 %s: %d of %d states are not reached by this implementation and no edge it does take "
                                    "is wrong: the replay is vacuous" % (label, skipped, len(tasks)))
    e = next((x for x in g.edges if x["obs"]["sends"] and x["act"]["n"] == "H"), g.edges[0])
    chk.sample({"binding": "B1 edge replay", "path": [p["act"] for p in _path_to(e["_s"])] + [e["act"]],
                "expected_output": e["obs"], "expected_state": e["dst"]})
    return len(g.parent), len(g.edges)


# ----------------------------------------------------------------------------------------
# B2
# ----------------------------------------------------------------------------------------

def _ipb(addr):
    try:
        ip = [int(x) for x in addr[0].split(".")]
        if len(ip) != 4:
            raise ValueError
        return {"ip": ip, "port": int(addr[1])}
    except Exception:
        return {"ip": [-1], "port": -1, "raw": repr(addr)[:80]}


def _rand_addrs(rng, NA, NH):
    """Random viewers / simulators / one stranger; sometimes all on one IP."""
    same = rng.random() < 0.4
    used = set()
    home = [127, 0, 0, 1]

    def one(ip=None):
        while True:
            a = {"ip": list(ip) if ip else [rng.choice([10, 172, 192, 8]), rng.randrange(256), rng.randrange(256), rng.randrange(1, 255)],
                 "port": rng.choice([1, 255, 256, 1024, 13000, 65535, rng.randrange(1, 65536)])}
            key = (tuple(a["ip"]), a["port"])
            if key not in used:
                used.add(key)
                return a
    lan = [192, 168, 1, 10] if rng.random() < 0.5 else None
    clients = [one(home if same else lan) for _ in range(NA)]
    farm = [10, 9, 8, 7]
    sims = [one(home if same else (farm if rng.random() < 0.5 else None)) for _ in range(NH)]
    # the stranger: anywhere, on a simulator's IP, or on the viewer's machine
    unk = one(home if same else rng.choice([None, sims[0]["ip"], clients[0]["ip"]]))
    return clients, sims, unk


def _walk(pool: Pool, seed, NA, NS, NH, length):
    rng = random.Random(seed)
    clients, sims, unk = _rand_addrs(rng, NA, NH)
    w = World(pool, clients, sims, unk, NA, NS, NH, rng, tcp=True)
    evs = [{"ev": "Cfg", "clients": clients, "sims": sims}]
    logged = {}
    registered = {}
    gone = set()
    stats = {"fwd_c": 0, "fwd_h": 0, "discards": 0, "names": set(), "selfie": {}}
    open_a = []

    def control(name, a):
        """Viewer a's SOCKS control connection asks for its UDP association / ends."""
        del w.sink[:]
        (w.associate if name == "Assoc" else w.close_control)(a)
        _pump()
        evs.append({"ev": name, "a": a, "sent": [{"via": v, "data": list(d), "to": _ipb(t)} for v, d, t in w.sink], "proj": w.proj()})
    late = list(range(2, NA + 1)) if rng.random() < 0.3 else []      # viewers that connect during the run
    for a in range(1, NA + 1):
        if a not in late:
            control("Assoc", a)
            open_a.append(a)
    close_at = rng.randrange(int(length * 0.3), int(length * 0.9)) if rng.random() < 0.5 else -1

    def sent_json(sends):
        return [{"via": v, "data": list(d), "to": _ipb(t)} for v, d, t in sends]

    def sock_hdr(e):
        return b"\x00\x00\x00\x01" + bytes(e["ip"]) + struct.pack("!H", e["port"])
    p_garbage = rng.choice([0.15, 0.35, 0.6])
    selfie_from = int(length * 0.7) if rng.random() < 0.25 else length   # mis-addressed to a viewer: late, in some walks
    for step in range(length):
        c = rng.random()
        if late and step == length // 4:
            for a in late:
                control("Assoc", a)
                open_a.append(a)
            late = []
            continue
        if step == close_at and open_a:
            a = rng.choice(open_a)
            held = w.protos[a - 1].session
            s = next((i + 1 for i, x in enumerate(w.sessions) if x is held), 0) if held is not None else 0
            control("Close", a)
            open_a.remove(a)
            if s:        # the session that association held ends with it
                gone.add(s)
                logged.pop(s, None)
                registered.pop(s, None)
            continue
        pending_login = [s for s in range(1, NS + 1) if s not in logged and s not in gone]
        if pending_login and (step == 0 or c < 0.06):
            s = rng.choice(pending_login)
            h = ((s - 1) % NH) + 1
            del w.sink[:]
            w.login(s, h)
            _pump()
            logged[s] = h
            registered[s] = {h}
            evs.append({"ev": "Login", "s": s, "sent": sent_json(w.sink), "proj": w.proj()})
            continue
        if logged and c < 0.12:
            s = rng.choice(sorted(logged))
            # any handle (or none) at any address: new, re-announced, moved, shared
            h = rng.randrange(1, NH + 1)
            g = rng.choice([0, 1, 1, 2, 2])
            del w.sink[:]
            way = w.add_region(s, h, g)
            _pump()
            registered[s].add(h)
            evs.append({"ev": "Reg", "s": s, "g": g, "h": h, "way": way, "sent": sent_json(w.sink), "proj": w.proj()})
            continue
        if not open_a:
            continue
        a = rng.choice(open_a)
        held = w.protos[a - 1].session
        held_s = next((i + 1 for i, x in enumerate(w.sessions) if x is held), 0) if held is not None else 0
        # far host: mostly one that matters to this association
        prefer = sorted(registered.get(held_s, ())) if held_s else sorted({h for hs in registered.values() for h in hs})
        h = rng.choice(prefer) if prefer and rng.random() < 0.8 else rng.randrange(0, NH + 1)
        if rng.random() < 0.5:
            # viewer datagram
            has_circ = bool(held_s) and any(r.circuit is not None and r.circuit_addr == w.sims[h - 1]
                                            for r in held.regions) if h else False
            if rng.random() < p_garbage:
                k = rng.choice(SOCKS_BAD + LLUDP_BAD + ("dom", "badbody", "banned"))
            elif not has_circ and rng.random() < 0.7:
                k = "ucc"
            else:
                k = rng.choice(["msg"] * 9 + ["rmsg"] * 3 + ["ucc", "ucc", rng.choice(["killc", "killd"])])
            s = 0
            if k == "ucc":
                # a viewer names its own session once it holds one (value read from the real object)
                # mostly its own session once it holds one (value read from the real object), but also another
                # live one's, a pending login's or an unknown ID
                s = held_s if held_s and rng.random() < 0.7 else rng.choice([0] + list(range(1, NS + 1)) * 3)
            label, pl = w.payload("C", "msg" if k in SOCKS_BAD or k == "dom" else k, s)
            tgt = sims[h - 1] if h else unk
            if step >= selfie_from and rng.random() < 0.08:
                b = rng.choice([a, a, rng.randrange(1, NA + 1)])
                tgt = clients[b - 1]
                if b == a and k not in SOCKS_BAD and k != "dom":
                    stats["selfie"].setdefault(a, len(evs))
            if k in SOCKS_BAD:
                dgram = _bad_socks(rng, k, sock_hdr(tgt), pl)
            elif k == "dom":
                nm = bytes(rng.choice(b"abcdefgh.-") for _ in range(rng.randrange(1, 20)))
                dgram = b"\x00\x00\x00\x03" + bytes([len(nm)]) + nm + struct.pack("!H", tgt["port"]) + pl
            else:
                dgram = sock_hdr(tgt) + pl
            arm = rng.choice(["err", "raise"]) if k in ("msg", "ucc") and rng.random() < 0.06 else "none"
            sends, raised = w.recv(a, dgram, w.clients[a - 1], arm)
            ft = arm if w.fault_fired else "none"      # only a datagram that was sent can have been refused
            if ft == "raise":
                raised = None
            evs.append({"ev": "C", "a": a, "src": clients[a - 1], "data": list(dgram), "k": k, "s": s, "ft": ft, "label": label,
                        "sent": sent_json(sends), "raised": raised or "", "proj": w.proj()})
            if sends:
                stats["fwd_c"] += 1
                stats["names"].add(label)
            else:
                stats["discards"] += 1
        else:
            k = rng.choice(LLUDP_BAD + ("badbody", "banned", "spoof")) if rng.random() < p_garbage \
                else rng.choice(["msg"] * 9 + ["rmsg"] * 3 + ["rhs", "rhs", "amc"] + [rng.choice(["killc", "killd"]), "ucc"])
            s = 0
            if k == "spoof" and unk["ip"] == clients[a - 1]["ip"]:
                k = "unkmsg"
            if k == "spoof":
                h = 0
                label, pl = w.payload("C", "msg")
                pl = sock_hdr(sims[w.open_sim(a) - 1]) + pl
            else:
                if k == "ucc":
                    s = rng.choice([0] + list(range(1, NS + 1)) * 3)
                label, pl = w.payload("H", k, s)
            src = sims[h - 1] if h else unk
            arm = rng.choice(["err", "raise"]) if k in ("msg", "ucc") and rng.random() < 0.06 else "none"
            sends, raised = w.recv(a, pl, _addr(src), arm)
            ft = arm if w.fault_fired else "none"
            if ft == "raise":
                raised = None
            evs.append({"ev": "H", "a": a, "src": src, "data": list(pl), "k": k, "s": s, "ft": ft, "label": label,
                        "sent": sent_json(sends), "raised": raised or "", "proj": w.proj()})
            if sends:
                stats["fwd_h"] += 1
                stats["names"].add(label)
            else:
                stats["discards"] += 1
    w.close()
    for i, e in enumerate(evs):
        e["i"] = i
    return evs, stats


def _clip_trace(evs):
    return [{k: (v[:48] + ["..."] if isinstance(v, list) and len(v) > 48 else v) for k, v in e.items()} for e in evs if e]


def _churn_walk(pool: Pool, seed, NA, NS, NH, n_far):
    """Address churn: circuits are opened, then the viewer addresses n_far datagrams of the discard
    classes (no circuit / undecodable / banned / domain name) to n_far DISTINCT far hosts nobody has
    a circuit with, interleaved with datagrams FROM the open-circuit simulators, each of which must be
    delivered exactly once whatever was discarded before.  In the first 70% the viewer never writes to
    its simulators (nothing refreshes whatever the proxy remembers about them); afterwards it does."""
    rng = random.Random(seed)
    clients, sims, unk = _rand_addrs(rng, NA, NH)
    w = World(pool, clients, sims, unk, NA, NS, NH, rng, tcp=True)
    evs = [{"ev": "Cfg", "clients": clients, "sims": sims}]

    def control(name, b):
        del w.sink[:]
        (w.associate if name == "Assoc" else w.close_control)(b)
        _pump()
        evs.append({"ev": name, "a": b, "sent": [{"via": v, "data": list(d), "to": _ipb(t)} for v, d, t in w.sink], "proj": w.proj()})
    for b in range(1, NA + 1):
        control("Assoc", b)
    stats = {"fwd_c": 0, "fwd_h": 0, "discards": 0, "names": set(), "selfie": {}, "churn": n_far}
    taken = {(tuple(e["ip"]), e["port"]) for e in clients + sims}

    def sent_json(sends):
        return [{"via": v, "data": list(d), "to": _ipb(t)} for v, d, t in sends]

    def sock_hdr(e):
        return b"\x00\x00\x00\x01" + bytes(e["ip"]) + struct.pack("!H", e["port"])

    def fresh():
        while True:
            mode = rng.randrange(4)
            base = sims[0] if mode == 0 else clients[0] if mode == 1 else None   # same host other port / elsewhere
            e = {"ip": list(base["ip"]) if base else [rng.choice([10, 172, 192, 8, 100]), rng.randrange(256), rng.randrange(256), rng.randrange(1, 255)],
                 "port": rng.randrange(1, 65536)}
            key = (tuple(e["ip"]), e["port"])
            if key not in taken:
                taken.add(key)
                return e

    def viewer(a, dgram, k, s, label):
        sends, raised = w.recv(a, dgram, w.clients[a - 1])
        evs.append({"ev": "C", "a": a, "src": clients[a - 1], "data": list(dgram), "k": k, "s": s, "ft": "none", "label": label,
                    "sent": sent_json(sends), "raised": raised or "", "proj": w.proj()})
        stats["fwd_c" if sends else "discards"] += 1

    def far(a, src, k, s=0):
        label, pl = w.payload("H", k, s)
        arm = rng.choice(["err", "raise"]) if k in ("msg", "ucc") and rng.random() < 0.04 else "none"
        sends, raised = w.recv(a, pl, _addr(src), arm)
        ft = arm if w.fault_fired else "none"
        if ft == "raise":
            raised = None
        evs.append({"ev": "H", "a": a, "src": src, "data": list(pl), "k": k, "s": s, "ft": ft, "label": label,
                    "sent": sent_json(sends), "raised": raised or "", "proj": w.proj()})
        if sends:
            stats["fwd_h"] += 1
            stats["names"].add(label)
        else:
            stats["discards"] += 1
    # set-up: the churning association a with its session, one or two open circuits; sometimes the
    # other association is live as well
    a = rng.randrange(1, NA + 1)
    live = {}
    for b in ([a] + ([x for x in range(1, NA + 1) if x != a] if rng.random() < 0.5 else [])):
        s = b if b <= NS else 0
        if not s:
            continue
        h = ((s - 1) % NH) + 1
        del w.sink[:]
        w.login(s, h)
        _pump()
        evs.append({"ev": "Login", "s": s, "sent": sent_json(w.sink), "proj": w.proj()})
        hs = [h]
        if rng.random() < 0.6:
            h2 = rng.choice([x for x in range(1, NH + 1) if x != h])
            del w.sink[:]
            way = w.add_region(s, h2, 2)
            _pump()
            evs.append({"ev": "Reg", "s": s, "g": 2, "h": h2, "way": way, "sent": sent_json(w.sink), "proj": w.proj()})
            hs.append(h2)
        for hh in hs:
            label, pl = w.payload("C", "ucc", s)
            viewer(b, sock_hdr(sims[hh - 1]) + pl, "ucc", s, label)
        live[b] = (s, hs)
    s, hs = live[a]
    strangers = []
    quiet_until = int(n_far * 0.7)
    # in most runs another viewer's control connection ends on the way (its association and session go,
    # with or without circuits); the churning viewer must not notice
    others = [x for x in range(1, NA + 1) if x != a]
    close_other_at = int(n_far * rng.choice([0.1, 0.35, 0.6])) if others and rng.random() < 0.7 else -1
    done = 0
    while done < n_far:
        if done == close_other_at:
            b = rng.choice(others)
            control("Close", b)
            live.pop(b, None)
            close_other_at = -1
            far(a, sims[rng.choice(hs) - 1], "msg")
            continue
        c = rng.random()
        if c < 0.72:
            tgt = fresh()
            k = rng.choice(["msg"] * 5 + ["banned", "badbody", "short", "unkmsg", "ucc", "dom"])
            label, pl = w.payload("C", "msg" if k == "dom" else k, s if k == "ucc" else 0)
            if k == "dom":
                nm = ("h%d.example" % done).encode()
                dgram = b"\x00\x00\x00\x03" + bytes([len(nm)]) + nm + struct.pack("!H", tgt["port"]) + pl
            else:
                dgram = sock_hdr(tgt) + pl
                strangers.append(tgt)
            viewer(a, dgram, k, s if k == "ucc" else 0, label)
            done += 1
        elif c < 0.92:
            far(a, sims[rng.choice(hs) - 1], rng.choice(["msg"] * 5 + ["rmsg", "rmsg", "rhs", "amc", "ucc", "badbody"]))
        elif c < 0.95 and strangers:
            far(a, rng.choice(strangers), rng.choice(["msg", "msg", "unkmsg"]))     # a stranger the viewer once wrote to
        elif c < 0.97 and len(live) > 1:
            b = next(x for x in live if x != a)
            far(b, sims[rng.choice(live[b][1]) - 1], "msg")
        elif done >= quiet_until:
            label, pl = w.payload("C", "msg")
            viewer(a, sock_hdr(sims[rng.choice(hs) - 1]) + pl, "msg", 0, label)
    for hh in hs:      # and at the very end every circuit still works in both directions
        far(a, sims[hh - 1], "msg")
        label, pl = w.payload("C", "msg")
        viewer(a, sock_hdr(sims[hh - 1]) + pl, "msg", 0, label)
        far(a, sims[hh - 1], "msg")
    w.close()
    for i, e in enumerate(evs):
        e["i"] = i
    return evs, stats


def _walk_chunk(args):
    return [(_churn_walk if churn else _walk)(_POOL, seed, NA, NS, NH, length) for seed, NA, NS, NH, length, churn in args]


def _b2(chk: Check, n_walks, length, label, churn=()):
    """n_walks random walks of `length` events plus one address-churn walk per entry of `churn`
    (number of distinct stranger addresses the viewer writes to)."""
    NA, NS, NH = 2, 2, 3
    args = [(chk.rng.randrange(1 << 62), NA, NS, NH, length, False) for _ in range(n_walks)]
    args += [(chk.rng.randrange(1 << 62), NA, NS, NH, n, True) for n in churn]
    chk.rng.shuffle(args)
    t0 = time.time()
    res = [x for part in common.parallel_map(_walk_chunk, common.chunked(args, common.NCPU)) for x in part]
    chk.notes.append("B2 %s: %d walks recorded in %.1fs" % (label, n_walks, time.time() - t0))
    traces = [r[0] for r in res]
    cfg = ("SPECIFICATION TraceSpec\nCONSTANTS NA = %d NS = %d NH = %d Dyn = TRUE NG = 2 Tcp = TRUE Flt = TRUE GMode = \"any0\"\nPOSTCONDITION TraceAccepted\n"
           "CHECK_DEADLOCK FALSE\n" % (NA, NS, NH))
    acc, rej, results = common.validate_traces("UdpProxy_Trace", cfg, traces, chk.scratch,
                                               shards=4 if chk.tier == "quick" else common.NCPU)
    fails = {}
    for r in results:
        chk.add_tlc(r, "UdpProxy_Trace " + label)
        for rec in r.printed():
            if isinstance(rec, dict) and "fail" in rec:
                fails.setdefault(rec["tid"], []).append(rec)
    chk.cov["traces_validated_against_impl"] += len(traces)
    chk.count(sum(len(t) for t in traces))
    def _fail_idx(f):
        p = f["fail"].split(" ")
        return int(p[3]) if len(p) >= 4 and p[3].isdigit() else -1
    for ti, j, ev in rej:
        if any(0 <= _fail_idx(f) < j for f in fails.get(ti, ())):
            continue      # specification and implementation already disagreed earlier in this run (reported below)
        chk.violation("B2 %s: trace rejected by UdpProxy_Trace at event %d (%s)" % (label, j, ev.get("ev")),
                      {"kind": "b2-reject", "event": ev.get("ev"), "k": ev.get("k"), "msg": ev.get("label")},
                      {"trace_prefix": _clip_trace(traces[ti][max(0, j - 8):j + 1])})
    seen = set()
    for tid, fl in sorted(fails.items()):
        # only the first failing event of a run counts: afterwards specification and implementation
        # are in different states and every later mismatch is a consequence
        def idx(f):
            p = f["fail"].split(" ")
            return int(p[3]) if len(p) >= 4 and p[3].isdigit() else -1
        first_i = min(idx(f) for f in fl)
        for f in [f for f in fl if idx(f) == first_i]:
            # fail names are "<C|H>.<sent|state> <kind> <message label> <event index>"
            parts = f["fail"].split(" ")
            if len(parts) < 4:
                feat = {"kind": "b2", "clause": f["fail"]}
                ex = None
            else:
                ex = traces[tid][int(parts[3])]
                first = res[tid][1]["selfie"].get(ex.get("a"))
                feat = {"kind": "b2", "clause": parts[0], "k": parts[1],
                        "after_self_addressed": ex["ev"] == "C" and first is not None and first < int(parts[3])}
                if not feat["after_self_addressed"]:
                    feat["msg"] = parts[2]
                if ex.get("raised"):
                    feat["escaped"] = str(ex["raised"]).split(":")[0]
                if res[tid][1].get("churn"):
                    feat["churn"] = True     # an address-churn run: many distinct far addresses were written to before
            if common.skey(feat) in seen:
                continue
            seen.add(common.skey(feat))
            chk.violation("B2 %s: %s%s" % (label, " ".join(parts[:3]), ", after a datagram addressed to the viewer itself"
                                           if feat.get("after_self_addressed") else ""), feat,
                          {"failed_clauses": fl[:5], "cfg": traces[tid][0], "event": _clip_trace([ex] if ex else []),
                           "distinct_far_addresses_written_to_before_by_that_association": len({
                               tuple(e["data"][3:10] if e.get("k") != "dom" else e["data"][3:7 + e["data"][4]])
                               for e in traces[tid][:int(parts[3])]
                               if e.get("ev") == "C" and e.get("a") == ex.get("a") and e.get("k") not in SOCKS_BAD
                           }) if ex else None,
                           "before": _clip_trace(traces[tid][max(1, int(parts[3]) - 4):int(parts[3])] if ex else [])})
    names = set()
    for i, (t, stats) in enumerate(res):
        names |= stats["names"]
        if stats["fwd_c"] >= 3 and stats["fwd_h"] >= 3 and stats["discards"] >= 3:
            chk.nontrivial(("walk", label, i))
        if stats.get("churn"):
            chk.cov["b2_churn_walks"] = chk.cov.get("b2_churn_walks", 0) + 1
            chk.cov["b2_churn_max_distinct_far_addresses"] = max(chk.cov.get("b2_churn_max_distinct_far_addresses", 0), stats["churn"])
    chk.cov["b2_message_labels_forwarded"] = max(chk.cov.get("b2_message_labels_forwarded", 0), len(names))
    ok = next((i for i in range(len(traces)) if i not in fails), 0)
    chk.sample({"binding": "B2 trace (first events)", "events": [
        {k: (v[:16] + ["..."] if isinstance(v, list) and len(v) > 16 and k == "data" else v) for k, v in e.items() if k != "sent"}
        for e in traces[ok][:4]]})


def run(chk: Check):
    global _POOL
    chk.cov["rule"] = (
        "B1: every edge of the exhaustively enumerated model (datagram classes x associations x far hosts x UseCircuitCode "
        "sessions, logins, region registrations, in every reachable public state) replayed into the real proxy objects in two "
        "address layouts, full output + public state compared; non-trivial = edges that must forward something or change the "
        "state.  B2: random byte-level runs validated by TLC; non-trivial = runs with >= 3 forwards in each direction and >= 3 discards; they include "
        "address-churn runs: open circuits, then hundreds (thorough: up to 4200) of discard-class datagrams to DISTINCT stranger "
        "addresses interleaved with simulator datagrams that must each still be delivered exactly once.")
    chk.assumptions += [
        "no addon is loaded; ChatFromViewer is never on the addon command channel 524",
        "a viewer that already holds a session names that session in UseCircuitCode; one source address per viewer",
        "a UseCircuitCode naming a pending session claims it even if the addressed simulator is no registered region "
        "(upstream test_bad_circuit_not_sent asserts this); only Session.regions / circuits are 'the session's state'",
        "valid datagrams are those the codec itself produces and round-trips (C01's subject); content intact = byte identical, "
        "which for such datagrams is the same as message identical",
        "the property is silent (either outcome accepted, bound to the observation) for: circuits marked dead by "
        "CloseCircuit/DisableSimulator, datagrams whose header decodes but whose body does not, banned messages sent BY the viewer",
        "an exception escaping datagram_received is a discard (asyncio logs and drops it)",
        "every association is created by SOCKS5Server.handle_connection (greeting + UDP ASSOCIATE fed to a StreamReader, fake "
        "datagram endpoint) and ends with EOF on that reader; a closed association receives no datagrams (its socket is closed)",
        "send faults: the transport refuses exactly one handed-over datagram (recorded as handed over, then either "
        "error_received(OSError(EMSGSIZE)) is called from inside sendto() as asyncio does, or sendto() raises); the refusal "
        "coming back out of datagram_received in the raise variant is the environment's, not an escape of the code",
        "a UseCircuitCode on an association that already holds a session is an ordinary message whatever session it names "
        "(own, other live, pending login's, unknown): forwarded, the circuit to a registered region of the HELD session (re)opened, "
        "nothing claimed or ended (for a pending login's ID this is what the pinned code does)",
        "packet IDs of valid datagrams are arbitrary 32-bit values in arbitrary order (repeats, wrap-around, jumps of more "
        "than the injection window up and down); the forwarded bytes, ID included, are compared / recomputed by TLC",
        "domain-name (ATYP 3) requests never match a circuit: circuits are keyed by IP address and port",
        "region announcements name a handle and an address; routing is by address only: an announcement registers its address "
        "and touches no circuit, except that the implementation may forget regions it knew under the same handle at OTHER "
        "addresses (choice bound to the observation); region.handle itself is not compared",
    ]
    quick = chk.tier == "quick"
    _POOL = Pool(random.Random(chk.seed * 7 + 6), 1 if quick else 3)
    chk.cov["pool"] = {"reactive_message_types": _POOL.n_reactive, "templates": _POOL.n_templates, "valid_out": len(_POOL.msgs["C"]), "valid_in": len(_POOL.msgs["H"]),
                       "banned": len(_POOL.banned["H"]), "excluded": _POOL.excluded[:20]}
    if quick:
        _b1(chk, dict(NA=2, NS=2, NH=2, Dyn="TRUE", NG=2, Tcp="FALSE", Flt="FALSE", GMode="addr"), "2x2x2", layouts="alternate")
        _b1(chk, dict(NA=1, NS=1, NH=3, Dyn="TRUE", NG=2, Tcp="FALSE", Flt="FALSE", GMode="any"), "1x1x3-2handles", layouts="alternate")
        _b1(chk, dict(NA=2, NS=2, NH=1, Dyn="TRUE", NG=1, Tcp="TRUE", Flt="TRUE", GMode="addr"), "2x2x1-control", layouts="alternate")
        _b1(chk, dict(NA=1, NS=1, NH=2, Dyn="TRUE", NG=1, Tcp="FALSE", Flt="TRUE", GMode="any0"), "1x1x2-nohandle")
        _b2(chk, 40, 120, "rand", churn=[150, 300, 450])
    else:
        _b1(chk, dict(NA=2, NS=2, NH=2, Dyn="TRUE", NG=2, Tcp="FALSE", Flt="TRUE", GMode="addr"), "2x2x2")
        _b1(chk, dict(NA=1, NS=1, NH=3, Dyn="TRUE", NG=2, Tcp="FALSE", Flt="TRUE", GMode="any0"), "1x1x3-2handles")
        _b1(chk, dict(NA=2, NS=2, NH=1, Dyn="TRUE", NG=1, Tcp="TRUE", Flt="TRUE", GMode="addr"), "2x2x1-control")
        _b1(chk, dict(NA=1, NS=1, NH=2, Dyn="TRUE", NG=1, Tcp="FALSE", Flt="TRUE", GMode="any0"), "1x1x2-nohandle")
        _b1(chk, dict(NA=2, NS=2, NH=2, Dyn="FALSE", NG=2, Tcp="TRUE", Flt="TRUE", GMode="addr"), "2x2x2-control", layouts="alternate")
        # (2 sessions x 2 handles x 2 addresses, GMode "any", is 6417 states / 1.3M edges: checked by hand, green,
        #  too slow for the 15 minute budget on a loaded machine; B2 walks mix 2 sessions and 2 handles at random)
        # three addresses: two viewers on one session's regions, one viewer and two sessions sharing them
        # (2 viewers x 2 sessions x 3 addresses is 5593 states / 1.6M edges: green whenever run by hand, but
        #  8 minutes on a loaded machine, more than the 15 minute budget allows next to the models above)
        _b1(chk, dict(NA=2, NS=1, NH=3, Dyn="TRUE", NG=3, Tcp="FALSE", Flt="TRUE", GMode="addr"), "2x1x3")
        _b1(chk, dict(NA=1, NS=2, NH=3, Dyn="TRUE", NG=3, Tcp="FALSE", Flt="TRUE", GMode="addr"), "1x2x3")
        _b2(chk, 640, 160, "rand", churn=[100, 200, 300, 400, 600, 800] * 6 + [1500, 2500, 4200, 4200])
    chk.cov["exhaustive"] = True


# ---- growth beyond the listed property: the TCP side of the same SOCKS5 server (Socks5Tcp.tla)
_run_udp = run


def run(chk: Check):
    _run_udp(chk)
    from . import growth_socks5tcp
    common.growth(chk, "Socks5Tcp", growth_socks5tcp.section, 2 if chk.tier == "quick" else 3)
    chk.cov["rule"] += ("  Socks5Tcp: every edge of the byte-fed model of the SOCKS5 TCP handshake/command loop (5 greetings x "
                        "sequences of 6 command kinds, EOF at every byte) replayed into SOCKS5Server.handle_connection.")
