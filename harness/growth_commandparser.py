"""Growth: parameter parsing of chat commands (CommandParser.tla), B3 table replay into the real
handle_command decorator (proxy/commands.py)."""
from __future__ import annotations

from . import common
from .common import Check

CH = {0: " ", 1: "a", 2: "b"}
INVS = ["ValuesClean", "InOrder", "RefusalJustified", "MandatoryBound"]
_CACHE = {}


def _command(ps):
    from hippolyzer.lib.proxy.commands import handle_command, Parameter
    key = common.skey(ps)
    if key not in _CACHE:
        params = {"p%d" % (i + 1): Parameter(parser=str, sep=(None if p["sep"] == 99 else CH[p["sep"]]), optional=p["opt"])
                  for i, p in enumerate(ps)}

        @handle_command("verif", **params)
        async def cmd(self, session, region, **kw):
            return kw
        _CACHE[key] = cmd
    return _CACHE[key]


def _run(ps, text):
    cmd = _command(ps)
    try:
        coro = cmd(None, None, None, text)
    except KeyError as e:
        return {"ok": False, "missing": str(e).strip("'\"")}
    except Exception as e:  # noqa
        return {"raised": type(e).__name__ + ": " + str(e)[:80]}
    try:
        coro.send(None)
    except StopIteration as s:
        return {"ok": True, "vals": s.value}
    coro.close()
    return {"raised": "command did not complete"}


def section(chk: Check, max_len: int, max_params: int):
    cfg = ("SPECIFICATION Spec\nCONSTANTS Alphabet = {0, 1, 2} MaxLen = %d MaxParams = %d\n%sINVARIANT PrintRow\n"
           % (max_len, max_params, "".join("INVARIANT %s\n" % i for i in INVS)))
    rows = [r for r in common.export_records(chk, "CommandParser_MBT", cfg, "CommandParser len<=%d params<=%d" % (max_len, max_params))
            if "ps" in r]
    chk.cov["tlc_runs"][-1]["invariants"] = INVS
    if len(rows) < 100:
        raise common.MachineryError("CommandParser_MBT printed %d rows" % len(rows))
    for r in rows:
        text = "".join(CH[c] for c in r["t"])
        got = _run(r["ps"], text)
        exp_r = r["r"]
        if exp_r["ok"]:
            exp = {"ok": True, "vals": {"p%d" % v[0]: "".join(CH[c] for c in v[1]) for v in exp_r["vals"]}}
        else:
            exp = {"ok": False, "missing": "Missing parameter p%d" % exp_r["missing"]}
        if got != exp:
            chk.divergence("CommandParser", "B3 command parser: parsed parameters differ from CommandParser!Parse",
                          {"kind": "b3-commandparser", "ok": exp_r["ok"]},
                          {"params": r["ps"], "text": text, "expected": exp, "observed": got})
        if r["ps"] and text.strip():
            chk.nontrivial(("cmd", common.skey(r["ps"]), text))
    chk.count(len(rows))
    chk.cov["traces_validated_against_impl"] += len(rows)
    chk.cov["commandparser_rows"] = len(rows)
    chk.sample({"binding": "B3 command parser row", "row": rows[len(rows) // 2]})
