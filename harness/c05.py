"""C05 — proxied circuit: truthful acks, reliable injections resent (ProxiedCircuit.tla)."""
from __future__ import annotations

import asyncio
import os

from . import common
from .common import Check, Graph, SPECS

INVS = ["Truthful", "NoInjectedAckLeaks", "InjectedIdsFresh", "CompletionExact", "ResendOnlyPending", "OldestCoversPending"]


def _cfg(consts, invs=True, spec="MSpec", sample=1):
    s = ("SPECIFICATION %s\nCONSTANTS MinEp = %d MaxEp = %d MaxInj = %d MaxAcks = %d Tries = %d Interval = 3 Reorder = %d Depth = %d SampleOneIn = %d W = %d Disps <- %s EpOn = %s\n"
         % (spec, consts.get("MinEp", 1), consts["MaxEp"], consts["MaxInj"], consts["MaxAcks"], consts["Tries"], consts["Reorder"], consts["Depth"], sample,
            consts.get("W", 0), consts.get("Disps", "DispsCore"), "FALSE" if consts.get("EpOn") is False else "TRUE"))
    if invs:
        s += "".join("INVARIANT %s\n" % i for i in INVS)
    if spec == "SSpec":
        s += "INVARIANT PrintHist\n"
    return s


class DropAddon:
    """Scripted addon: drops the message when armed; remembers the message object it saw."""

    def __init__(self):
        self.drop_next = False
        self.seen = None
        self.copy = None

    def handle_lludp_message(self, session, region, message):
        self.seen = message
        if self.drop_next == "take":
            # own the message and send the copy on at once; the proxy tail drops the queued original
            self.drop_next = False
            self.copy = message.take()
            region.circuit.send(self.copy)
            return None
        if self.drop_next == "claim":
            # claim the message by a truthy return alone (the common "return True to block" idiom)
            self.drop_next = False
            return True
        if self.drop_next == "droptake":
            # drop the original first, then send a copy made from the (now finalized) original
            self.drop_next = False
            region.circuit.drop_message(message)
            self.copy = message.take()
            region.circuit.send(self.copy)
            return True
        if self.drop_next == "fwdtake":
            # send the original on, then a copy of it (what addon_examples/message_mirror.py does)
            self.drop_next = False
            region.circuit.send(message)
            self.copy = message.take()
            region.circuit.send(self.copy)
            return True
        if self.drop_next:
            self.drop_next = False
            region.circuit.drop_message(message)
            return True
        return None


_WINDOW = None     # tracker window of the configuration being replayed (None = the code's default 10000)
_UNIT = 1.0        # seconds per model clock unit: Circuit.resend_every is configured to Interval (3) units
_TRIES = 10        # retry budget of the configuration being replayed (ReliableResendInfo.tries_left, default 10)


class Impl:
    def __init__(self):
        from . import proxyenv
        self.pe = proxyenv
        self.addon = DropAddon()
        self.env = proxyenv.ProxyEnv(addons=[self.addon], tracker_window=_WINDOW)
        self.env.protocol.resend_task.cancel()
        self.env.circuit.resend_every = 3 * _UNIT
        self.futs = {}
        self.loop = asyncio.get_event_loop_policy().get_event_loop()

    def close(self):
        self.env.close()

    def step(self, act):
        from hippolyzer.lib.base.network.transport import Direction
        from hippolyzer.lib.base.message.message import Block, Message
        env, pe = self.env, self.pe
        exc = None
        flags = None
        if act["n"] == "Send":
            d = Direction.OUT if act["d"] == "OUT" else Direction.IN
            if act["kind"] == "msg":
                m = pe.ping(d, act["k"], reliable=act["rel"], acks=act["a1"], resent=act["resend"])
            else:
                m = pe.packet_ack(d, act["k"], act["a2"], acks=act["a1"], resent=act["resend"])
            self.addon.drop_next = {"drop": True, "take": "take", "droptake": "droptake", "fwdtake": "fwdtake", "claim": "claim"}.get(act["disp"], False)
            self.addon.seen = None
            self.addon.copy = None
            exc = env.deliver(m)
            self.addon.drop_next = False
            cp = self.addon.copy
            if cp is not None and act["rel"]:
                # the proxy now owns a reliable packet: its completion signal is the resend table's future
                info = env.circuit.unacked_reliable.get((d, cp.packet_id))
                if info is not None:
                    info.tries_left = _TRIES
                    self.futs[(act["d"], cp.packet_id)] = info.completed
            seen = self.addon.seen
            if seen is not None:
                flags = {"finalized": bool(seen.finalized), "dropped": bool(seen.dropped)}
        elif act["n"] == "Ping":
            from hippolyzer.lib.base.message.message import Block as _B, Message as _M
            d = Direction.OUT if act["d"] == "OUT" else Direction.IN
            m = _M("StartPingCheck", _B("PingID", PingID=3, OldestUnacked=act["oldest"]), packet_id=act["k"], direction=d)
            self.addon.seen = None
            exc = env.deliver(m)
        elif act["n"] == "Inject":
            d = Direction.OUT if act["d"] == "OUT" else Direction.IN
            m = Message("CompletePingCheck", Block("PingID", PingID=7), direction=d)
            try:
                if act["rel"]:
                    fut = env.circuit.send_reliable(m)
                    info = env.circuit.unacked_reliable.get((d, m.packet_id))
                    if info is not None:
                        info.tries_left = _TRIES
                    self.futs[(act["d"], m.packet_id)] = fut
                else:
                    env.circuit.send(m)
            except Exception as e:  # noqa
                exc = type(e).__name__ + ": " + str(e)[:100]
        else:
            env.clock.advance(float(act["dt"]) * _UNIT)
            try:
                env.circuit.resend_unacked()
            except Exception as e:  # noqa
                exc = type(e).__name__ + ": " + str(e)[:100]
        self.pe.pump(self.loop, 2)
        out = env.emitted()
        pend, done = [], []
        for (d, w), f in sorted(self.futs.items()):
            if not f.done():
                pend.append([d, w])
            elif f.cancelled():
                done.append([d, w, "cancelled"])
            elif f.exception() is not None:
                done.append([d, w, "failed" if isinstance(f.exception(), TimeoutError) else "exc"])
            else:
                done.append([d, w, "acked"])
        return {"exc": exc, "out": out, "pending": pend, "done": done, "flags": flags}


def _norm_out(recs, sort):
    res = []
    for r in recs:
        name = {"PacketAck": "pa", "StartPingCheck": "spc", "CompletePingCheck": "msg"}.get(r["name"], r["name"])
        res.append([r["dir"], r["id"], name, bool(r["rel"]), bool(r["resent"]), list(r["acks"]), list(r["pa"]),
                    r.get("oldest", 0), bool(r.get("anyid", False))])
    return sorted(res) if sort else res


def _diff(act, obs, got):
    bad = []
    if got["exc"]:
        bad.append(("exception escaped", got["exc"]))
    exp = _norm_out(obs["out"], act["n"] == "Tick")
    have = _norm_out(got["out"], act["n"] == "Tick")
    if len(exp) != len(have):
        bad.append(("datagrams", exp, have))
    else:
        for e, h in zip(exp, have):
            if e[8]:          # packet ID left to the proxy
                h = list(h)
                h[1], h[8] = e[1], True
            if e != h:
                bad.append(("datagram", e, h))
    for r in got["out"]:
        if r["ackflag"] != bool(r["acks"]):
            bad.append(("ACK flag inconsistent with appended acks", r))
    ep = sorted([p["d"], p["w"]] for p in obs["pending"])
    if ep != got["pending"]:
        bad.append(("pending futures", ep, got["pending"]))
    ed = sorted([p["d"], p["w"], p["how"]] for p in obs["done"])
    if ed != got["done"]:
        bad.append(("completed futures", ed, got["done"]))
    if act["n"] == "Send" and got["flags"] is not None:
        want = {"finalized": act["disp"] != "claim", "dropped": act["disp"] in ("drop", "take", "droptake")}
        if got["flags"] != want:
            bad.append(("message flags", want, got["flags"]))
    return bad


_G = None


def _replay_chunk(edge_ids):
    g = _G
    loop = asyncio.new_event_loop()
    asyncio.set_event_loop(loop)
    res = []
    for item in edge_ids:
        pre = []
        if isinstance(item, tuple):     # (self-loop edge, following edge)
            pre, ei = [g.edges[item[0]]], item[1]
        else:
            ei = item
        e = g.edges[ei]
        impl = Impl()
        try:
            hist = []
            for pe_ in g.path_to(pre[0]["_s"] if pre else e["_s"]) + pre:
                impl.step(pe_["act"])
                hist.append(pe_["act"])
            got = impl.step(e["act"])
            hist.append(e["act"])
            bad = _diff(e["act"], e["obs"], got)
            if bad:
                res.append({"history": hist, "mismatches": bad[:4], "expected": e["obs"]})
        finally:
            impl.close()
    loop.close()
    return res


def _features(hist, m):
    last = hist[-1]
    f = {"kind": "b1", "what": m[0], "act": last["n"]}
    if last["n"] == "Send":
        f.update({"msgkind": last["kind"], "disp": last["disp"],
                  "a1": len(last["a1"]), "a2": len(last["a2"])})
    return f


_B = None


def _replay_behaviours(idx):
    loop = asyncio.new_event_loop()
    asyncio.set_event_loop(loop)
    res = []
    for bi in idx:
        beh = _B[bi]
        impl = Impl()
        try:
            hist = []
            for stp in beh:
                got = impl.step(stp["act"])
                hist.append(stp["act"])
                bad = _diff(stp["act"], stp["obs"], got)
                if bad:
                    res.append({"history": list(hist), "mismatches": bad[:4], "expected": stp["obs"]})
                    break     # after a divergence the implementation state is no longer the model's
        finally:
            impl.close()
    loop.close()
    return res


def _report(chk, label, results):
    for bads in results:
        for b in bads:
            m = b["mismatches"][0]
            chk.violation("B1 %s: %s differs from ProxiedCircuit specification" % (label, m[0]),
                          _features(b["history"], m), b)


_PRE = {}


def _sim_tlc(chk, consts, label, num, sample):
    cfgp = os.path.join(chk.scratch, "sim-%s.cfg" % label)
    with open(cfgp, "w") as f:
        f.write(_cfg(consts, spec="SSpec", sample=sample))
    return common.run_tlc(os.path.join(SPECS, "ProxiedCircuit_MBT.tla"), cfgp, workers=1, scratch=chk.scratch,
                          extra=["-simulate", "num=%d" % num, "-depth", str(consts["Depth"]), "-seed", str(chk.seed + 17)])


def _export_tlc(chk, consts, label):
    cfgp = os.path.join(chk.scratch, "mbt-%s.cfg" % label)
    with open(cfgp, "w") as f:
        f.write(_cfg(consts))
    return common.run_tlc(os.path.join(SPECS, "ProxiedCircuit_MBT.tla"), cfgp, workers=1, scratch=chk.scratch, heap="8g")


def _prefetch(chk, plan):
    """The TLC runs of a tier (single-worker exports and simulations) are independent of each other and of the
    implementation: start them together, replay in plan order."""
    import concurrent.futures as cf
    ex = cf.ThreadPoolExecutor(max_workers=min(len(plan), max(2, common.NCPU // 2)))
    for item in plan:
        if item[0] == "sim":
            _, consts, label, num, sample = item
            _PRE[label] = ex.submit(_sim_tlc, chk, consts, label, num, sample)
        else:
            _PRE[item[2]] = ex.submit(_export_tlc, chk, item[1], item[2])
    ex.shutdown(wait=False)


def _b1_sim(chk: Check, consts, label, num, sample):
    """Sampled deep behaviours (TLC -simulate), each replayed step by step."""
    global _B, _WINDOW, _UNIT, _TRIES
    _WINDOW = consts.get("W") or None
    _UNIT = consts.get("Unit", 1.0)
    _TRIES = consts["Tries"]
    res = _PRE.pop(label).result() if label in _PRE else _sim_tlc(chk, consts, label, num, sample)
    m = __import__("re").search(r"The number of states generated: (\d+)", res.out)
    if res.violated or res.errors or not m:
        chk.require_model_ok(res, "ProxiedCircuit simulate " + label)
        return
    res.generated = res.distinct = int(m.group(1))
    chk.add_tlc(res, "ProxiedCircuit simulate " + label)
    _B = [r["behaviour"] for r in res.printed() if "behaviour" in r]
    if not _B:
        raise common.MachineryError("simulation printed no behaviours")
    results = common.parallel_map(_replay_behaviours, common.chunked(list(range(len(_B))), common.NCPU * 4))
    steps = sum(len(b) for b in _B)
    chk.count(steps)
    chk.cov["traces_validated_against_impl"] += len(_B)
    for i, b in enumerate(_B):
        chk.nontrivial((label, common.skey([s["act"] for s in b])))
    _report(chk, label, results)
    b = _B[len(_B) // 2]
    chk.sample({"binding": "B1 sampled behaviour " + label, "acts": [s["act"] for s in b][:9]})


def _b1(chk: Check, consts, label, pairs=None):
    global _G, _WINDOW, _UNIT, _TRIES
    _WINDOW = consts.get("W") or None
    _UNIT = consts.get("Unit", 1.0)
    _TRIES = consts["Tries"]
    if label in _PRE:
        res = _PRE.pop(label).result()
        if not res.ok:
            raise common.MachineryError("ProxiedCircuit_MBT %s export failed:\n%s" % (label, res.out[-3000:]))
        chk.add_tlc(res, label + " (export)")
        recs = res.printed()
    else:
        recs = common.export_records(chk, "ProxiedCircuit_MBT", _cfg(consts), label)
    # the export run also checked every invariant on every state it generated
    chk.cov["tlc_runs"][-1]["invariants"] = INVS
    g = Graph(recs)
    _G = g
    ids = g.reachable_edges() + g.merge_pairs(pairs or (12000 if chk.tier == 'quick' else 72000))
    results = common.parallel_map(_replay_chunk, common.chunked(ids, common.NCPU * 8))
    chk.count(len(ids))
    chk.cov["traces_validated_against_impl"] += len(ids)
    for e in g.edges:
        a = e["act"]
        if a["n"] != "Send" or a["a1"] or a["a2"] or a["disp"] != "fwd":
            chk.nontrivial((label, e["_s"], common.skey(a)))
    _report(chk, label, results)
    pick = [e for e in g.edges if e["act"]["n"] == "Send" and e["act"]["a1"] and e["obs"]["out"]]
    if pick:
        e = pick[len(pick) // 2]
        chk.sample({"binding": "B1 edge replay " + label,
                    "path": [p["act"] for p in g.path_to(e["_s"])] + [e["act"]], "expected": e["obs"]})
    return len(ids)


def run(chk: Check):
    chk.cov["rule"] = ("every edge of the bounded ProxiedCircuit model (all interleavings of endpoint packets in both directions with "
                       "appended/PacketAck acks, forward/drop disposition, proxy injections, clock ticks) replayed through the real "
                       "InterceptingLLUDPProxyProtocol.handle_proxied_packet + ProxiedCircuit with emitted datagrams, future states and "
                       "message flags compared; non-trivial = edges carrying acks, drops, injections or ticks")
    chk.assumptions += ["with a small tracker window (configs evict-*) the environment only sends/acknowledges IDs above the newest aged-out injection (C04's horizon)", "no packet-ID wrap-around", "endpoint packet IDs start at 1 (viewer, simulator) or at 0 (hippolyzer's own client endpoint: configs from0-*)",
                        "a dropped standalone PacketAck may lose its Packets blocks (the property only claims piggy-backed acks of a dropped packet)",
                        "the packet ID of the PacketAck that carries a dropped packet's appended acks is the proxy's choice",
                        "virtual clock replaces datetime in hippolyzer.lib.base.message.circuit; resend_unacked is called after every tick",
                        "the retry budget (ReliableResendInfo.tries_left) is the code's default 10 in the budget* configurations and set to 2 or 3 on each proxy packet in others, so that exhaustion is reached within the depth bound", "the configured cadence Circuit.resend_every is 3 model clock units; a unit is 1 s (the default 3.0 s), 0.5 s or 0.25 s depending on the configuration"]
    if chk.tier == "quick":
        plan = [
            ("b1", dict(MaxEp=2, MaxInj=2, MaxAcks=2, Tries=2, Reorder=1, Depth=4, Unit=0.5), "exhaustive-d4", None),
            ("b1", dict(MaxEp=1, MaxInj=1, MaxAcks=1, Tries=10, Reorder=0, Depth=13, EpOn=False), "budget10-d13", 3000),
            ("b1", dict(MinEp=0, MaxEp=1, MaxInj=1, MaxAcks=1, Tries=10, Reorder=1, Depth=3), "from0-d3", 2000),
            ("b1", dict(MaxEp=2, MaxInj=3, MaxAcks=1, Tries=10, Reorder=0, Depth=3, Disps="DispsTakes"), "takes-d3", 2000),
            ("sim", dict(MaxEp=3, MaxInj=3, MaxAcks=2, Tries=3, Reorder=1, Depth=9, Disps="DispsAll"), "simulate-d9", 150, 12),
            ("sim", dict(MinEp=0, MaxEp=2, MaxInj=3, MaxAcks=2, Tries=10, Reorder=1, Depth=9), "simulate-from0-d9", 80, 12),
            ("sim", dict(MaxEp=1, MaxInj=1, MaxAcks=1, Tries=10, Reorder=0, Depth=14, Unit=0.25), "budget-d14", 300, 3),
            ("sim", dict(MaxEp=3, MaxInj=4, MaxAcks=1, Tries=10, Reorder=1, Depth=10, W=1), "evict-W1-d10", 150, 10),
        ]
    else:
        # depth 5 with the quick constants is ~10x the depth-4 graph: the exhaustive part stays at depth 4 with
        # many more merge pairs, depth is explored by the sampled behaviours
        plan = [
            ("b1", dict(MaxEp=2, MaxInj=2, MaxAcks=2, Tries=2, Reorder=1, Depth=4, Unit=0.5), "exhaustive-d4", 60000),
            ("b1", dict(MaxEp=1, MaxInj=2, MaxAcks=1, Tries=10, Reorder=0, Depth=14, EpOn=False, Unit=0.5), "budget10-d14", 20000),
            ("b1", dict(MinEp=0, MaxEp=1, MaxInj=2, MaxAcks=1, Tries=10, Reorder=1, Depth=4), "from0-d4", 20000),
            ("b1", dict(MaxEp=2, MaxInj=3, MaxAcks=1, Tries=10, Reorder=0, Depth=4, Disps="DispsTakes"), "takes-d4", 20000),
            ("sim", dict(MaxEp=3, MaxInj=3, MaxAcks=2, Tries=3, Reorder=1, Depth=10, Disps="DispsAll"), "simulate-d10", 700, 12),
            ("sim", dict(MinEp=0, MaxEp=2, MaxInj=3, MaxAcks=2, Tries=10, Reorder=1, Depth=10), "simulate-from0-d10", 500, 12),
            ("sim", dict(MaxEp=1, MaxInj=1, MaxAcks=1, Tries=10, Reorder=0, Depth=16, Unit=0.25), "budget-d16", 1500, 3),
            ("sim", dict(MaxEp=3, MaxInj=4, MaxAcks=1, Tries=10, Reorder=1, Depth=11, W=1), "evict-W1-d11", 600, 10),
            ("sim", dict(MaxEp=3, MaxInj=5, MaxAcks=1, Tries=10, Reorder=1, Depth=12, W=2), "evict-W2-d12", 600, 10),
        ]
    _prefetch(chk, plan)
    for item in plan:
        if item[0] == "b1":
            _b1(chk, item[1], item[2], pairs=item[3])
        else:
            _b1_sim(chk, *item[1:])
    chk.cov["exhaustive"] = True
