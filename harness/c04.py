"""C04 — packet-ID translation around injected packets (InjectionTracker.tla)."""
from __future__ import annotations

import os

from . import common
from .common import Check, Graph, run_tlc, impl_call, SPECS

CONSTS = "W = %(W)d MinEp = %(MinEp)d MaxEp = %(MaxEp)d MaxInj = %(MaxInj)d Reorder = %(Reorder)d BuggyInverse = FALSE Depth = %(Depth)d"
INVS = ["AlgoIsIdeal", "Stable", "OrderPreserving", "AvoidsInjected", "Inverse", "InverseAll",
        "InjectedKnown", "BaseIsHighest"]


def _cfg(path, spec, consts, invs=(), props=()):
    with open(path, "w") as f:
        f.write("SPECIFICATION %s\nCONSTANTS %s\nCONSTRAINT Bound\n" % (spec, CONSTS % consts))
        for i in invs:
            f.write("INVARIANT %s\n" % i)
        for p in props:
            f.write("PROPERTY %s\n" % p)


def _tracker(W):
    from hippolyzer.lib.proxy.circuit import InjectionTracker
    return InjectionTracker(0, maxlen=W)


def _apply(tr, act):
    """Perform one abstract action on the real tracker the way prepare_message does."""
    if isinstance(tr, CircuitCarrier):
        return tr.apply(act)
    if act["n"] == "Send":
        st, w = impl_call(tr.get_effective_id, act["k"])
        if st == "ok":
            impl_call(tr.track_seen, w)
        return st, w
    return impl_call(tr.gen_injectable_id)


class CircuitCarrier:
    """The same two actions through the tracker's call site: ProxiedCircuit.prepare_message on a forwarded
    endpoint packet (Send) and on a message of the proxy's own (Inject), direction OUT.  Queries go to the
    circuit's tracker.  This removes the assumption about how prepare_message uses the tracker."""

    def __init__(self, W):
        from hippolyzer.lib.proxy.circuit import ProxiedCircuit, InjectionTracker
        self.c = ProxiedCircuit(("127.0.0.1", 1), ("127.0.0.1", 2), None)
        self.c.out_injections = InjectionTracker(0, maxlen=W)
        self.tr = self.c.out_injections

    def __getattr__(self, name):          # get_effective_id / get_original_id / was_injected / track_seen
        return getattr(self.tr, name)

    def apply(self, act):
        from hippolyzer.lib.base.message.message import Block, Message
        from hippolyzer.lib.base.network.transport import Direction
        from hippolyzer.lib.base.message.msgtypes import PacketFlags
        m = Message("CompletePingCheck", Block("PingID", PingID=1), direction=Direction.OUT,
                    packet_id=act["k"] if act["n"] == "Send" else None)
        if act["n"] == "Send" and act["k"] % 3 == 0:
            # every third endpoint packet is a PacketAck of its own (for a packet of the other direction that the
            # proxy did not inject): it occupies a wire ID like any other forwarded packet
            m = Message("PacketAck", Block("Packets", ID=1), direction=Direction.OUT, packet_id=act["k"])
        if act["n"] == "Send" and act["k"] % 2:
            # the translation does not depend on the packet's flags: odd IDs travel as retransmissions
            # (also when it is the proxy's first sight of them: the original was lost before the proxy)
            m.send_flags |= PacketFlags.RESENT
        st, r = impl_call(self.c.prepare_message, m)
        if st != "ok":
            return st, r
        if act["n"] == "Send":
            self.frontier = max(self.frontier, act["k"])
        return "ok", m.packet_id


def _orders(ws):
    """Ack lists are in arrival order, not ID order: ascending, descending, both rotated by one (first and last
    on one side of an injection, the middle on the other), and interleaved from both ends."""
    asc = sorted(ws)
    desc = asc[::-1]
    inter = [x for pair in zip(asc, desc) for x in pair][:len(asc)]
    out = []
    for o in (asc, desc, asc[1:] + asc[:1], desc[1:] + desc[:1], inter):
        if o and o not in out:
            out.append(o)
    return out


def _ack_batches(self, obs):
    """Wire IDs acknowledged by the far side arrive in one message of the opposite direction, as appended acks
    or as PacketAck blocks, in any order: each is translated back on its own (injected ones are withheld)."""
    from hippolyzer.lib.base.message.message import Block, Message
    from hippolyzer.lib.base.network.transport import Direction
    orig = {w: k for w, k in obs["orig"]}
    injected = {w for w, b in obs["inj"] if b}
    ws = sorted(set(orig) | injected)
    bad, n = [], 0
    for order in _orders(ws):
        want = [orig[w] for w in order if w in orig]
        for form in ("appended", "blocks"):
            self.in_seq += 1
            if form == "appended":
                m = Message("CompletePingCheck", Block("PingID", PingID=1), direction=Direction.IN,
                            packet_id=self.in_seq, acks=tuple(order))
            else:
                m = Message("PacketAck", *[Block("Packets", ID=w) for w in order], direction=Direction.IN,
                            packet_id=self.in_seq)
            st, r = impl_call(self.c.prepare_message, m)
            n += 1
            if st != "ok":
                bad.append(("ack batch (%s) raised" % form, order, want, r))
                continue
            got = list(m.acks) if form == "appended" else [b["ID"] for b in m["Packets"]]
            if got != want:
                bad.append(("ack batch (%s)" % form, order, want, got))
    return n, bad


def _pings(self, obs):
    """The endpoint's StartPingCheck names its oldest unacknowledged packet ID (any ID it has sent, or the next one
    it will use): the proxy forwards it in wire numbering, i.e. translated like that packet itself (the carrier has
    no unacknowledged packets of its own).  Each ping is a packet of the endpoint with the next ID."""
    from hippolyzer.lib.base.message.message import Block, Message
    from hippolyzer.lib.base.network.transport import Direction
    bad, n = [], 0
    nxt = self.frontier
    for k, w in sorted(obs["eff"]):
        nxt += 1
        m = Message("StartPingCheck", Block("PingID", PingID=1, OldestUnacked=k), direction=Direction.OUT, packet_id=nxt)
        st, r = impl_call(self.c.prepare_message, m)
        n += 1
        if st != "ok":
            bad.append(("StartPingCheck raised", k, w, r))
        elif m["PingID"]["OldestUnacked"] != w:
            bad.append(("StartPingCheck.OldestUnacked", k, w, m["PingID"]["OldestUnacked"]))
    return n, bad


CircuitCarrier.ack_batches = _ack_batches
CircuitCarrier.pings = _pings
CircuitCarrier.in_seq = 0
CircuitCarrier.frontier = 0

_CARRIER = "tracker"


def _new(W):
    return CircuitCarrier(W) if _CARRIER == "circuit" else _tracker(W)


def _compare(tr, obs):
    """Query the real tracker for every ID the spec constrains in this state."""
    bad = []
    n = 0
    for k, w in obs["eff"]:
        n += 1
        r = impl_call(tr.get_effective_id, k)
        if r != ("ok", w):
            bad.append(("get_effective_id", k, w, r))
    for w, k in obs["orig"]:
        n += 1
        r = impl_call(tr.get_original_id, w)
        if r != ("ok", k):
            bad.append(("get_original_id", w, k, r))
    for w, b in obs["inj"]:
        n += 1
        r = impl_call(tr.was_injected, w)
        if r != ("ok", b):
            bad.append(("was_injected", w, b, r))
    if isinstance(tr, CircuitCarrier):
        n2, b2 = tr.ack_batches(obs)
        n3, b3 = tr.pings(obs)
        n += n2 + n3
        bad += b2 + b3
    return n, bad


_G = None
_W = None


def _replay_chunk(edge_ids):
    g, W = _G, _W
    out = []
    queries = 0
    for item in edge_ids:
        # item = edge index, or (self-loop edge, following edge): the loop is replayed first
        pre = []
        if isinstance(item, tuple):
            pre, ei = [g.edges[item[0]]], item[1]
        else:
            ei = item
        e = g.edges[ei]
        tr = _new(W)
        hist = []
        for pe in g.path_to(pre[0]["_s"] if pre else e["_s"]) + pre:
            _apply(tr, pe["act"])
            hist.append(pe["act"])
        st, ret = _apply(tr, e["act"])
        hist.append(e["act"])
        bad = []
        if st != "ok":
            bad.append(("action raised", e["act"], None, ret))
        elif e["act"]["n"] == "Inject":
            new = sorted(set(e["dst"]["allInj"]) - set(e["src"]["allInj"]))
            if [ret] != new:
                bad.append(("gen_injectable_id", None, new, ret))
        else:
            exp = [w for k, w in e["dst"]["fwd"] if k == e["act"]["k"]]
            if [ret] != exp:
                bad.append(("send: get_effective_id", e["act"]["k"], exp, ret))
        n, b2 = _compare(tr, e["obs"])
        queries += n
        bad += b2
        if bad:
            out.append({"history": hist, "mismatches": bad[:6], "spec_state": e["dst"]})
    return queries, out


def _b1(chk: Check, consts, label, carriers=("tracker", "circuit")):
    global _G, _W, _CARRIER
    consts = dict({"MinEp": 1}, **consts)
    cfg = os.path.join(chk.scratch, "mc-%s.cfg" % label)
    _cfg(cfg, "SpecT", consts, INVS, ["InjectFresh"])
    res = run_tlc(os.path.join(SPECS, "InjectionTracker_MC.tla"), cfg, workers="auto", scratch=chk.scratch)
    chk.require_model_ok(res, "InjectionTracker_MC " + label)
    cfg = os.path.join(chk.scratch, "mbt-%s.cfg" % label)
    _cfg(cfg, "MSpec", consts)
    res = run_tlc(os.path.join(SPECS, "InjectionTracker_MBT.tla"), cfg, workers=1, scratch=chk.scratch)
    if not res.ok:
        raise common.MachineryError("MBT export failed:\n" + res.out[-2000:])
    g = Graph(res.printed())
    _G, _W = g, consts["W"]
    ids = g.reachable_edges() + g.merge_pairs(40000 if chk.tier == 'quick' else 240000)
    results = []
    for carrier in carriers:
        _CARRIER = carrier
        rs = common.parallel_map(_replay_chunk, common.chunked(ids, common.NCPU * 4))
        for _, bads in rs:
            for b in bads:
                b["carrier"] = carrier
        results += rs
        chk.count(sum(r[0] for r in rs))
        chk.cov["traces_validated_against_impl"] += len(ids)
        chk.cov.setdefault("b1_edges_replayed", 0)
        chk.cov["b1_edges_replayed"] += len(ids)
    _CARRIER = "tracker"
    for e in g.edges:
        if e["src"] != e["dst"]:
            chk.nontrivial(("edge", label, e["_s"], common.skey(e["act"])))
    for _, bads in results:
        for b in bads:
            m = b["mismatches"][0]
            chk.violation("B1 %s (%s): %s differs from specification" % (label, b["carrier"], m[0]),
                          {"kind": "b1", "op": m[0], "carrier": b["carrier"], "history": b["history"]}, b)
    e = g.edges[min(len(g.edges) - 1, 1234)]
    chk.sample({"binding": "B1 edge replay", "path": [p["act"] for p in g.path_to(e["_s"])] + [e["act"]],
                "expected_observation": e["obs"]})


def _random_walks(chk: Check, n_walks, length, W, qn, first=1):
    """Drive the real tracker randomly; respect the environment assumption using only
    values the implementation itself returned (no oracle on this side)."""
    traces = []
    for t in range(n_walks):
        rng = chk.rng
        tr = CircuitCarrier(W) if t % 2 else _tracker(W)
        injected = []
        seen = {}  # endpoint id -> observed wire id
        frontier = first - 1
        evs = []
        p_inj = rng.choice([0.15, 0.3, 0.5, 0.7])
        for _ in range(length):
            horizon = injected[-W - 1] if len(injected) > W else 0
            if rng.random() < p_inj:
                st, r = _apply(tr, {"n": "Inject"})
                if st != "ok":
                    evs.append({"ev": "Inject", "id": -1})
                    break
                injected.append(r)
                evs.append({"ev": "Inject", "id": r})
            else:
                c = rng.random()
                if c < 0.6 or not seen:
                    k = frontier + 1 + (rng.randrange(0, 3) if c < 0.15 else 0)
                else:
                    # older ID: a resend, or a gap; only if provably above the horizon
                    k = max(first, frontier - rng.randrange(0, 6))
                    below = [kk for kk in seen if kk <= k]
                    if not below or seen[max(below)] <= horizon or (k not in seen and k - 1 not in seen):
                        k = frontier + 1
                if k == 0 and horizon > 0:
                    k = 1     # ID 0 is older than every injection: outside the claim once one has aged out
                st, w = _apply(tr, {"n": "Send", "k": k})
                if st != "ok":
                    evs.append({"ev": "Send", "k": k, "w": -1})
                    break
                seen.setdefault(k, w)
                frontier = max(frontier, k)
                evs.append({"ev": "Send", "k": k, "w": w})
            # pure queries around the frontier and at random places
            hi = max([frontier, first] + injected) + 2
            ks = {frontier + 1, frontier + 2} | {rng.randrange(first, hi + 1) for _ in range(qn)}
            ws = {hi, hi - 1} | {rng.randrange(first, hi + 1) for _ in range(qn)}

            def q(fn, x):
                s, r = impl_call(fn, x)
                return r if s == "ok" else -1
            evs.append({"ev": "Q",
                        "eff": [[k, q(tr.get_effective_id, k)] for k in sorted(ks)],
                        "orig": [[w, q(tr.get_original_id, w)] for w in sorted(ws) if w not in injected],
                        "inj": [[w, 1 if q(tr.was_injected, w) is True else 0] for w in sorted(ws)]})
        traces.append(evs)
    return traces


def _b2(chk: Check, n_walks, length, W, qn, label, first=1):
    traces = _random_walks(chk, n_walks, length, W, qn, first)
    cfg = ("SPECIFICATION TraceSpec\nCONSTANTS W = %d MinEp = %d MaxEp = 100000 MaxInj = 100000 Reorder = 100000 BuggyInverse = FALSE\n"
           "POSTCONDITION TraceAccepted\nCHECK_DEADLOCK FALSE\n" % (W, first))
    common.check_traces(chk, "InjectionTracker_Trace", cfg, traces, label)
    for i, t in enumerate(traces):
        if sum(1 for e in t if e["ev"] == "Inject") >= 2:
            chk.nontrivial(("walk", label, i))
    chk.sample({"binding": "B2 trace", "events": traces[0][:6]})


def run(chk: Check):
    chk.cov["rule"] = ("B1: every edge of the exhaustively enumerated bounded model (all interleavings of Send(k)/Inject) "
                       "replayed into a fresh real InjectionTracker with every constrained ID queried afterwards; "
                       "non-trivial = edges that change the abstract state. B2: random walks validated by TLC; "
                       "non-trivial = walks with >= 2 injections.")
    chk.assumptions += ["endpoint IDs stay within a window of the frontier and above aged-out injections (CanSend)",
                        "no packet-ID wrap-around (documented in the code)",
                        "carrier `tracker`: Send is performed as prepare_message does (get_effective_id then track_seen); carrier `circuit`: through ProxiedCircuit.prepare_message itself",
                        "endpoint IDs start at 1, or at 0 (configs from0-*: hippolyzer's own client endpoint numbers from 0)"]
    if chk.tier == "quick":
        _b1(chk, dict(W=2, MaxEp=6, MaxInj=5, Reorder=1, Depth=9), "W2d9")
        _b1(chk, dict(W=2, MinEp=0, MaxEp=4, MaxInj=4, Reorder=1, Depth=7), "from0-W2d7")
        _b2(chk, 64, 60, 3, 4, "W3")
        _b2(chk, 32, 60, 3, 4, "from0-W3", first=0)
        _b2(chk, 32, 120, 10000, 4, "W10000")
    else:
        _b1(chk, dict(W=2, MaxEp=7, MaxInj=6, Reorder=2, Depth=11), "W2d11")
        _b1(chk, dict(W=3, MaxEp=6, MaxInj=6, Reorder=1, Depth=11), "W3d11")
        _b1(chk, dict(W=1, MaxEp=6, MaxInj=6, Reorder=1, Depth=10), "W1d10")
        _b1(chk, dict(W=2, MinEp=0, MaxEp=6, MaxInj=6, Reorder=1, Depth=10), "from0-W2d10")
        _b2(chk, 240, 80, 3, 5, "from0-W3", first=0)
        _b2(chk, 480, 80, 3, 5, "W3")
        _b2(chk, 240, 80, 5, 5, "W5")
        _b2(chk, 160, 160, 10000, 4, "W10000")
    chk.cov["exhaustive"] = True
