"""Growth beyond the listed properties: TCP side of the SOCKS5 server (Socks5Tcp.tla).
Bound by B1: every edge of the byte-fed model replayed into the real SOCKS5Server.handle_connection
with a hand-fed asyncio.StreamReader, a recording writer and a fake datagram endpoint."""
from __future__ import annotations

import asyncio

from . import common
from .common import Check, Graph

INVS = ["AssocDieWithConnection", "AssocCounted", "WelcomeFirst", "NoReplyBeforeGreeting", "RepliesMatchAssociations"]


class _Writer:
    def __init__(self):
        self.data = bytearray()
        self.closed = False

    def get_extra_info(self, name, default=None):
        return ("127.0.0.1", 5555) if name == "peername" else default

    def write(self, b):
        if not self.closed:
            self.data += bytes(b)

    async def drain(self):
        return None

    def close(self):
        self.closed = True


class _Dgram:
    def __init__(self):
        self.closed = False

    def get_extra_info(self, name, default=None):
        return ("0.0.0.0", 4242) if name == "sockname" else default

    def sendto(self, data, addr=None):
        pass

    def close(self):
        self.closed = True


class Impl:
    def __init__(self):
        from hippolyzer.lib.proxy.socks_proxy import SOCKS5Server
        self.loop = asyncio.new_event_loop()
        asyncio.set_event_loop(self.loop)
        self.dgrams = []

        async def fake_endpoint(factory, local_addr=None, **kw):
            proto = factory()
            tr = _Dgram()
            self.dgrams.append(tr)
            proto.connection_made(tr)
            return tr, proto
        self.loop.create_datagram_endpoint = fake_endpoint
        self.reader = asyncio.StreamReader(loop=self.loop)
        self.writer = _Writer()
        self.server = SOCKS5Server()
        self.task = self.loop.create_task(self.server.handle_connection(self.reader, self.writer))
        self.pump()

    def pump(self):
        for _ in range(6):
            self.loop.run_until_complete(asyncio.sleep(0))

    def step(self, act):
        if act["n"] == "Feed":
            if not self.task.done():
                self.reader.feed_data(bytes([act["b"]]))
        else:
            if not self.task.done():
                self.reader.feed_eof()
        self.pump()
        # asyncio's stream server closes the transport when the handler task ends, also with an exception
        closed = self.writer.closed or self.task.done()
        alive = sum(1 for d in self.dgrams if not d.closed)
        return {"out": list(self.writer.data), "closed": closed, "assoc": alive}

    def close(self):
        if not self.task.done():
            self.task.cancel()
            self.pump()
        elif not self.task.cancelled():
            self.task.exception()      # retrieve, so asyncio does not complain
        self.loop.close()


_G = None


def _replay(edge_ids):
    g = _G
    res = []
    for ei in edge_ids:
        e = g.edges[ei]
        impl = Impl()
        try:
            hist = []
            for pe in g.path_to(e["_s"]):
                impl.step(pe["act"])
                hist.append(pe["act"])
            got = impl.step(e["act"])
            hist.append(e["act"])
            if got != e["obs"]:
                res.append({"history": hist, "expected": e["obs"], "observed": got,
                            "differs": sorted(k for k in got if got[k] != e["obs"].get(k))})
        finally:
            impl.close()
    return res


def section(chk: Check, max_cmds: int):
    global _G
    cfg = ("SPECIFICATION MSpec\nCONSTANTS MaxCmds = %d Greetings <- GreetingsDef Commands <- CommandsDef BoundAddr <- BoundAddrDef\n"
           "%sPROPERTY OutGrows\n" % (max_cmds, "".join("INVARIANT %s\n" % i for i in INVS)))
    recs = common.export_records(chk, "Socks5Tcp_MBT", cfg, "Socks5Tcp cmds<=%d" % max_cmds)
    chk.cov["tlc_runs"][-1]["invariants"] = INVS + ["OutGrows"]
    g = Graph(recs)
    _G = g
    ids = g.reachable_edges()
    results = common.parallel_map(_replay, common.chunked(ids, common.NCPU * 2))
    chk.count(len(ids))
    chk.cov["traces_validated_against_impl"] += len(ids)
    chk.cov["socks5tcp_edges"] = len(ids)
    for e in g.edges:
        if e["obs"]["out"] or e["obs"]["closed"]:
            chk.nontrivial(("socks5tcp", e["_d"]))
    for bads in results:
        for b in bads:
            chk.divergence("Socks5Tcp", "B1 socks5-tcp: %s differs from Socks5Tcp specification" % ",".join(b["differs"]),
                          {"kind": "b1-socks5tcp", "differs": b["differs"], "last": b["history"][-1]["n"]}, b)
    pick = [e for e in g.edges if e["obs"]["assoc"] == 1]
    if pick:
        e = pick[0]
        chk.sample({"binding": "B1 socks5-tcp", "stream": [a["act"].get("b", "EOF") for a in g.path_to(e["_s"])] + [e["act"].get("b", "EOF")],
                    "expected": e["obs"]})
