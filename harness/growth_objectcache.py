"""Growth beyond the listed properties: the reader of the viewer's object cache (ObjectCache.tla) and the avatar
name cache (NameCache.tla).

ObjectCache: TLC computes the bytes of index files / region files for abstract caches together with what a reader
must get out of them (B3 table: ParseFile / ParseIndex rows) and enumerates a bounded graph of viewers rewriting
their cache directories while a client calls is_valid_vocache_dir / ViewerObjectCache.from_path / read_region /
lookup_object_data / RegionViewerObjectCacheChain.for_region / lookup_object_data (B1: every edge + merge pairs
replayed through the real readers on files written to a scratch directory).

NameCache: B1 edge replay into a real ProxyNameCache fed through real MessageHandlers (UUIDNameReply messages,
GetDisplayNames flows), update() and lookup(); the client keeps the entry objects it was handed.
"""
from __future__ import annotations

import os
import shutil
import tempfile
import threading
import types

from . import common
from .common import Check, Graph

OC_INVS = ["CrcGuard", "ChainInViewerOrder", "ChainComplete", "LayoutLaws"]
OC_PROPS = ["ChainMatchesRequest", "LoadedOnlyWhenListed", "SnapshotsStay"]
OC_ACTIONS = ["ViewerWrites", "IsValid", "FromPath", "ReadRegion", "Lookup", "ForRegion", "ChainLookup", "ParseFile", "ParseIndex"]
NC_INVS = ["HeldExist", "Fallback"]
NC_PROPS = ["Permanent", "LegacyNeverErased", "UpdateFrame", "ReplyFrame", "ResponseFrame", "UnknownIsNone"]
NC_ACTIONS = ["Update", "NameReply", "DisplayNames", "Lookup"]
NOVAL = "-"

_G = None          # graph being replayed (shared with forked workers)
_TABLES = None     # ObjectCache: bytes of everything a viewer may write
_SCRATCH = None


# ----------------------------------------------------------------------------------------
# ObjectCache
# ----------------------------------------------------------------------------------------

def _expand(pieces) -> bytes:
    return b"".join(bytes(p["b"]) * p["rep"] for p in pieces)


def _handle(h) -> int:
    # "U64 handle; // ORed together global X and Y": grid coordinate * 256 metres, x in the high half
    return ((h[0] * 256) << 32) | (h[1] * 256)


def _u32(bs) -> int:
    return int.from_bytes(bytes(bs), "little")


class _DataNames:
    def __init__(self, tables):
        self.by_bytes = {bytes(v): k for k, v in tables["data"].items()}
        self.by_bytes[_expand(tables["max"])] = "max"

    def name(self, data):
        if data is None:
            return "none"
        if not isinstance(data, (bytes, bytearray, memoryview)):
            return "?" + type(data).__name__
        return self.by_bytes.get(bytes(data), "?" + bytes(data)[:8].hex() + ":%d" % len(data))


def _region_view(names, region):
    return {"cid": list(region.cache_id.bytes),
            "ents": sorted([e.local_id, e.crc, names.name(e.data)] for e in region.entries.values())}


def _exp_region(r):
    return {"cid": list(r["cid"]), "ents": sorted([e["lid"], _u32(e["crc"]), e["data"]] for e in r["ents"])}


_ROOTS = {}


def _root():
    """One directory tree per worker process (removing directories is slow, removing files is not): viewer<d>/objectcache
    for the graph, table/objectcache for the format table.  The section removes all of them at the end."""
    import pathlib
    pid = os.getpid()
    if pid not in _ROOTS:
        r = pathlib.Path(tempfile.mkdtemp(prefix="w%d-" % pid, dir=_SCRATCH))
        for sub in ("viewer1", "viewer2", "viewer3", "table"):
            os.makedirs(r / sub / "objectcache")
        _ROOTS[pid] = r
    return _ROOTS[pid]


def _empty(path):
    for n in os.listdir(path):
        os.unlink(os.path.join(path, n))


class OcImpl:
    def __init__(self):
        from hippolyzer.lib.proxy import vocache
        self.mod = vocache
        self.root = _root()
        self.names = _DataNames(_TABLES)
        self.paths = {d: self.root / ("viewer%d" % d) for d in (1, 2, 3)}
        for d in self.paths:
            _empty(self.paths[d] / "objectcache")
        self.ndirs = 0
        self.saved = vocache.iter_viewer_cache_dirs
        vocache.iter_viewer_cache_dirs = lambda: [self.paths[d] for d in range(1, self.ndirs + 1)]
        self.vc = None
        self.rc = None
        self.chain = vocache.RegionViewerObjectCacheChain([])

    def close(self):
        self.mod.iter_viewer_cache_dirs = self.saved
        for d in self.paths:
            _empty(self.paths[d] / "objectcache")

    def write_dir(self, d, v):
        oc = self.paths[d] / "objectcache"
        _empty(oc)
        dv = _TABLES["dirs"][v - 1]
        if dv["ix"]:
            (oc / "object.cache").write_bytes(bytes(_TABLES["idx"][dv["ix"] - 1]))
        if dv["fl"]:
            (oc / dv["name"]).write_bytes(_expand(_TABLES["files"][dv["fl"] - 1]))

    def views(self):
        res = {}
        if self.vc is None:
            res["vc"] = {"k": "none"}
        else:
            res["vc"] = {"k": "ok", "regs": sorted([h, t] for h, t in self.vc.regions.items())}
        res["rc"] = {"k": "none"} if self.rc is None else dict(_region_view(self.names, self.rc), k="ok")
        res["chain"] = [_region_view(self.names, r) for r in self.chain.region_caches]
        return res

    def step(self, act, ndirs):
        from hippolyzer.lib.base.datatypes import UUID
        self.ndirs = ndirs
        n = act["n"]
        o = {}
        if n == "ViewerWrites":
            self.write_dir(act["d"], act["v"])
            o = {"ev": "write"}
        elif n == "IsValid":
            st, r = common.impl_call(self.mod.is_valid_vocache_dir, self.paths[act["d"]])
            o = {"valid": r} if st == "ok" else {"raised": r}
        elif n == "FromPath":
            st, r = common.impl_call(self.mod.ViewerObjectCache.from_path, self.paths[act["d"]] / "objectcache")
            if st != "ok":
                o = {"raised": r}
            else:
                self.vc = r
                o = {"k": "none" if r is None else "ok"}
        elif n == "ReadRegion":
            st, r = common.impl_call(lambda: self.vc.read_region(_handle(act["h"])))
            if st != "ok":
                o = {"raised": r}
            else:
                self.rc = r
                o = {"k": "none" if r is None else "ok"}
        elif n == "Lookup":
            st, r = common.impl_call(lambda: self.rc.lookup_object_data(act["lid"], _u32(act["crc"])))
            o = {"ans": self.names.name(r)} if st == "ok" else {"raised": r}
        elif n == "ForRegion":
            cache_dir = None if act["which"] == 0 else str(self.paths[act["which"]])
            st, r = common.impl_call(self.mod.RegionViewerObjectCacheChain.for_region,
                                     _handle(act["h"]), UUID(bytes=bytes(act["cid"])), cache_dir)
            if st != "ok":
                o = {"raised": r}
            else:
                self.chain = r
                o = {"len": len(r.region_caches)}
        elif n == "ChainLookup":
            st, r = common.impl_call(lambda: self.chain.lookup_object_data(act["lid"], _u32(act["crc"])))
            o = {"ans": self.names.name(r)} if st == "ok" else {"raised": r}
        else:
            raise common.MachineryError("unknown ObjectCache action %r" % n)
        st, v = common.impl_call(self.views)
        return {"o": o, "s": v if st == "ok" else {"raised": v}}


def _oc_expected(e):
    n = e["act"]["n"]
    o = dict(e["obs"]["o"])
    if n == "FromPath":
        o = {"k": o["k"]}
    s = e["obs"]["s"]
    exp_s = {
        "vc": {"k": "none"} if s["vc"]["k"] == "none" else
              {"k": "ok", "regs": sorted([_handle(r["h"]), r["t"]] for r in s["vc"]["regs"])},
        "rc": {"k": "none"} if s["rc"]["k"] == "none" else dict(_exp_region(s["rc"]), k="ok"),
        "chain": [_exp_region(r) for r in s["chain"]],
    }
    return {"o": o, "s": exp_s}


def _clip_act(a):
    if "bytes" in a:
        a = dict(a)
        a["bytes"] = [p if p["rep"] == 1 else {"b": p["b"], "rep": p["rep"]} for p in a["bytes"]]
    return a


def _oc_replay(items):
    g = _G
    ndirs = len(g.states[g.inits[0]]["dirs"])
    res = []
    for item in items:
        pre = []
        if isinstance(item, tuple):
            pre, ei = [g.edges[item[0]]], item[1]
        else:
            ei = item
        e = g.edges[ei]
        impl = OcImpl()
        try:
            hist = []
            for pe in g.path_to(pre[0]["_s"] if pre else e["_s"]) + pre:
                impl.step(pe["act"], ndirs)
                hist.append(pe["act"])
            got = impl.step(e["act"], ndirs)
            hist.append(e["act"])
            exp = _oc_expected(e)
            if got != exp:
                res.append({"history": hist, "expected": exp, "observed": got,
                            "differs": sorted(k for k in exp if exp[k] != got.get(k))})
        finally:
            impl.close()
    return res


def _oc_table(rows):
    """B3: one row = one file of its own, parsed by the real reader, then every lookup."""
    from hippolyzer.lib.proxy import vocache
    names = _DataNames(_TABLES)
    lids, crcs = _TABLES["lids"], [_u32(c) for c in _TABLES["crcs"]]
    root = _root() / "table"
    res = []
    try:
        for r in rows:
            act, exp = r["act"], r["obs"]["o"]
            if act["n"] == "ParseFile":
                path = root / "objectcache" / "objects_1_2.slc"
                path.write_bytes(_expand(act["bytes"]))
                st, reg = common.impl_call(vocache.RegionViewerObjectCache.from_file, path)
                os.unlink(path)
                want = dict(_exp_region(exp), ans=[list(x) for x in exp["ans"]])
                if st != "ok":
                    got = {"raised": reg}
                elif reg is None:
                    got = {"none": True}
                else:
                    st2, ans = common.impl_call(
                        lambda: [[names.name(reg.lookup_object_data(l, c)) for c in crcs] for l in lids])
                    st3, view = common.impl_call(_region_view, names, reg)
                    got = dict(view, ans=ans) if st2 == "ok" and st3 == "ok" else {"raised": ans if st2 != "ok" else view}
                if exp["k"] == "open":
                    # the file ends inside its header or inside an entry: refusing it (an exception, None) or
                    # returning the complete entries in front of the cut are both within the format description
                    ok = "raised" in got or "none" in got or got == want
                else:
                    ok = got == want
                if not ok:
                    res.append({"kind": "file", "file": act["f"], "bytes": _clip_act(act)["bytes"], "expected": dict(want, k=exp["k"]), "observed": got})
            else:
                oc = root / "objectcache"
                _empty(oc)
                (oc / "object.cache").write_bytes(bytes(_TABLES["idx"][act["i"] - 1]))
                st, c = common.impl_call(vocache.ViewerObjectCache.from_path, oc)
                want = {"k": "none"} if exp["k"] == "none" else {"k": "ok", "regs": sorted([_handle(x["h"]), x["t"]] for x in exp["regs"])}
                if st != "ok":
                    got = {"raised": c}
                elif c is None:
                    got = {"k": "none"}
                else:
                    got = {"k": "ok", "regs": sorted([h, t] for h, t in c.regions.items())}
                if got != want:
                    res.append({"kind": "index", "index": act["i"], "expected": want, "observed": got})
    finally:
        _empty(root / "objectcache")
    return res


def _cfg(consts, invs, props):
    return ("SPECIFICATION MSpec\nCONSTANTS %s\n" % " ".join("%s = %s" % kv for kv in consts.items())
            + "".join("INVARIANT %s\n" % i for i in invs) + "".join("PROPERTY %s\n" % p for p in props))


def _tla(v):
    if isinstance(v, bool):
        return "TRUE" if v else "FALSE"
    if isinstance(v, (set, frozenset, list, tuple)):
        return "{" + ", ".join(_tla(x) for x in sorted(v)) + "}"
    if isinstance(v, str):
        return '"%s"' % v
    return str(v)


def _action_counts(edges, wanted, what):
    counts = {a: 0 for a in wanted}
    for e in edges:
        counts[e["act"]["n"]] = counts.get(e["act"]["n"], 0) + 1
    idle = [a for a, c in counts.items() if c == 0]
    if idle:
        raise common.MachineryError("%s: action(s) %s never fire in the bounded model" % (what, idle))
    return counts


def objectcache_section(chk: Check, recs, max_pairs: int):
    global _SCRATCH
    # thousands of small files are written: a memory file system if there is one (creating and truncating files on the
    # disk behind /tmp costs milliseconds each), the check's scratch directory otherwise
    base = "/dev/shm" if os.path.isdir("/dev/shm") and os.access("/dev/shm", os.W_OK) else chk.scratch
    _SCRATCH = tempfile.mkdtemp(prefix="verif-objectcache-", dir=base)
    try:
        _objectcache_section(chk, recs, max_pairs)
    finally:
        shutil.rmtree(_SCRATCH, ignore_errors=True)
        _ROOTS.clear()


def _objectcache_section(chk: Check, recs, max_pairs: int):
    global _G, _TABLES
    tables = [r["tables"] for r in recs if "tables" in r]
    if not tables:
        raise common.MachineryError("ObjectCache_MBT printed no tables record")
    _TABLES = tables[0]
    rows = [r for r in recs if "act" in r and r["act"]["n"] in ("ParseFile", "ParseIndex")]
    g = Graph([r for r in recs if not ("act" in r and r["act"]["n"] in ("ParseFile", "ParseIndex")) and "tables" not in r])
    _G = g
    counts = _action_counts(g.edges + rows, OC_ACTIONS, "ObjectCache")
    ids = g.reachable_edges() + g.merge_pairs(max_pairs)
    results = common.parallel_map(_oc_replay, common.chunked(ids, common.NCPU * 4))
    tres = common.parallel_map(_oc_table, common.chunked(rows, common.NCPU * 2))
    n = len(ids) + len(rows)
    chk.count(n)
    chk.cov["traces_validated_against_impl"] += n
    chk.cov["objectcache_edges"] = n
    chk.cov.setdefault("objectcache_actions", {})["ObjectCache"] = counts
    chk.cov["objectcache_table_rows"] = len(rows)
    for r in rows:
        if r["act"]["n"] == "ParseFile" and (r["obs"]["o"]["ents"] or r["obs"]["o"]["k"] == "open"):
            chk.nontrivial(("oc-file", common.skey(r["act"]["f"])))
    for e in g.edges:
        if e["act"]["n"] in ("Lookup", "ChainLookup") and e["obs"]["o"]["ans"] != "none" or \
                e["act"]["n"] == "ForRegion" and e["obs"]["o"]["len"] > 0:
            chk.nontrivial(("oc", e["_s"], common.skey(e["act"])))
    for bads in results:
        for b in bads:
            b["history"] = [_clip_act(a) for a in b["history"]]
            chk.divergence("ObjectCache", "B1 object cache: %s after %s differs from ObjectCache specification"
                           % ("/".join(b["differs"]), b["history"][-1]["n"]),
                           {"kind": "b1-objectcache", "last": b["history"][-1]["n"], "differs": b["differs"]}, b)
    for bads in tres:
        for b in bads:
            chk.divergence("ObjectCache", "B3 object cache: %s read differently from ObjectCache!%s"
                           % ("region file" if b["kind"] == "file" else "index file", "Read" if b["kind"] == "file" else "Regions"),
                           {"kind": "b3-objectcache-" + b["kind"]}, b)
    pick = [e for e in g.edges if e["act"]["n"] == "ChainLookup" and e["obs"]["o"]["ans"] != "none" and len(e["obs"]["s"]["chain"]) > 1]
    if pick:
        e = pick[0]
        chk.sample({"binding": "B1 object cache (first hit across two viewers)",
                    "path": [p["act"] for p in g.path_to(e["_s"])] + [e["act"]], "expected": e["obs"]["o"]})
    pick = [r for r in rows if r["act"]["n"] == "ParseFile" and r["obs"]["o"]["k"] == "ok" and r["act"]["f"]["drop"] > 0 and r["obs"]["o"]["ents"]]
    if pick:
        r = pick[0]
        chk.sample({"binding": "B3 region file ending at an entry boundary", "file": r["act"]["f"], "bytes": _clip_act(r["act"])["bytes"],
                    "expected": r["obs"]["o"]})


# ----------------------------------------------------------------------------------------
# NameCache
# ----------------------------------------------------------------------------------------

class _CapLog:
    """stands in for the module logger of hippolyzer.lib.base.events: a handler that failed is an observation"""
    def __init__(self, sink):
        self.sink = sink

    def exception(self, msg, *a, **kw):
        import sys
        et, ev = sys.exc_info()[:2]
        self.sink.append("%s: %s" % (getattr(et, "__name__", "?"), str(ev)[:120]))

    def __getattr__(self, name):
        return lambda *a, **kw: None


class NcImpl:
    def __init__(self):
        from hippolyzer.lib.base import events
        from hippolyzer.lib.base.datatypes import UUID
        from hippolyzer.lib.base.message.message_handler import MessageHandler
        from hippolyzer.lib.proxy.namecache import ProxyNameCache
        self.events = events
        self.errors = []
        self.saved = events.LOG
        events.LOG = _CapLog(self.errors)
        self.UUID = UUID
        self.nc = ProxyNameCache()
        self.mh = MessageHandler()
        self.hmh = MessageHandler()
        self.nc.create_subscriptions(self.mh, self.hmh)
        self.held = {}

    def close(self):
        self.events.LOG = self.saved

    def uid(self, i):
        return self.UUID(int=0x1000 + i)

    def view(self, entry, i):
        def nv(x):
            return NOVAL if x is None else x
        return {"k": True, "f": nv(entry.first_name), "l": nv(entry.last_name), "d": nv(entry.display_name),
                "legacy": nv(entry.legacy_name), "preferred": nv(entry.preferred_name),
                "text": str(entry).replace(str(self.uid(i)), "#%d" % i), "id_ok": entry.full_id == self.uid(i)}

    def step(self, act, nids):
        from hippolyzer.lib.base import llsd
        from hippolyzer.lib.base.message.message import Message, Block
        n = act["n"]
        o = {}
        del self.errors[:]
        if n == "Update":
            vals = {k: (None if v == NOVAL else v) for k, v in act["vals"].items()}
            st, r = common.impl_call(self.nc.update, self.uid(act["id"]), vals)
            o = {"ev": "update"} if st == "ok" else {"raised": r}
        elif n == "NameReply":
            msg = Message("UUIDNameReply", *[Block("UUIDNameBlock", ID=self.uid(b["id"]), FirstName=b["f"], LastName=b["l"])
                                            for b in act["blocks"]])
            st, r = common.impl_call(self.mh.handle, msg)
            o = {"ev": "reply"} if st == "ok" else {"raised": r}
        elif n == "DisplayNames":
            body = {"agents": [{"id": self.uid(a["id"]), "username": (a["f"] + "." + a["l"]).lower(),
                                "legacy_first_name": a["f"], "legacy_last_name": a["l"], "display_name": a["d"],
                                "is_display_name_default": a["dflt"], "display_name_next_update": 0}
                               for a in act["agents"]]}
            if act["bad"]:
                body["bad_ids"] = [self.uid(i) for i in act["bad"]]
            flow = types.SimpleNamespace(name="GetDisplayNames", cap_data=types.SimpleNamespace(cap_name="GetDisplayNames"),
                                         response=types.SimpleNamespace(status_code=act["status"], content=llsd.format_xml(body)))
            st, r = common.impl_call(self.hmh.handle, flow)
            o = {"ev": "response"} if st == "ok" else {"raised": r}
        elif n == "Lookup":
            st, r = common.impl_call(self.nc.lookup, self.uid(act["id"]), act["create"])
            if st != "ok":
                o = {"raised": r}
            else:
                o = {"found": r is not None}
                if r is not None:
                    self.held.setdefault(act["id"], r)
        else:
            raise common.MachineryError("unknown NameCache action %r" % n)
        if self.errors:
            o["handler_failed"] = list(self.errors)
        fresh, held = [], {}
        for i in range(1, nids + 1):
            st, r = common.impl_call(self.nc.lookup, self.uid(i))
            if st != "ok":
                fresh.append({"raised": r})
                continue
            fresh.append({"k": False} if r is None else self.view(r, i))
            if i in self.held:
                st2, v = common.impl_call(self.view, self.held[i], i)
                held[str(i)] = dict(v, same=self.held[i] is r) if st2 == "ok" else {"raised": v}
        return {"o": o, "fresh": fresh, "held": held}


def _nc_expected(e):
    views = []
    for v in e["obs"]["s"]:
        views.append(dict(v, id_ok=True) if v["k"] else {"k": False})
    return {"o": dict(e["obs"]["o"]), "fresh": views, "held": {str(i): dict(views[i - 1], same=True) for i in e["obs"]["held"]}}


def _nc_replay(items):
    g = _G
    nids = len(g.states[g.inits[0]]["cache"])
    res = []
    for item in items:
        pre = []
        if isinstance(item, tuple):
            pre, ei = [g.edges[item[0]]], item[1]
        else:
            ei = item
        e = g.edges[ei]
        impl = NcImpl()
        try:
            hist = []
            for pe in g.path_to(pre[0]["_s"] if pre else e["_s"]) + pre:
                impl.step(pe["act"], nids)
                hist.append(pe["act"])
            got = impl.step(e["act"], nids)
            hist.append(e["act"])
            exp = _nc_expected(e)
            if got != exp:
                res.append({"history": hist, "expected": exp, "observed": got,
                            "differs": sorted(k for k in exp if exp[k] != got.get(k))})
        finally:
            impl.close()
    return res


def namecache_section(chk: Check, recs, max_pairs: int):
    global _G
    g = Graph(recs)
    _G = g
    counts = _action_counts(g.edges, NC_ACTIONS, "NameCache")
    ids = g.reachable_edges() + g.merge_pairs(max_pairs)
    results = common.parallel_map(_nc_replay, common.chunked(ids, common.NCPU * 4))
    chk.count(len(ids))
    chk.cov["traces_validated_against_impl"] += len(ids)
    chk.cov["namecache_edges"] = len(ids)
    chk.cov.setdefault("objectcache_actions", {})["NameCache"] = counts
    for e in g.edges:
        if e["src"] != e["dst"]:
            chk.nontrivial(("nc", e["_s"], common.skey(e["act"])))
    for bads in results:
        for b in bads:
            chk.divergence("NameCache", "B1 name cache: %s after %s differs from NameCache specification"
                           % ("/".join(b["differs"]), b["history"][-1]["n"]),
                           {"kind": "b1-namecache", "last": b["history"][-1]["n"], "differs": b["differs"]}, b)
    pick = [e for e in g.edges if e["act"]["n"] == "NameReply" and any(v["k"] and v["d"] != NOVAL for v in e["obs"]["s"])]
    if pick:
        e = pick[0]
        chk.sample({"binding": "B1 name cache (a UUIDNameReply leaves the display name alone)",
                    "path": [p["act"] for p in g.path_to(e["_s"])] + [e["act"]], "expected": e["obs"]["s"]})


# ----------------------------------------------------------------------------------------

_T = [0.0]


def _tick(what):
    import time
    if os.environ.get("OC_TIMING"):
        print("  [growth_objectcache] %s %.1fs" % (what, time.time() - _T[0]))
    _T[0] = time.time()


def section(chk: Check, n_variants: int, oc_depth: int, max_ents: int, cuts, rich_ents: bool, oc_rich: bool, interleave: bool,
            nc_depth: int, nc_blocks: int, nc_rich: bool, max_pairs: int = 3000, nc_bugs=("NoneText",)):
    """ObjectCache: n_variants of ObjectCache!DirVariants may be written by the two viewers, graph depth oc_depth (5 reaches
    write, from_path, read_region, lookup), region-file table with up to max_ents entries over the small (rich_ents: full)
    entry alphabet and `cuts` bytes missing at the end, oc_rich: full for_region parameters, interleave: viewers rewrite
    while the client holds objects.  NameCache: graph depth nc_depth, up to nc_blocks blocks / agents per message.
    Recommended: quick   section(chk, 6, 5, 2, [0, 1, 24, 27], False, False, False, 3, 2, False, max_pairs=600)
                 thorough section(chk, 9, 5, 3, [0, 1, 3, 8, 24, 27, 30, 51], False, True, True, 4, 2, False, max_pairs=6000)
    Both models are exported (and model-checked) concurrently, then replayed one after the other."""
    chk.assumptions += [
        "growth ObjectCache: object.cache always holds all 128 slots and lists a region at most once; a region file that ends "
        "inside its header or inside an entry may be refused or read up to the cut (both accepted)",
        "growth NameCache: every agent record of a GetDisplayNames response carries id, legacy_first_name, legacy_last_name, "
        "display_name and is_display_name_default; legacy names are never reported as null",
    ]
    oc_cfg = _cfg({"NDirs": 2, "NVariants": n_variants, "MaxEnts": max_ents, "Cuts": _tla(set(cuts)), "RichEnts": _tla(bool(rich_ents)),
                   "Rich": _tla(bool(oc_rich)),
                   "Interleave": _tla(bool(interleave)), "Depth": oc_depth}, OC_INVS, OC_PROPS)
    nc_cfg = _cfg({"NIds": 2, "Names": '{"Ann", "Bo"}', "MaxBlocks": nc_blocks, "Rich": _tla(bool(nc_rich)),
                   "Bugs": _tla(set(nc_bugs)), "Depth": nc_depth}, NC_INVS, NC_PROPS)
    out = {}
    _tick("start")

    def run(key, module, cfg, label):
        try:
            out[key] = common.export_records(chk, module, cfg, label)
        except BaseException as e:  # noqa
            out[key] = e
    ths = [threading.Thread(target=run, args=("oc", "ObjectCache_MBT", oc_cfg,
                                              "ObjectCache v%d d%d e%d%s" % (n_variants, oc_depth, max_ents, " rich" if oc_rich else ""))),
           threading.Thread(target=run, args=("nc", "NameCache_MBT", nc_cfg,
                                              "NameCache d%d b%d%s" % (nc_depth, nc_blocks, " rich" if nc_rich else "")))]
    for t in ths:
        t.start()
    for t in ths:
        t.join()
    _tick("tlc")
    for run_ in chk.cov["tlc_runs"][-2:]:
        run_["invariants"] = (OC_INVS + OC_PROPS) if run_["label"].startswith("ObjectCache") else (NC_INVS + NC_PROPS)
    errs = []
    for key, fn in (("oc", objectcache_section), ("nc", namecache_section)):
        if isinstance(out[key], BaseException):
            errs.append(out[key])
            continue
        try:
            fn(chk, out[key], max_pairs)
            _tick(key)
        except Exception as e:  # noqa: the other half still runs
            errs.append(e)
    if errs:
        raise errs[0]
