"""Growth beyond the listed properties: the Vivox voice control connection (VoiceClient.tla).

B1: every edge of the bounded model (five scenarios: futures, session, login, join, framing) is replayed into a
real VoiceClient + VivoxConnection on a private event loop with a hand-fed asyncio.StreamReader and a recording
writer.  Documents of the daemon are produced by the real VivoxConnection.send_response / send_event /
send_request from the payload TLC printed, cut into the cells TLC chose (body halves, inner / trailing newlines,
terminator) and fed in the chunks TLC chose; what the client writes is read back through a second real
VivoxConnection.  Expected parsed data, request ids, future states, notifications, participants, login / session
flags and positions all come out of TLC.
"""
from __future__ import annotations

import asyncio
import logging

from . import common
from .common import Check, Graph, MachineryError

INVS = ["FramingLossless", "NoOrphan", "ParticipantsScoped", "NoDuplicateParticipants", "LoggedInHasAccount",
        "NothingOutlivesConnection", "PollSurvives", "RefFollowsChannel"]
PROPS = ["InOrder", "Final", "ResolvedByItsResponse", "AtMostOnePerResponse", "ClearedWithSession", "LoginFollowsEvents"]
SEP = b"\n\n\n"
PUMPS = 24


async def _spin():
    for _ in range(PUMPS):
        await asyncio.sleep(0)


class _PrefixFailed(Exception):
    """The implementation did not get through the environment prefix (connector creation / login): an observation."""


class _Writer:
    """What VivoxConnection needs of an asyncio.StreamWriter."""

    def __init__(self):
        self.data = bytearray()
        self.closed = False

    def write(self, b):
        self.data += bytes(b)

    async def drain(self):
        return None

    def close(self):
        self.closed = True

    def is_closing(self):
        return self.closed


def _to_py(entries):
    """Entries printed by TLC -> the dict handed to send_response / send_event (and, normalised, expected back)."""
    res = {}
    for e in entries:
        t = e["t"]
        res[e["k"]] = e["s"] if t == "s" else e["n"] if t == "i" else None if t == "n" else _to_py(e["kids"])
    return res


def _plain(x):
    """Parsed data of the implementation -> plain JSON-able structure."""
    if isinstance(x, dict):
        return {str(k): _plain(v) for k, v in x.items()}
    if isinstance(x, (list, tuple)):
        return [_plain(v) for v in x]
    if x is None or isinstance(x, (str, int, bool)):
        return x
    return repr(x)


def _num(s):
    """'258.0' -> '258': positions are floats in the implementation, integers in the model."""
    if isinstance(s, str):
        try:
            f = float(s)
            if f == int(f) and ("." in s or "e" in s.lower()):
                return str(int(f))
        except ValueError:
            pass
    return s


def _covers(real, exp):
    """Every key the model lists is there with the listed value (other keys of a request are not modelled)."""
    if isinstance(exp, dict):
        return isinstance(real, dict) and all(k in real and _covers(real[k], v) for k, v in exp.items())
    return _num(real) == _num(exp)


class Impl:
    def __init__(self, mode):
        from hippolyzer.lib.voice.client import VoiceClient
        from hippolyzer.lib.voice.connection import VivoxConnection
        from hippolyzer.lib.base.datatypes import Vector3
        from hippolyzer.lib.base.objects import gridxy_to_handle
        self.Vector3, self.gridxy_to_handle = Vector3, gridxy_to_handle
        self.atomic = mode["atomic"]
        self.loop = asyncio.new_event_loop()
        self.loop.set_exception_handler(lambda loop, ctx: None)
        asyncio.set_event_loop(self.loop)
        self.reader = asyncio.StreamReader()
        self.writer = _Writer()
        # the daemon's end: renders documents, reads back what the client wrote
        self.dreader = asyncio.StreamReader()
        self.dwriter = _Writer()
        self.dconn = VivoxConnection(self.dreader, self.dwriter, owned=False)
        self.taken = 0           # bytes of self.writer.data handed to the daemon's reader
        self.complete = 0        # requests completely handed over, not yet read

        async def make():
            c = VoiceClient("127.0.0.1", 0)
            c.vivox_conn = VivoxConnection(self.reader, self.writer)    # before the poll task first runs: no sleeping
            return c
        self.client = self.loop.run_until_complete(make())
        self.real_ids = []       # real id of the model's i-th request
        self.futs = {}           # model request index -> future (requests the user made directly)
        self.calls = []          # tasks
        self.pywire = []         # cells in flight (bytes each)
        self.notes, self.seen = [], []
        try:
            self._setup(mode["start"])
        except BaseException:
            self.close()
            raise
        c = self.client
        c.participant_added.subscribe(lambda d: self.notes.append(["added", d.get("ParticipantUri"), [0, 0, 0]]))
        c.participant_updated.subscribe(lambda d: self.notes.append(["updated", d.get("ParticipantUri"), [0, 0, 0]]))
        c.participant_removed.subscribe(lambda d: self.notes.append(["removed", d.get("ParticipantUri"), [0, 0, 0]]))
        c.session_added.subscribe(lambda h: self.notes.append(["session", h, [0, 0, 0]]))
        c.channel_info_updated.subscribe(lambda p: self.notes.append(["chan", "", [p.X, p.Y, p.Z]]))
        c.event_handler.subscribe("*", lambda m: self.seen.append({"a": m.name, "data": _plain(m.data)}))

    # ------------------------------------------------------------------------------------------
    def pump(self):
        """Run the loop to quiescence: nothing in this driver waits for time or I/O, so a bounded number of
        iterations (far more than the longest wake-up chain of the client) is enough."""
        self.loop.run_until_complete(_spin())

    def _render(self, kind, action, rid, data):
        """Bytes of one document as the real connection class writes it (without the terminator)."""
        del self.dwriter.data[:]
        if kind == "Response":
            self.dconn.send_response(rid, action, data)
        elif kind == "Request":
            self.dconn.send_request(rid, action, data)
        elif kind == "Event":
            self.dconn.send_event(action, data)
        else:
            self.dwriter.write(b"<Bogus><x>1</x></Bogus>" + SEP)
        raw = bytes(self.dwriter.data)
        if not raw.endswith(SEP) or raw.count(SEP) != 1:
            raise MachineryError("unexpected rendering of a %s document: %r" % (kind, raw[:80]))
        return raw[:-3]

    def _requests(self):
        """Read back, through the real reader, what the client has written since the last call."""
        new = bytes(self.writer.data[self.taken:])
        self.taken += len(new)
        # hand it over in awkward pieces: first third, up to the middle of the last terminator, rest
        cuts = sorted({len(new) // 3, max(0, len(new) - 2)})
        pos = 0
        for c in cuts + [len(new)]:
            if c > pos:
                self.dreader.feed_data(new[pos:c])
                pos = c
        self.complete += new.count(SEP)
        res = []
        while self.complete:
            self.complete -= 1
            st, m = common.impl_call(self.loop.run_until_complete, self.dconn.read_message())
            if st != "ok":
                res.append({"a": "unreadable: " + m, "id": None, "data": None, "t": None})
            else:
                res.append({"t": m.type, "a": m.name, "id": m.request_id, "data": _plain(m.data)})
        return res

    def _feed(self, raw):
        self.reader.feed_data(raw)
        self.pump()

    def _answer(self, req, results, rc=0):
        self._feed(self._render("Response", req["a"], req["id"], {"ReturnCode": rc, "Results": results}) + SEP)

    def _setup(self, start):
        """Environment prefix, not part of the model: the connector is created (and the account logged in)."""
        self._feed(self._render("Event", "VoiceServiceConnectionStateChangedEvent", None, {"Connected": 1}) + SEP)
        expect = ["Aux.GetCaptureDevices.1", "Aux.GetRenderDevices.1", "Connector.MuteLocalSpeaker.1",
                  "Connector.SetLocalSpeakerVolume.1", "Connector.MuteLocalMic.1", "Connector.SetLocalMicVolume.1",
                  "Connector.Create.1"]
        pending = []
        for name in expect:
            pending += self._requests()
            if not pending or pending[0]["a"] != name:
                raise _PrefixFailed("connector setup: expected %s, client wrote %r" % (name, pending[:1]))
            req = pending.pop(0)
            results = {"StatusCode": 0}
            if name == "Aux.GetCaptureDevices.1":
                results["CaptureDevices"] = []
            if name == "Connector.Create.1":
                results["ConnectorHandle"] = "c0"
            self._answer(req, results)
        if not self.client.ready.is_set():
            raise _PrefixFailed("connector setup did not make the client ready")
        if start == "in":
            task = self.loop.create_task(self.client.login("user", "pw"))
            self.pump()
            reqs = self._requests()
            if len(reqs) != 1 or reqs[0]["a"] != "Account.Login.1":
                raise _PrefixFailed("login prefix: client wrote %r" % (reqs,))
            self._answer(reqs[0], {"AccountHandle": "a1", "DisplayName": "Me", "Uri": "me"})
            self._feed(self._render("Event", "AccountLoginStateChangeEvent", None,
                                    {"AccountHandle": "a1", "StatusCode": 200, "StatusString": "OK", "State": 1}) + SEP)
            if not task.done() or task.exception() is not None:
                raise _PrefixFailed("login prefix did not complete")
        if self._requests():
            raise _PrefixFailed("client wrote requests nobody asked for during the setup")

    # ------------------------------------------------------------------------------------------
    def _real_id(self, mid):
        if mid.startswith("#"):
            i = int(mid[1:])
            return self.real_ids[i - 1] if i <= len(self.real_ids) else "never-issued-%d" % i
        return mid

    def _cells(self, act):
        d = act["d"]
        body = self._render(d["t"], d["a"], self._real_id(d["id"]) if d["id"] else None, _to_py(act["payload"]))
        if d["fl"] == "nl2":
            k = body.index(b">") + 1        # between the root's opening tag and its first child
        else:
            k = len(body) // 2
        parts = {1: body[:k], 2: body[k:]}
        if not parts[1] or not parts[2] or b"\n" in body:
            raise MachineryError("document body cannot be cut as modelled: %r" % body[:80])
        return [b"\n" if c["d"] == 0 else parts[c["p"]] for c in act["cells"]]

    def step(self, act):
        n = act["n"]
        c = self.client
        self.notes.clear()
        self.seen.clear()
        raised = None

        def in_loop(fn, *a, **kw):
            async def run():
                return fn(*a, **kw)
            return common.impl_call(self.loop.run_until_complete, run())
        if n == "Send":
            st, r = in_loop(c.send_message, "Aux.SetCaptureDevice.1", {"CaptureDeviceSpecifier": "mic", "Gain": 7, "Opts": {}})
            if st == "ok":
                self.new_direct = r
            else:
                raised = r
        elif n == "SetPos":
            st, r = in_loop(c.set_region_3d_pos, self.Vector3(*act["p"]))
            if st == "ok":
                self.new_direct = r
            else:
                raised = r
        elif n == "Cancel":
            f = self.futs.get(act["i"])
            if f is None:
                raise MachineryError("model cancels request %d, which the driver does not hold" % act["i"])
            f.cancel()
        elif n == "Call":
            k = act["k"]
            if k == "login":
                coro = c.login("user", "pw")
            elif k == "logout":
                coro = c.logout()
            elif k == "join":
                coro = c.join_session(act["arg"], region_handle=self.gridxy_to_handle(*act["grid"]))
            else:
                coro = c.leave_session()
            self.calls.append(self.loop.create_task(coro))
        elif n == "Close":
            st, r = common.impl_call(c.close)
            if st != "ok":
                raised = r
        elif n == "Eof":
            self.reader.feed_eof()
        elif n == "Daemon":
            cells = self._cells(act)
            if self.atomic:
                self.reader.feed_data(b"".join(cells))
            else:
                self.pywire += cells
        elif n == "Feed":
            m = act["m"]
            if m > len(self.pywire):
                raise MachineryError("model feeds more cells than are in flight")
            self.reader.feed_data(b"".join(self.pywire[:m]))
            del self.pywire[:m]
        else:
            raise MachineryError("unknown action %r" % (act,))
        self.pump()
        # ---- observation
        sent = self._requests()
        for r in sent:
            self.real_ids.append(r["id"])
        if n in ("Send", "SetPos") and raised is None:
            self.futs[len(self.real_ids)] = self.new_direct
        got = {"sent": sent, "notes": [list(x) for x in self.notes], "seen": list(self.seen)}
        if raised:
            got["raised"] = raised
        futs = {}
        for i, f in self.futs.items():
            if not f.done():
                futs[i] = ["p", None]
            elif f.cancelled():
                futs[i] = ["x", None]
            elif f.exception() is not None:
                futs[i] = ["x", repr(f.exception())]
            else:
                futs[i] = ["d", _plain(f.result())]
        got["futs"] = futs
        calls = []
        for t in self.calls:
            if not t.done():
                calls.append(["run", None])
            elif t.cancelled() or t.exception() is not None:
                calls.append(["raise", None])
            else:
                calls.append(["done", _plain(t.result())])
        got["calls"] = calls
        st, parts = common.impl_call(lambda: [[p.get("ParticipantUri"), p.get("SessionHandle"), p.get("IsSpeaking")]
                                              for p in c.participants.values()])
        got["parts"] = parts
        got["logged"] = c.logged_in.is_set()
        got["ready"] = c.session_ready.is_set()
        got["uri"] = c.uri or ""
        rp, gp = c.region_pos, c.global_pos
        got["rpos"] = [rp.X, rp.Y, rp.Z]
        got["gpos"] = [gp.X, gp.Y, gp.Z]
        return got

    def close(self):
        try:
            for t in asyncio.all_tasks(self.loop):
                t.cancel()
            self.pump()
            for t in self.calls:
                if t.done() and not t.cancelled():
                    t.exception()
            for f in self.futs.values():
                if f.done() and not f.cancelled():
                    f.exception()
            self.dconn.close()
        finally:
            asyncio.set_event_loop(None)
            self.loop.close()


def _compare(impl: Impl, obs, got):
    """[(clause, expected, observed)] -- everything expected is what TLC printed for the edge."""
    bad = []
    o, s = obs["o"], obs["s"]
    if "raised" in got:
        bad.append(("exception escaped", None, got["raised"]))
    # requests written in this step: type, action, id, the modelled part of the data
    exp_sent = o["sent"]
    if [r["a"] for r in got["sent"]] != [r["a"] for r in exp_sent] or any(r["t"] != "Request" for r in got["sent"]):
        bad.append(("requests written", [r["a"] for r in exp_sent], [[r["t"], r["a"]] for r in got["sent"]]))
    else:
        for e, r in zip(exp_sent, got["sent"]):
            if e["id"].startswith("#"):
                fresh = impl.real_ids.count(r["id"]) == 1 and r["id"] and r["id"] not in ("c1", "c2", "zz", "q1")
                if not fresh:
                    bad.append(("request id is fresh", e["id"], r["id"]))
            elif r["id"] != e["id"]:
                bad.append(("request id", e["id"], r["id"]))
            if not _covers(r["data"], _to_py(e["data"])):
                bad.append(("request data of " + e["a"], _to_py(e["data"]), r["data"]))
    exp_notes = [[x["e"], x["u"], list(x["p"])] for x in o["notes"]]
    if got["notes"] != exp_notes:
        bad.append(("notifications", exp_notes, got["notes"]))
    exp_seen = [{"a": x["a"], "data": _to_py(x["data"])} for x in o["seen"]]
    if got["seen"] != exp_seen:
        bad.append(("events read", exp_seen, got["seen"]))
    # futures the user holds
    exp_f = {}
    for i, f in enumerate(s["futs"], 1):
        if f["by"] == 0:
            exp_f[i] = [f["st"], _to_py(f["res"]) if f["st"] == "d" else None]
    got_f = {i: [st, res if st == "d" else None] for i, (st, res) in got["futs"].items()}
    if got_f != exp_f:
        bad.append(("futures", exp_f, got_f))
    exp_c = [[c["st"], _to_py(c["ret"]) if (c["st"] == "done" and c["k"] == "login") else None] for c in s["calls"]]
    if got["calls"] != exp_c:
        bad.append(("calls", exp_c, got["calls"]))
    exp_p = [[p["u"], p["h"], p["spk"]] for p in s["parts"]]
    if got["parts"] != exp_p:
        bad.append(("participants", exp_p, got["parts"]))
    for k in ("logged", "ready", "uri"):
        if got[k] != s[k]:
            bad.append((k, s[k], got[k]))
    for k in ("rpos", "gpos"):
        if [float(x) for x in got[k]] != [float(x) for x in s[k]]:
            bad.append((k, list(s[k]), got[k]))
    return bad


_G = None


def _replay(items):
    g = _G
    prev = logging.root.manager.disable
    logging.disable(logging.CRITICAL)
    res = []
    try:
        for item in items:
            pre = []
            if isinstance(item, tuple):
                pre, ei = [g.edges[item[0]]], item[1]
            else:
                ei = item
            e = g.edges[ei]
            try:
                impl = Impl(e["mode"])
            except _PrefixFailed as ex:
                res.append({"scenario": e["mode"]["name"], "history": [{"n": "(environment prefix)"}], "differs": ["prefix"],
                            "mismatches": [{"clause": "connector creation / login prefix completes", "expected": None, "observed": str(ex)}]})
                continue
            try:
                hist = []
                for pe in g.path_to(pre[0]["_s"] if pre else e["_s"]) + pre:
                    impl.step(pe["act"])
                    hist.append(_short(pe["act"]))
                got = impl.step(e["act"])
                hist.append(_short(e["act"]))
                bad = _compare(impl, e["obs"], got)
                if bad:
                    res.append({"scenario": e["mode"]["name"], "history": hist, "differs": [b[0] for b in bad],
                                "mismatches": [{"clause": b[0], "expected": b[1], "observed": b[2]} for b in bad[:6]]})
            finally:
                impl.close()
    finally:
        logging.disable(prev)
    return res


def _short(act):
    if act["n"] == "Daemon":
        d = act["d"]
        return {k: v for k, v in (("n", "Daemon"), ("t", d["t"]), ("a", d["a"]), ("id", d["id"]), ("h", d["h"]), ("u", d["u"]),
                                  ("rc", d["rc"]), ("ss", d["ss"]), ("fl", d["fl"])) if v != ""}
    return {k: v for k, v in act.items() if k != "grid"}


def _act_name(e):
    a = e["act"]
    if a["n"] == "Daemon":
        d = a["d"]
        return "Daemon:" + (d["a"] if d["t"] == "Event" else d["t"])
    if a["n"] == "Call":
        return "Call:" + a["k"]
    return a["n"]


DEVIATIONS = {
    "StaleSession": "Session/Participant events naming a session that is not the current one are applied to the current one "
                    "(a late SessionRemovedEvent of the previous session wipes handle, participants and session_ready of the new one)",
    "Outlive": "EOF on the connection and VoiceClient.close() leave the futures of outstanding requests (and the coroutines "
               "awaiting them) pending for ever; requests are still accepted after EOF",
    "PollDies": "a document that does not parse (unknown root element) ends VoiceClient._poll_messages: nothing the daemon "
                "sends afterwards is handled",
    "IdReuse": "Session.Create.1 uses the channel URI as request id: a second join_session() for the same URI while the first "
               "create is outstanding replaces the first future, which is then never resolved",
}


def section(chk: Check, modes: str = "ModesQuick", depth: int = 0, max_pairs: int = 2000):
    """modes: name of a scenario set of VoiceClient_MBT (ModesQuick / ModesThorough; ModesNoStaleSession, ModesNoOutlive,
    ModesNoPollDies, ModesNoIdReuse replay the quick scenarios with one deviation of the pinned tree NOT modelled, i.e. they
    show that deviation as a divergence); depth: added to every scenario's depth; max_pairs: cap on (merging edge, next edge)."""
    global _G
    chk.assumptions += ["VoiceClient growth spec: the daemon numbers its sessions, names only sessions / participants it has "
                        "announced, answers with the action of the request; connector creation (and, for the join scenario, "
                        "login) is an environment prefix driven by the harness; the loop is pumped to quiescence after "
                        "every step",
                        "VoiceClient growth spec models these deviations of the pinned tree as they are (Bugs), the guarded "
                        "invariants are model-checked on the same scenarios without them: "
                        + "; ".join("%s = %s" % kv for kv in sorted(DEVIATIONS.items()))]
    chk.cov["voiceclient_rule"] = ("non-trivial = edges that notify a subscriber, handle more than one document in one read, "
                                   "leave the abstract state unchanged, or leave a future resolved / cancelled")
    cfg = ("SPECIFICATION MSpec\nCONSTANTS Modes <- %s Depth = %d\nVIEW MView\n%s%s"
           % (modes, depth, "".join("INVARIANT %s\n" % i for i in INVS), "".join("PROPERTY %s\n" % p for p in PROPS)))
    recs = common.export_records(chk, "VoiceClient_MBT", cfg, "VoiceClient %s +%d" % (modes, depth))
    chk.cov["tlc_runs"][-1]["invariants"] = INVS + PROPS
    g = Graph(recs)
    if not g.edges or len(g.reachable_edges()) != len(g.edges):
        raise MachineryError("VoiceClient export: %d edges, %d reachable" % (len(g.edges), len(g.reachable_edges())))
    _G = g
    pairs = g.merge_pairs(max_pairs) if max_pairs > 0 else []
    ids = g.reachable_edges() + pairs
    n = common.NCPU * 4
    results = common.parallel_map(_replay, [c for c in (ids[i::n] for i in range(n)) if c])
    chk.count(len(ids))
    chk.cov["traces_validated_against_impl"] += len(ids)
    chk.cov["voiceclient_edges"] = len(ids)
    per = {}
    for e in g.edges:
        k = e["mode"]["name"] + "/" + _act_name(e)
        per[k] = per.get(k, 0) + 1
        o = e["obs"]["o"]
        if o["notes"] or len(o["proc"]) > 1 or e["_s"] == e["_d"] or any(f["st"] != "p" for f in e["obs"]["s"]["futs"]):
            chk.nontrivial(("voiceclient", e["_s"], common.skey(_short(e["act"]))))
    chk.cov["voiceclient_actions"] = dict(sorted(per.items()))
    agg = {}
    for bads in results:
        for b in bads:
            key = (b["scenario"], tuple(b["differs"]))
            if key not in agg or len(b["history"]) < len(agg[key]["history"]):
                b["cases"] = agg[key]["cases"] + 1 if key in agg else 1
                agg[key] = b
            else:
                agg[key]["cases"] += 1
    for (scn, differs), b in sorted(agg.items()):
        chk.divergence("VoiceClient", "B1 voice-client (%s): %s differs from VoiceClient specification" % (scn, ",".join(differs)),
                       {"kind": "b1-voiceclient", "scenario": scn, "differs": list(differs), "last": b["history"][-1]["n"]}, b)
    pick = [e for e in g.edges if len(e["obs"]["o"]["proc"]) > 1] or g.edges[:1]
    if pick:
        e = pick[0]
        chk.sample({"binding": "B1 voice-client", "path": [_short(p["act"]) for p in g.path_to(e["_s"])] + [_short(e["act"])],
                    "expected": {"handled": e["obs"]["o"]["proc"], "seen": e["obs"]["o"]["seen"]}})
