"""Growth: hot reloading of addon scripts (AddonReload.tla).  B1: every edge of the bounded model is
replayed with real files in a scratch directory, real AddonManager.init/_reload_addons/hot_reload,
a virtual `time.time` for the throttle, and a real proxied message through the proxy."""
from __future__ import annotations

import asyncio
import itertools
import os
import shutil
import sys
import tempfile
import types

from . import common
from .common import Check, Graph

_COUNTER = itertools.count()
SEC = 1.0   # one model clock unit = 1 s (Throttle = 2 units = the code's 2 s)

ADDON_SRC = '''import sys
import {helper} as helper
from hippolyzer.lib.proxy.addons import AddonManager
from hippolyzer.lib.proxy.addon_utils import BaseAddon
AddonManager.hot_reload(helper)
VERSION_A = {va}


class VerifAddon(BaseAddon):
    def handle_lludp_message(self, session, region, message):
        if not message.synthetic and message.name == "CompletePingCheck":
            sys.modules["verif_reload_log"].LOG.append((VERSION_A, helper.VERSION_H))


addons = [VerifAddon()]
'''


class Impl:
    def __init__(self):
        from . import proxyenv
        from hippolyzer.lib.proxy import addons as addons_mod
        from hippolyzer.lib.proxy.addons import AddonManager
        self.AM = AddonManager
        self.addons_mod = addons_mod
        self.n = next(_COUNTER)
        self.dir = tempfile.mkdtemp(prefix="verif-reload-%d-%d-" % (os.getpid(), self.n))
        self.helper_name = "verif_helper_%d_%d" % (os.getpid(), self.n)
        self.addon_path = os.path.join(self.dir, "verif_addon_%d_%d.py" % (os.getpid(), self.n))
        self.helper_path = os.path.join(self.dir, self.helper_name + ".py")
        self.mtime = 1_600_000_000
        self.log = types.ModuleType("verif_reload_log")
        self.log.LOG = []
        sys.modules["verif_reload_log"] = self.log
        self.now = 1_700_000_000.0
        outer = self
        self.saved_time = addons_mod.time
        addons_mod.time = types.SimpleNamespace(time=lambda: outer.now)
        self.loop = asyncio.new_event_loop()
        asyncio.set_event_loop(self.loop)
        self._write(self.helper_path, "VERSION_H = 1\n")
        self._write(self.addon_path, ADDON_SRC.format(helper=self.helper_name, va=1))
        self.env = proxyenv.ProxyEnv(addons=[])
        self.env.protocol.resend_task.cancel()
        AddonManager.init([self.addon_path], self.env.sm)
        self.pump()
        self.pid = 0

    def _write(self, path, text):
        with open(path, "w") as f:
            f.write(text)
        self.mtime += 10
        os.utime(path, (self.mtime, self.mtime))

    def pump(self):
        for _ in range(4):
            self.loop.run_until_complete(asyncio.sleep(0))

    def step(self, act):
        from hippolyzer.lib.base.network.transport import Direction
        n = act["n"]
        if n == "EditA":
            if act["broken"]:
                self._write(self.addon_path, "this is not python (\n")
            else:
                self._write(self.addon_path, ADDON_SRC.format(helper=self.helper_name, va=act["v"]))
            return {}
        if n == "EditH":
            self._write(self.helper_path, "VERSION_H = %d\n" % act["v"])
            return {}
        if n == "Advance":
            self.now += act["dt"] * SEC
            return {}
        self.pid += 1
        self.log.LOG.clear()
        exc = self.env.deliver(self.env_pe().ping(Direction.IN, self.pid))
        self.pump()
        wire = 0
        for p in self.env.transport.take():
            m = self.env.deser.deserialize(p.data)
            if m.name == "CompletePingCheck":
                wire += 1
        seen = [list(x) for x in self.log.LOG]
        return {"wire": wire, "escaped": exc, "handledBy": seen[0] if len(seen) == 1 else ([] if not seen else ["multiple", seen])}

    def env_pe(self):
        from . import proxyenv
        return proxyenv

    def close(self):
        try:
            try:
                self.AM.shutdown()
            except Exception:
                pass
            # forget the registrations of this scenario before the environment re-initialises the manager
            self.AM.HOTRELOAD_IMPORTERS.clear()
            self.AM.FILE_MTIMES.clear()
            try:
                self.env.close()
            except Exception:
                pass
        finally:
            self.addons_mod.time = self.saved_time
            self.AM.HOTRELOAD_IMPORTERS.clear()
            for k in [k for k in sys.modules if k.startswith("verif_helper_%d_%d" % (os.getpid(), self.n))
                      or k.startswith("hippolyzer.user_addon_verif_addon_%d_%d" % (os.getpid(), self.n))]:
                sys.modules.pop(k, None)
            if self.dir in sys.path:
                sys.path.remove(self.dir)
            self.loop.close()
            shutil.rmtree(self.dir, ignore_errors=True)


_G = None


def _replay(items):
    g = _G
    res = []
    for item in items:
        pre = []
        if isinstance(item, tuple):
            pre, ei = [g.edges[item[0]]], item[1]
        else:
            ei = item
        e = g.edges[ei]
        impl = Impl()
        try:
            hist = []
            for pe in g.path_to(pre[0]["_s"] if pre else e["_s"]) + pre:
                impl.step(pe["act"])
                hist.append(pe["act"])
            got = impl.step(e["act"])
            hist.append(e["act"])
            if e["act"]["n"] == "Message":
                exp = {"wire": e["obs"]["wire"], "escaped": None, "handledBy": list(e["obs"]["handledBy"])}
                if got != exp:
                    res.append({"history": hist, "expected": exp, "observed": got,
                                "differs": sorted(k for k in exp if exp[k] != got.get(k))})
        finally:
            impl.close()
    return res


INVS = ["NeverCostsTheMessage", "ConsistentLoad", "FreshAfterCheck"]


def section(chk: Check, max_edits: int, depth: int, cap_pairs: int = 3000):
    global _G
    cfg = ("SPECIFICATION MSpec\nCONSTANTS MaxEdits = %d Throttle = 2 Depth = %d\n%s"
           % (max_edits, depth, "".join("INVARIANT %s\n" % i for i in INVS)))
    g = Graph(common.export_records(chk, "AddonReload_MBT", cfg, "AddonReload e%d d%d" % (max_edits, depth)))
    chk.cov["tlc_runs"][-1]["invariants"] = INVS
    _G = g
    ids = [i for i in g.reachable_edges() if g.edges[i]["act"]["n"] == "Message"]
    ids += [p for p in g.merge_pairs(cap_pairs) if g.edges[p[1]]["act"]["n"] == "Message"]
    results = common.parallel_map(_replay, common.chunked(ids, common.NCPU * 2))
    chk.count(len(ids))
    chk.cov["traces_validated_against_impl"] += len(ids)
    chk.cov["addonreload_message_edges"] = len(ids)
    for e in g.edges:
        if e["act"]["n"] == "Message" and e["obs"].get("checked") and (e["src"]["memA"] != e["dst"]["memA"] or e["src"]["memH"] != e["dst"]["memH"]):
            chk.nontrivial(("reload", e["_s"]))
    for bads in results:
        for b in bads:
            # `wire`/`escaped` are the message itself being lost or the dispatch raising: that is C07's own
            # statement ("whatever an addon does ... exactly once", "never stops later messages").  Which version
            # of the addon handled it (`handledBy`) is hot-reload semantics outside C07: a growth divergence.
            if set(b["differs"]) & {"wire", "escaped"}:
                chk.violation("B1 addon reload: %s differs from AddonReload specification" % ",".join(b["differs"]),
                              {"kind": "b1-addonreload", "differs": b["differs"]}, b)
            else:
                chk.divergence("AddonReload", "B1 addon reload: %s differs from AddonReload specification" % ",".join(b["differs"]),
                               {"kind": "b1-addonreload", "differs": b["differs"]}, b)
    pick = [e for e in g.edges if e["act"]["n"] == "Message" and e["obs"].get("checked") and e["src"]["memH"] != e["dst"]["memH"]]
    if pick:
        e = pick[0]
        chk.sample({"binding": "B1 addon reload", "path": [p["act"] for p in g.path_to(e["_s"])] + [e["act"]], "expected": e["obs"]})
