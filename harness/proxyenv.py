"""A real in-process proxy endpoint for conformance drivers: real SessionManager, Session,
ProxiedRegion, InterceptingLLUDPProxyProtocol and ProxiedCircuit, a recording transport,
scripted addons and a virtual clock.  No repository hooks are needed."""
from __future__ import annotations

import asyncio
import datetime as real_dt
import types
from typing import Any, Callable, List, Optional

from hippolyzer.lib.base.datatypes import UUID
from hippolyzer.lib.base.message import circuit as base_circuit
from hippolyzer.lib.base.message.message import Block, Message
from hippolyzer.lib.base.message.msgtypes import PacketFlags
from hippolyzer.lib.base.message.udpdeserializer import UDPMessageDeserializer
from hippolyzer.lib.base.message.udpserializer import UDPMessageSerializer
from hippolyzer.lib.base.network.transport import AbstractUDPTransport, Direction, UDPPacket
from hippolyzer.lib.proxy.addons import AddonManager
from hippolyzer.lib.proxy.lludp_proxy import InterceptingLLUDPProxyProtocol
from hippolyzer.lib.proxy.sessions import SessionManager
from hippolyzer.lib.proxy.settings import ProxySettings


class VirtualClock:
    """Stands in for the `dt` module attribute of hippolyzer.lib.base.message.circuit."""

    def __init__(self):
        self._now = real_dt.datetime(2020, 1, 1, 0, 0, 0)
        outer = self

        class _DT(real_dt.datetime):
            @classmethod
            def now(cls, tz=None):
                return outer._now

        self.module = types.SimpleNamespace(datetime=_DT, timedelta=real_dt.timedelta)

    def advance(self, seconds: float):
        self._now = self._now + real_dt.timedelta(seconds=seconds)

    def install(self):
        self._saved = base_circuit.dt
        base_circuit.dt = self.module

    def uninstall(self):
        base_circuit.dt = self._saved


class RecordingTransport(AbstractUDPTransport):
    def __init__(self):
        super().__init__()
        self.packets: List[UDPPacket] = []

    def send_packet(self, packet: UDPPacket) -> None:
        self.packets.append(packet)

    def close(self) -> None:
        pass

    def take(self) -> List[UDPPacket]:
        p, self.packets = self.packets, []
        return p


_SM = None


class ProxyEnv:
    """One viewer association, one session, one region with an open circuit."""
    CLIENT = ("127.0.0.1", 1)
    REGION = ("127.0.0.1", 3)

    def __init__(self, addons: Optional[list] = None, tracker_window: Optional[int] = None,
                 swallow: bool = True, logger=None):
        self.clock = VirtualClock()
        self.clock.install()
        # One SessionManager per process: its constructor creates ~20 multiprocessing semaphores/queues,
        # which serialises badly across 16 replay workers.  All per-scenario state lives in sessions.
        global _SM
        if _SM is None:
            _SM = SessionManager(ProxySettings())
        self.sm = _SM
        self.sm.sessions.clear()
        self.sm.addon_ctx.clear()
        self.sm.pending_leap_clients.clear()
        self.sm.message_logger = logger
        AddonManager.init([], self.sm, addons or [], swallow_addon_exceptions=swallow)
        self.session = self.sm.create_session({
            "session_id": UUID(int=1), "secure_session_id": UUID(int=2), "agent_id": UUID(int=3),
            "circuit_code": 1234, "sim_ip": self.REGION[0], "sim_port": self.REGION[1],
            "region_x": 0, "region_y": 123, "seed_capability": "https://test.localhost:4/foo",
        })
        self.transport = RecordingTransport()
        self.protocol = InterceptingLLUDPProxyProtocol(self.CLIENT, self.sm)
        self.protocol.transport = self.transport
        self.region = self.session.regions[-1]
        self.protocol.session = self.session
        self.protocol.far_to_near_map[self.region.circuit_addr] = self.CLIENT
        self.sm.claim_session(self.session.id)
        self.session.open_circuit(self.CLIENT, self.region.circuit_addr, self.transport)
        self.session.main_region = self.region
        self.circuit = self.region.circuit
        if tracker_window is not None:
            from hippolyzer.lib.proxy.circuit import InjectionTracker
            self.circuit.in_injections = InjectionTracker(0, maxlen=tracker_window)
            self.circuit.out_injections = InjectionTracker(0, maxlen=tracker_window)
        self.ser = UDPMessageSerializer()
        self.deser = UDPMessageDeserializer()

    def close(self):
        try:
            self.protocol.close()
        finally:
            self.clock.uninstall()
            AddonManager.init([], None, [])

    # ---- driving ---------------------------------------------------------------------
    def endpoint_packet(self, msg: Message) -> UDPPacket:
        """A datagram as it arrives from an endpoint (msg.direction OUT = from the viewer)."""
        data = self.ser.serialize(msg)
        if msg.direction == Direction.OUT:
            return UDPPacket(self.CLIENT, self.region.circuit_addr, data, Direction.OUT)
        return UDPPacket(self.region.circuit_addr, self.CLIENT, data, Direction.IN)

    def deliver(self, msg: Message):
        """Run the proxy's real packet path; an exception is what asyncio would log and drop."""
        pkt = self.endpoint_packet(msg)
        try:
            self.protocol.handle_proxied_packet(pkt)
            return None
        except Exception as e:  # noqa
            return type(e).__name__ + ": " + str(e)[:120]

    def emitted(self) -> List[dict]:
        """Decode and drain everything handed to the transport since the last call."""
        out = []
        for p in self.transport.take():
            m = self.deser.deserialize(p.data)
            rec = {
                "dir": "OUT" if p.direction == Direction.OUT else "IN",
                "dst": list(p.dst_addr), "id": m.packet_id, "name": m.name,
                "rel": bool(m.send_flags & PacketFlags.RELIABLE),
                "resent": bool(m.send_flags & PacketFlags.RESENT),
                "ackflag": bool(m.send_flags & PacketFlags.ACK),
                "acks": list(m.acks),
                "pa": [b["ID"] for b in m["Packets"]] if m.name == "PacketAck" else [],
            }
            if m.name == "StartPingCheck":
                rec["oldest"] = m["PingID"]["OldestUnacked"]
            out.append(rec)
        return out


def pump(loop: asyncio.AbstractEventLoop, rounds: int = 3):
    """Run ready callbacks (future done-callbacks etc.) to quiescence."""
    for _ in range(rounds):
        loop.run_until_complete(asyncio.sleep(0))


def ping(direction: Direction, pid: int, reliable=False, acks=(), resent=False) -> Message:
    flags = PacketFlags(0)
    if reliable:
        flags |= PacketFlags.RELIABLE
    if resent:
        flags |= PacketFlags.RESENT
    if acks:
        flags |= PacketFlags.ACK
    return Message("CompletePingCheck", Block("PingID", PingID=pid % 256), packet_id=pid,
                   flags=flags, acks=tuple(acks), direction=direction)


def packet_ack(direction: Direction, pid: int, ids, acks=(), reliable=False, resent=False) -> Message:
    flags = PacketFlags(0)
    if resent:
        flags |= PacketFlags.RESENT
    if acks:
        flags |= PacketFlags.ACK
    if reliable:
        flags |= PacketFlags.RELIABLE
    return Message("PacketAck", *[Block("Packets", ID=i) for i in ids], packet_id=pid, flags=flags,
                   acks=tuple(acks), direction=direction)
