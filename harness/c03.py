"""C03 — zero-coding (ZeroCode.tla, ZeroCodeMachines.tla)."""
from __future__ import annotations

import os

from . import common
from .common import Check, run_tlc, impl_call, SPECS

CAP = 0x3000


def _fns():
    from hippolyzer.lib.base.message.udpserializer import UDPMessageSerializer
    from hippolyzer.lib.base.message.udpdeserializer import UDPMessageDeserializer
    return UDPMessageSerializer.zero_code_compress, UDPMessageDeserializer.zero_code_expand


def to_rl(bs: bytes):
    """Projection: run-length form with zero runs merged, non-zero bytes single."""
    out = []
    i = 0
    n = len(bs)
    while i < n:
        b = bs[i]
        if b:
            out.append([b, 1])
            i += 1
        else:
            j = i
            while j < n and bs[j] == 0:
                j += 1
            out.append([0, j - i])
            i = j
    return out


def from_rl(rl):
    return b"".join(bytes([b]) * n for b, n in rl)


def _again(chk, fn, arg, expected, what, features):
    """Encode and Decode are functions of their argument (ZeroCode.tla has no state): whatever a caller does to the
    buffer an earlier call returned, the next call with the same argument answers the same."""
    st, r1 = impl_call(fn, arg)
    if st != "ok":
        return
    if isinstance(r1, bytearray):
        for i in range(len(r1)):
            r1[i] ^= 0xFF
        r1.extend(b"\x07scribbled")
    st, r2 = impl_call(fn, arg)
    chk.count()
    if st != "ok" or bytes(r2) != expected or (r2 is r1 and isinstance(r1, bytearray)):
        chk.violation(what + " answers differently after the buffer an earlier call returned was edited in place",
                      dict(features, kind=features["kind"] + "-again"),
                      {"arg": list(arg)[:80], "expected": list(expected)[:80], "second_call": repr((st, r2))[:300]})


def _machines(chk: Check, maxlen, dmaxlen):
    comp, expand = _fns()
    consts = "Alpha = {0,1,255} MaxLen = %d DAlpha = {0,1,2,255} DMaxLen = %d Cap = 300" % (maxlen, dmaxlen)
    invs = ["EncIsReference", "RoundTrip", "CanonicalOut", "Bounded", "DecIsReference", "DecBounded",
            "RefuseOnlyBeyondCap", "RefuseWhenUnbounded"]
    cfg = os.path.join(chk.scratch, "zcm.cfg")
    with open(cfg, "w") as f:
        f.write("SPECIFICATION Spec\nCONSTANTS %s\n%s" % (consts, "".join("INVARIANT %s\n" % i for i in invs)))
    res = run_tlc(os.path.join(SPECS, "ZeroCodeMachines.tla"), cfg, workers="auto", scratch=chk.scratch)
    chk.require_model_ok(res, "ZeroCodeMachines len<=%d" % maxlen)
    with open(cfg, "w") as f:
        f.write("SPECIFICATION MSpec\nCONSTANTS %s\n" % consts)
    res = run_tlc(os.path.join(SPECS, "ZeroCode_MBT.tla"), cfg, workers=1, scratch=chk.scratch, heap="8g")
    if not res.ok:
        raise common.MachineryError("ZeroCode_MBT failed:\n" + res.out[-2000:])
    rows = [r for r in res.printed() if "row" in r]
    if len(rows) < 100:
        raise common.MachineryError("ZeroCode_MBT printed only %d rows" % len(rows))
    for r in rows:
        chk.count()
        if r["row"] == "enc":
            inp, enc = bytes(r["inp"]), bytes(r["enc"])
            # first of all, so that the buffer that gets scribbled on is the one a FIRST call returned
            _again(chk, expand, enc, inp, "zero_code_expand", {"kind": "roundtrip-table", "inp": list(inp)})
            _again(chk, comp, inp, enc, "zero_code_compress", {"kind": "enc-table", "inp": list(inp)})
            got = impl_call(lambda: bytes(comp(inp)))
            if got != ("ok", enc):
                chk.violation("zero_code_compress differs from ZeroCode!Encode",
                              {"kind": "enc-table", "inp": list(inp)}, {"inp": list(inp), "spec": list(enc), "impl": repr(got)})
            got = impl_call(lambda: bytes(expand(enc)))
            if got != ("ok", inp):
                chk.violation("zero_code_expand(Encode(inp)) != inp",
                              {"kind": "roundtrip-table", "inp": list(inp)}, {"inp": list(inp), "enc": list(enc), "impl": repr(got)})
            if 0 in inp:
                chk.nontrivial(("enc", inp))
        else:
            enc = bytes(r["enc"])
            got = impl_call(lambda: to_rl(bytes(expand(enc))))
            if got != ("ok", r["rl"]):
                chk.violation("zero_code_expand differs from ZeroCode!DecodeRL",
                              {"kind": "dec-table", "enc": list(enc)}, {"enc": list(enc), "spec_rl": r["rl"], "impl": repr(got)})
            if 0 in enc:
                chk.nontrivial(("dec", enc))
    chk.cov["traces_validated_against_impl"] += len(rows)
    chk.sample({"binding": "B3 table row (spec->code)", "row": rows[len(rows) // 3]})


def _runs(chk: Check, maxrun):
    comp, expand = _fns()
    cfg = os.path.join(chk.scratch, "zr.cfg")
    with open(cfg, "w") as f:
        f.write("SPECIFICATION Spec\nCONSTANTS MaxRun = %d\nINVARIANT RunRoundTrip\nINVARIANT RunCanonical\nINVARIANT RunBounded\n" % maxrun)
    res = run_tlc(os.path.join(SPECS, "ZeroCode_Runs.tla"), cfg, workers=1, scratch=chk.scratch)
    chk.require_model_ok(res, "ZeroCode_Runs 0..%d" % maxrun)
    rows = [r for r in res.printed() if r.get("row") == "run"]
    if len(rows) != 16 * (maxrun + 1):
        raise common.MachineryError("ZeroCode_Runs printed %d rows" % len(rows))
    for r in rows:
        chk.count()
        inp = bytes(r["l"]) + b"\x00" * r["n"] + bytes(r["r"])
        enc = bytes(r["enc"])
        got = impl_call(lambda: bytes(comp(inp)))
        if got != ("ok", enc):
            chk.violation("zero_code_compress differs from ZeroCode!EncodeRL on a zero run",
                          {"kind": "run-enc", "n": r["n"], "l": r["l"], "r": r["r"]}, {"spec": list(enc), "impl": repr(got)})
        got = impl_call(lambda: bytes(expand(enc)))
        if got != ("ok", inp):
            chk.violation("zero_code_expand(EncodeRL(run)) != run",
                          {"kind": "run-roundtrip", "n": r["n"], "l": r["l"], "r": r["r"]}, {"enc": list(enc), "impl": repr(got)[:200]})
        chk.nontrivial(("run", r["n"], tuple(r["l"]), tuple(r["r"])))
    chk.cov["traces_validated_against_impl"] += len(rows)
    chk.sample({"binding": "B3 run row", "row": rows[300 * 16 + 5]})


def _adversarial_encoded(rng, n):
    """Encoded inputs the canonical encoder never produces."""
    out = []
    # expansion just below / at / above the cap, by wrap runs and by FF runs
    for k in (CAP - 2, CAP - 1, CAP, CAP + 1, CAP + 2, CAP + 255, CAP + 256, CAP + 257, CAP + 258, CAP + 600):
        out.append(b"\x00" + b"\x00" * (k // 256) + bytes([k % 256 + 1]) if k % 256 != 255 else b"\x00\xff" * (k // 255))
        q, r = divmod(k, 255)
        out.append(b"\x00\xff" * q + (b"\x00" + bytes([r]) if r else b"") + b"\x07")
        out.append(b"\x01" * 5 + b"\x00\xff" * q + (b"\x00" + bytes([r]) if r else b""))
        # trailing lone zero right at the boundary
        out.append(b"\x00\xff" * q + (b"\x00" + bytes([r]) if r else b"") + b"\x09\x00")
    for k in range(44, 52):   # 00 00.. wrap forms around the cap: 1 + 256*m + c-1
        out.append(b"\x00" + b"\x00" * k)
        out.append(b"\x00" + b"\x00" * k + b"\x05\x06")
        out.append(b"\x03\x00" + b"\x00" * k + b"\xff\x00")
    for _ in range(n):
        ln = rng.choice([1, 2, 3, 5, 8, 13, 40, 120])
        alpha = rng.choice([[0, 1, 2, 255], [0, 0, 0, 7], list(range(256))])
        out.append(bytes(rng.choice(alpha) for _ in range(ln)))
    return out


def _traces(chk: Check, n_rand, n_big):
    comp, expand = _fns()
    rng = chk.rng
    traces = []
    evs = []

    def flush():
        nonlocal evs
        if evs:
            traces.append(evs)
            evs = []
    for i in range(n_rand):
        ln = rng.choice([0, 1, 2, 7, 30, 100, 300]) if i % 4 else rng.randrange(0, 400)
        mode = rng.randrange(4)
        if mode == 0:
            inp = bytes(rng.randrange(256) for _ in range(ln))
        elif mode == 1:
            inp = bytes(rng.choice([0, 0, 0, 1, 255]) for _ in range(ln))
        elif mode == 2:
            inp = b"".join((b"\x00" * rng.choice([1, 2, 254, 255, 256, 257, 509, 510, 511, 512]) if rng.random() < 0.5
                            else bytes([rng.randrange(1, 256)])) for _ in range(max(1, ln // 60)))
        else:
            inp = bytes(rng.choice([0, 255]) for _ in range(ln))
        st, out = impl_call(lambda: bytes(comp(inp)))
        if st != "ok":
            chk.violation("zero_code_compress raised", {"kind": "enc-raise"}, {"inp": list(inp), "exc": out})
            continue
        if len(inp) <= 400:
            evs.append({"ev": "Enc", "inp": list(inp), "out": list(out)})
        else:
            evs.append({"ev": "EncRL", "rl": to_rl(inp), "out": list(out)})
        st, dec = impl_call(lambda: bytes(expand(out)))
        evs.append({"ev": "Dec", "enc": list(out), "res": "ok" if st == "ok" else "refuse",
                    "rl": to_rl(dec) if st == "ok" else []})
        if len(evs) >= 40:
            flush()
    # long inputs up to the cap in RL form (TLC never builds the long sequence)
    # ... first the strings of exactly cap-1 / cap / cap+1 bytes with every kind of ending: an isolated zero, zero runs
    # of length 0, 1, 2 mod 255 and 256, a literal, a literal FF, a zero before a literal
    boundary = []
    for total_ in (CAP - 1, CAP, CAP + 1):
        for tail in ([[0, 1]], [[0, 2]], [[0, 254]], [[0, 255]], [[0, 256]], [[0, 257]], [[0, 510]], [[0, 511]],
                     [[7, 1]], [[255, 1]], [[255, 2]], [[0, 1], [7, 1]], [[0, 255], [255, 1]], [[7, 1], [0, 1]]):
            tl = sum(n for _, n in tail)
            boundary.append([[0, total_ - tl - 1], [5, 1]] + tail)
            boundary.append([[9, 1], [0, total_ - tl - 2], [5, 1]] + tail)
    for i in range(len(boundary) + n_big):
        rl = []
        total = 0
        target = rng.choice([1000, 4096, 8000, CAP - 1, CAP, CAP + 1])
        if i < len(boundary):
            rl, total = boundary[i], target
        while total < target:
            if rng.random() < 0.5:
                n = min(target - total, rng.choice([1, 254, 255, 256, 510, 511, 1100, 3000]))
                rl.append([0, n])
            else:
                n = min(target - total, rng.randrange(1, 4))
                rl.append([rng.randrange(1, 256), n])
            total += n
        inp = from_rl(rl)
        st, out = impl_call(lambda: bytes(comp(inp)))
        if st != "ok":
            chk.violation("zero_code_compress raised", {"kind": "enc-raise"}, {"rl": rl, "exc": out})
            continue
        if len(out) > 600:
            continue
        evs.append({"ev": "EncRL", "rl": rl, "out": list(out)})
        st, dec = impl_call(lambda: bytes(expand(out)))
        evs.append({"ev": "Dec", "enc": list(out), "res": "ok" if st == "ok" else "refuse",
                    "rl": to_rl(dec) if st == "ok" else []})
        flush()
    for enc in _adversarial_encoded(rng, n_rand // 2):
        st, dec = impl_call(lambda: bytes(expand(enc)))
        if st != "ok" and not str(dec).startswith("ValueError"):
            chk.violation("zero_code_expand raised something other than its refusal",
                          {"kind": "dec-raise"}, {"enc": list(enc), "exc": dec})
            continue
        evs.append({"ev": "Dec", "enc": list(enc), "res": "ok" if st == "ok" else "refuse",
                    "rl": to_rl(dec) if st == "ok" else []})
        if len(evs) >= 30:
            flush()
    flush()
    cfg = "SPECIFICATION TraceSpec\nCONSTANTS Cap = %d\nPOSTCONDITION TraceAccepted\nCHECK_DEADLOCK FALSE\n" % CAP
    acc, rej, results = common.validate_traces("ZeroCode_Trace", cfg, traces, chk.scratch, shards=common.NCPU)
    fails = {}
    for r in results:
        chk.add_tlc(r, "ZeroCode_Trace")
        for rec in r.printed():
            if "fail" in rec:
                fails.setdefault(rec["tid"], []).append(rec)
    n_ev = sum(len(t) for t in traces)
    chk.count(n_ev)
    chk.cov["traces_validated_against_impl"] += len(traces)
    for i, t in enumerate(traces):
        for j, e in enumerate(t):
            if e["ev"] == "Dec" and e["res"] == "refuse" or any(x == 0 for x in e.get("inp", e.get("enc", [0]))):
                chk.nontrivial(("tr", i, j))
    for ti, j, ev in rej:
        chk.violation("B3 trace rejected by ZeroCode_Trace", {"kind": "b3-reject", "event": ev.get("ev")}, {"rejected": ev})
    for tid, fl in fails.items():
        # locate the failing record: line numbers are per shard file, so report clause + trace
        chk.violation("B3: %s" % fl[0]["fail"], {"kind": "b3", "clause": fl[0]["fail"]},
                      {"failed_clauses": fl[:5], "trace": [{k: (v if not isinstance(v, list) or len(v) < 80 else v[:80] + ["..."]) for k, v in e.items()} for e in traces[tid][:10]]})
    chk.sample({"binding": "B3 trace (code->spec)", "events": [{k: (v[:24] if isinstance(v, list) else v) for k, v in e.items()} for e in traces[0][:3]]})


def run(chk: Check):
    chk.cov["rule"] = ("spec->code: every string over {00,01,FF} up to the length bound (encoder machine states) and every encoded "
                       "string over {00,01,02,FF} (decoder machine states) and every zero-run 0..1100 in 16 contexts, each replayed "
                       "through the real compress/expand; code->spec: random and adversarial inputs recomputed by TLC. "
                       "non-trivial = input contains a zero byte / is refused.")
    chk.assumptions += ["refusal window: a decoder must decode when the expansion is <= 0x3000 and must refuse when it exceeds 0x3000+256 "
                        "(one input byte adds at most 256); in between either is accepted",
                        "projection to run-length form (to_rl) is trusted"]
    if chk.tier == "quick":
        _machines(chk, 8, 6)
        _runs(chk, 1100)
        _traces(chk, 300, 12)
    else:
        _machines(chk, 12, 8)
        _runs(chk, 1100)
        _traces(chk, 4000, 120)
    chk.cov["exhaustive"] = True
