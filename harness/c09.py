"""C09 — every registered subfield ("pretty") serializer is lossless against the wire (Subfield.tla).

Three bindings, all ending in TLC:
  A  enum / flag adapters on bit sets.  The member tables of the real classes are reflected and handed to
     TLC, which checks the adapter laws on every wire integer of 8/16-bit variables and a bit-pattern family
     of wider ones, and prints the canonical plain-data form of each; every row is replayed into the real
     `serialize` (spec->code), and what the real `deserialize`/`serialize` do with each integer, in both
     forms, is recorded and validated by TLC (code->spec, Subfield_Trace "A" events).
  B  the five-stage contract raw0 -> v0 -> raw1 -> v1 -> raw2 of EVERY live registration x context value
     x {pod, object} x time zones (date fields), recorded as byte strings / canonical-value digests and
     judged by TLC (Subfield_Trace "C" events).
  C  the Block machine (raw value + decoded cache): model-checked, every edge replayed into a real Block.
"""
from __future__ import annotations

import ast
import collections
import dataclasses
import enum
import gc
import hashlib
import json
import os
import re
import time
import uuid

from . import common
from .common import Check, Graph, MachineryError, run_tlc, impl_call, SPECS

MAX_PER_CLASS = 6     # violations reported per (registration, law, mode)
BYTES_INLINE = 300    # longer byte strings travel as digests


# ----------------------------------------------------------------------------------------
# reflection bridge
# ----------------------------------------------------------------------------------------

def _mods():
    import hippolyzer.lib.base.serialization as se
    import hippolyzer.lib.base.templates as templates  # noqa: F401 (fills the registry)
    import hippolyzer.lib.base.datatypes as dt
    from hippolyzer.lib.base.message.message import Block
    from hippolyzer.lib.base.message.template_dict import DEFAULT_TEMPLATE_DICT
    from hippolyzer.lib.base.message.msgtypes import MsgType
    return se, dt, Block, DEFAULT_TEMPLATE_DICT, MsgType


def _int_types(MsgType):
    return {MsgType.MVT_U8: (8, False), MsgType.MVT_S8: (8, True), MsgType.MVT_U16: (16, False),
            MsgType.MVT_S16: (16, True), MsgType.MVT_U32: (32, False), MsgType.MVT_S32: (32, True),
            MsgType.MVT_U64: (64, False), MsgType.MVT_S64: (64, True)}


class Entry:
    """One live registration."""

    def __init__(self, key, ser, var, se, ints):
        self.key = key
        self.name = ".".join(key)
        self.ser = ser
        self.var = var
        self.int_type = ints.get(var.type)          # (w, signed) or None
        self.is_bytes = var.type.name in ("MVT_VARIABLE", "MVT_FIXED")
        self.max_len = {1: 255, 2: 65535}.get(var.size, var.size) if var.type.name == "MVT_VARIABLE" else var.size
        if isinstance(ser, se.IntFlagSubfieldSerializer):
            self.kind, self.cls = "flag", ser._adapter.flag_cls
        elif isinstance(ser, se.IntEnumSubfieldSerializer):
            self.kind, self.cls = "enum", ser._adapter.enum_cls
        else:
            self.kind, self.cls = "other", None
        self.ser_name = ser.__name__ if isinstance(ser, type) else type(ser).__name__ + "(" + self.cls.__name__ + ")"


def registry():
    se, dt, Block, TD, MsgType = _mods()
    ints = _int_types(MsgType)
    live, dead = [], []
    for key, ser in se.SUBFIELD_SERIALIZERS.items():
        tmpl = TD.get_template_by_name(key[0])
        var = None
        if tmpl is not None and key[1] in tmpl.block_map:
            var = tmpl.block_map[key[1]].variable_map.get(key[2])
        if var is None:
            dead.append(".".join(key))
            continue
        e = Entry(key, ser, var, se, ints)
        if e.kind != "other" and e.int_type is None:
            raise MachineryError("enum/flag serializer on a non-integer variable: %s" % e.name)
        if e.int_type is None and not e.is_bytes:
            raise MachineryError("registration on an unexpected wire type %s: %s" % (var.type, e.name))
        live.append(e)
    if len(live) < 150:
        raise MachineryError("only %d live registrations reflected" % len(live))
    return live, dead


def wire_range(w, signed):
    return (-(1 << (w - 1)), (1 << (w - 1)) - 1) if signed else (0, (1 << w) - 1)


def to_bits(n, w, signed):
    """Projection int -> bit positions of the w-bit two's complement pattern; [w] = does not fit."""
    lo, hi = wire_range(w, signed)
    if isinstance(n, bool) or not isinstance(n, int) or not (lo <= n <= hi):
        return [w]
    n &= (1 << w) - 1
    return [b for b in range(w) if n >> b & 1]


def from_bits(bits, w, signed):
    n = 0
    for b in bits:
        n |= 1 << b
    if signed and n >> (w - 1) & 1:
        n -= 1 << w
    return n


def adapters_of(entries):
    """Distinct (class, wire type) adapters -> records for TLC; entry.ai = 1-based index."""
    recs, index = [], {}
    for e in entries:
        if e.kind == "other":
            continue
        w, signed = e.int_type
        k = (e.cls.__module__, e.cls.__qualname__, w, signed)
        if k not in index:
            lo, hi = wire_range(w, signed)
            members = []
            for name, m in e.cls.__members__.items():
                v = int(m)
                ok = lo <= v <= hi
                members.append({"name": name, "bits": to_bits(v, w, signed) if ok else [], "wire": ok})
            if not members:
                raise MachineryError("empty member table for %s" % e.cls)
            recs.append({"id": "%s:%s%d" % (e.cls.__name__, "S" if signed else "U", w), "kind": e.kind,
                         "w": w, "signed": signed, "members": members})
            index[k] = len(recs)
        e.ai = index[k]
    return recs


# ----------------------------------------------------------------------------------------
# canonical values
# ----------------------------------------------------------------------------------------

def canon(v):
    """Deterministic plain tree of a decoded value (forces lazy proxies)."""
    import lazy_object_proxy
    import numpy as np
    import hippolyzer.lib.base.datatypes as dt
    if isinstance(v, lazy_object_proxy.Proxy):
        v = v.__wrapped__
    if v is None or isinstance(v, (bool, str)):
        return repr(v)
    if isinstance(v, enum.Enum):
        return "E%d" % int(v)
    if isinstance(v, int):
        return "I%d" % v
    if isinstance(v, float):
        return "F" + repr(v)
    if isinstance(v, (bytes, bytearray, memoryview)):
        return "B" + bytes(v).hex()
    if isinstance(v, uuid.UUID):
        return "U" + str(v)
    if isinstance(v, np.ndarray):
        return ["N%s%s" % (v.dtype, list(v.shape))] + [canon(x) for x in v.reshape(-1).tolist()]
    if isinstance(v, np.generic):
        return canon(v.item())
    if dataclasses.is_dataclass(v) and not isinstance(v, type):
        return {"D" + type(v).__name__: {f.name: canon(getattr(v, f.name)) for f in dataclasses.fields(v)}}
    if isinstance(v, dict):
        return {"M": {json.dumps(canon(k), sort_keys=True): canon(x) for k, x in v.items()}}
    if isinstance(v, dt.TupleCoord):
        return {"C" + type(v).__name__: [canon(x) for x in tuple(v)]}
    if isinstance(v, (list, tuple)):
        tag = "L" if isinstance(v, list) else ("T" if type(v) is tuple else "T" + type(v).__name__)
        return {tag: [canon(x) for x in v]}
    try:
        items = list(v)        # record classes (TaggedUnion)
        return {"R" + type(v).__name__: [canon(x) for x in items]}
    except TypeError:
        return "?" + type(v).__name__ + ":" + repr(v)


def token(tree):
    return hashlib.sha1(json.dumps(tree, sort_keys=True).encode()).hexdigest()[:20]


def first_diff(a, b, path=""):
    """Path and leaves of the first difference of two canonical trees."""
    if type(a) is not type(b):
        return path, _short(a), _short(b)
    if isinstance(a, dict):
        for k in sorted(set(a) | set(b)):
            if k not in a or k not in b:
                return path + "/" + k, _short(a.get(k)), _short(b.get(k))
            d = first_diff(a[k], b[k], path + "/" + k)
            if d:
                return d
        return None
    if isinstance(a, list):
        if len(a) != len(b):
            return path + "/len", str(len(a)), str(len(b))
        for i, (p, q) in enumerate(zip(a, b)):
            d = first_diff(p, q, path + "/%d" % i)
            if d:
                return d
        return None
    return None if a == b else (path, _short(a), _short(b))


def _short(x):
    s = x if isinstance(x, str) else json.dumps(x, sort_keys=True)
    return s if s is None or len(s) <= 80 else s[:80] + "..."


def has_nonfinite(tree):
    if isinstance(tree, str):
        return tree.startswith("F") and tree[1:].lstrip("-") in ("nan", "inf")
    if isinstance(tree, dict):
        return any(has_nonfinite(v) for v in tree.values())
    if isinstance(tree, list):
        return any(has_nonfinite(v) for v in tree)
    return False


def literal_status(v, tree):
    """Does the printed plain-data form evaluate back, as a literal, to an equal value?"""
    if has_nonfinite(tree):
        return "nonfinite"
    try:
        back = ast.literal_eval(repr(v))
    except Exception:
        return "noeval"
    try:
        return "ok" if back == v and token(canon(back)) == token(tree) else "differs"
    except Exception:
        return "differs"


def wire_bytes(raw):
    """Recorded form of a wire value: ints as 8 two's-complement bytes, byte strings as they are."""
    if isinstance(raw, (bytes, bytearray, memoryview)):
        b = bytes(raw)
    elif isinstance(raw, int) and not isinstance(raw, bool) and -(1 << 63) <= raw < (1 << 64):
        b = b"i" + (raw & ((1 << 72) - 1)).to_bytes(9, "big")
    else:
        b = b"?" + repr(raw).encode()[:64]
    if len(b) <= BYTES_INLINE:
        return {"n": len(b), "d": list(b)}
    return {"n": len(b), "d": hashlib.sha1(b).hexdigest()}


# ----------------------------------------------------------------------------------------
# the five stages against the real serializer
# ----------------------------------------------------------------------------------------

def five_stages(se, ser, block, raw0, pod, want_lit=True):
    """-> (event fields, extras for reporting)."""
    ev = {"d0": "ok", "raw0": wire_bytes(raw0), "e1": "", "d1": "", "e2": "", "v0": "", "v1": "",
          "raw1": {"n": -1, "d": []}, "raw2": {"n": -2, "d": []}, "lit": "na"}
    ex = {}
    try:
        v0 = ser.deserialize(block, raw0, pod=pod)
        if v0 is se.UNSERIALIZABLE:
            ev["d0"] = "unser"
            return ev, ex
        t0 = canon(v0)
    except Exception as e:      # the serializer declines this payload
        ev["d0"] = "declined"
        ex["exc"] = type(e).__name__ + ": " + str(e)[:120]
        return ev, ex
    ev["v0"] = token(t0)
    ex["t0"] = t0
    if pod and want_lit:
        ev["lit"] = literal_status(v0, t0)
    st, raw1 = impl_call(ser.serialize, block, v0)
    if st != "ok":
        ev["e1"] = "raise"
        ex["exc"] = raw1
        return ev, ex
    ev["e1"], ev["raw1"] = "ok", wire_bytes(raw1)
    ex["raw1"] = raw1
    try:
        v1 = ser.deserialize(block, raw1, pod=pod)
        if v1 is se.UNSERIALIZABLE:
            raise ValueError("UNSERIALIZABLE")
        t1 = canon(v1)
    except Exception as e:
        ev["d1"] = "raise"
        ex["exc"] = type(e).__name__ + ": " + str(e)[:120]
        return ev, ex
    ev["d1"], ev["v1"] = "ok", token(t1)
    ex["t1"] = t1
    st, raw2 = impl_call(ser.serialize, block, v1)
    if st != "ok":
        ev["e2"] = "raise"
        ex["exc"] = raw2
        return ev, ex
    ev["e2"], ev["raw2"] = "ok", wire_bytes(raw2)
    ex["raw2"] = raw2
    return ev, ex


# ----------------------------------------------------------------------------------------
# contexts: the sibling fields a serializer looks at
# ----------------------------------------------------------------------------------------

def _sibling_values(e, field, entries_by_key):
    sib = entries_by_key.get((e.key[0], e.key[1], field))
    if sib is not None and sib.kind == "enum":
        vals = sorted({int(m) for m in sib.cls.__members__.values()})
        lo, hi = wire_range(*sib.int_type)
        vals = [v for v in vals if lo <= v <= hi]
        unknown = next(v for v in range(hi, lo, -1) if v not in vals)
        return vals + [unknown]
    if sib is not None and sib.kind == "flag":
        bits = sorted({int(m) for m in sib.cls.__members__.values()})
        return [0] + bits + [bits[0] | bits[-1]]
    return [0, 1, 2, 3]


def contexts(se, Block, e, entries_by_key, sample):
    """All context-field assignments that select a sub-template of this registration."""
    ser = e.ser
    if isinstance(ser, type) and issubclass(ser, se.EnumSwitchedSubfieldSerializer):
        vals = [int(k) for k in ser.TEMPLATES]
        sv = _sibling_values(e, ser.ENUM_FIELD, entries_by_key)
        extra = [v for v in sv if v not in vals][-1:]
        return [{ser.ENUM_FIELD: v} for v in vals + extra]
    if isinstance(ser, type) and issubclass(ser, se.FlagSwitchedSubfieldSerializer):
        bits = [int(k) for k in ser.TEMPLATES]
        vals = set()
        for m in range(1 << len(bits)):
            vals.add(sum(b for i, b in enumerate(bits) if m >> i & 1))
        other = [int(v) for v in _sibling_values(e, ser.FLAG_FIELD, entries_by_key) if int(v) not in bits and int(v)]
        if other:
            vals |= {v | other[0] for v in list(vals)[:4]}
        return [{ser.FLAG_FIELD: v} for v in sorted(vals)]
    # probe: which sibling does it ask for?
    tmpl_vars = set()
    from hippolyzer.lib.base.message.template_dict import DEFAULT_TEMPLATE_DICT as TD
    tmpl_vars = set(TD.get_template_by_name(e.key[0]).block_map[e.key[1]].variable_map)
    ctxs = [{}]
    for _ in range(3):
        blk = make_block(Block, e, ctxs[0])
        st, r = impl_call(ser.deserialize, blk, sample, pod=True)
        if st == "ok":
            break
        names = [n for n in re.findall(r"'(\w+)'", r) if n in tmpl_vars and n != e.key[2] and n not in ctxs[0]]
        if not names:
            break
        vals = _sibling_values(e, names[0], entries_by_key)
        ctxs = [dict(c, **{names[0]: v}) for c in ctxs for v in vals][:64]
    return ctxs


def make_block(Block, e, ctx):
    b = Block(e.key[1], **ctx)
    b.message_name = e.key[0]
    return b


# ----------------------------------------------------------------------------------------
# wire values to try
# ----------------------------------------------------------------------------------------

def int_family(rng, w, signed, n_random, extra=()):
    lo, hi = wire_range(w, signed)
    if w <= 16:
        return list(range(lo, hi + 1))
    vals = {lo, lo + 1, -1 if signed else hi, 0, 1, 2, hi, hi - 1}
    for b in range(w):
        vals.add(from_bits([b], w, signed))
        vals.add(from_bits([b, w - 1], w, signed))
    for v in extra:
        for d in (-1, 0, 1):
            if lo <= v + d <= hi:
                vals.add(v + d)
    for _ in range(n_random):
        k = rng.choice([w, w, 31, 16, 8])
        v = rng.getrandbits(k)
        if rng.random() < 0.5:
            v &= rng.getrandbits(w)
        vals.add(from_bits(to_bits(v & ((1 << w) - 1), w, False), w, signed))
    return sorted(vals)


def date_values(rng, w, signed, mult, n_random):
    """Epoch values around DST switches of America/New_York, sub-second parts, ends of the range."""
    lo, hi = wire_range(w, signed)
    secs = {0, 1, 86399, 86400, 951782400, 1583020800, 2147483647, 2147483648, 4102444800, 253402300799, 253402300800}
    for base in (1699160400, 1678604400, 1667714400, 1710054000, 1730613600, 57722400, 120636000):
        for d in (-3601, -3600, -1800, -1, 0, 1, 1799, 1800, 3599, 3600, 5400, 7199, 7200, 7201):
            secs.add(base + d)
    for _ in range(n_random):
        secs.add(rng.randrange(0, 1 << 32))
        secs.add(rng.randrange(0, 1 << 31))
    vals = set()
    for s in secs:
        if mult == 1:
            vals.add(s)
        else:
            vals.add(s * mult)
            for _ in range(3):
                vals.add(s * mult + rng.randrange(mult))
            vals.add(s * mult + mult - 1)
            vals.add(s * mult + 1)
    if signed:
        vals |= {-v for v in list(vals)[:40]} | {-1, lo}
    vals |= {hi, hi - 1, lo}
    return sorted(v for v in vals if lo <= v <= hi)


_SEEDS = None


def test_seeds():
    """Byte literals of the repository's own tests, and the registered variables of the datagrams
    among them: a seed corpus (inputs only)."""
    global _SEEDS
    if _SEEDS is not None:
        return _SEEDS
    lits = set()
    root = os.path.join(common.REPO, "tests")
    for dp, _, fns in sorted(os.walk(root)):
        for fn in sorted(fns):
            if not fn.endswith(".py"):
                continue
            try:
                tree = ast.parse(open(os.path.join(dp, fn), "rb").read())
            except Exception:
                continue
            for node in ast.walk(tree):
                if isinstance(node, ast.Constant) and isinstance(node.value, bytes) and 2 <= len(node.value) <= 4096:
                    lits.add(node.value)
    by_key = collections.defaultdict(set)
    try:
        from hippolyzer.lib.base.message.udpdeserializer import UDPMessageDeserializer
        from hippolyzer.lib.base.settings import Settings
        settings = Settings()
        settings.ENABLE_DEFERRED_PACKET_PARSING = False
        deser = UDPMessageDeserializer(settings=settings)
        for b in sorted(lits):
            st, msg = impl_call(deser.deserialize, b)
            if st != "ok":
                continue
            try:
                for blocks in msg.blocks.values():
                    for blk in blocks:
                        for var, val in blk.vars.items():
                            if isinstance(val, bytes):
                                by_key[(msg.name, blk.name, var)].add(val)
            except Exception:
                continue
    except Exception:
        pass
    _SEEDS = (sorted(lits), {k: sorted(v) for k, v in by_key.items()})
    return _SEEDS


def spec_sizes(se, ser):
    """Fixed sizes of the (sub)templates of a serializer, found by walking its spec objects."""
    roots = []
    for attr in ("TEMPLATE", "TEMPLATES", "ADAPTER"):
        v = getattr(ser, attr, None)
        if v is not None:
            roots.append(v)
    seen, sizes, todo = set(), set(), list(roots)
    while todo and len(seen) < 4000:
        o = todo.pop()
        if id(o) in seen:
            continue
        seen.add(id(o))
        if isinstance(o, se.ForwardSerializable):
            o._ensure_evaled()
        if isinstance(o, (se.SerializableBase,)) or (isinstance(o, type) and issubclass(o, se.SerializableBase)):
            st, n = impl_call(o.calc_size)
            if st == "ok" and isinstance(n, int) and 0 < n <= 2048:
                sizes.add(n)
        if isinstance(o, dict):
            todo.extend(o.values())
        elif isinstance(o, (list, tuple)):
            todo.extend(o)
        elif isinstance(o, se.SerializableBase):
            for r in gc.get_referents(o):
                if isinstance(r, (dict, list, tuple, se.SerializableBase)) or (isinstance(r, type) and issubclass(r, se.SerializableBase)):
                    todo.append(r)
    return sorted(sizes)


INTERESTING = [0x00, 0x01, 0x02, 0x7f, 0x80, 0x81, 0xfe, 0xff, 0x10, 0x20, 0x40, 0x30, 0x41]


def fuzz_payloads(rng, se, e, block, attempts, keep):
    """Byte payloads the serializer ACCEPTS (plain-data decode does not raise), by seeds, template sizes and mutation.
    -> (accepted payloads, a few declined ones, number of attempts)"""
    ser = e.ser
    sizes = spec_sizes(se, ser)
    lits, by_key = test_seeds()
    seeds = list(by_key.get(e.key, []))
    maxlen = min(e.max_len or 1024, 1400)
    pool, declined, tried, both = [], [], set(), set()

    def offer(p):
        p = bytes(p[:maxlen])
        if p in tried:
            return False
        tried.add(p)
        st, v = impl_call(ser.deserialize, block, p, pod=True)
        if st == "ok" and v is not se.UNSERIALIZABLE:
            st, _ = impl_call(canon, v)
        if st == "ok" and v is not se.UNSERIALIZABLE:
            pool.append(p)
            st2, v2 = impl_call(ser.deserialize, block, p, pod=False)
            if st2 == "ok" and v2 is not se.UNSERIALIZABLE and impl_call(canon, v2)[0] == "ok":
                both.add(p)
            return True
        if len(declined) < 3 or (len(declined) < 12 and rng.random() < 0.02):
            declined.append(p)
        return False
    for s in seeds:
        offer(s)
    offer(b"")
    for s in lits:
        if len(pool) > keep // 2:
            break
        offer(s)
    lens = sorted(set(sizes + [2 * s for s in sizes if 2 * s <= maxlen] + [3 * s for s in sizes if 3 * s <= maxlen]
                      + [s + 1 for s in sizes] + [0, 1, 2, 3, 4, 8, 12, 16, 17, 20, 24, 32, 36, 48, 64, 76, 100, 128, 256, 512, 1024]))
    lens = [n for n in lens if n <= maxlen] or [0]
    alphabets = [[0], [0, 1, 255], list(range(256)), [0, 0, 0, 1, 2, 3, 65, 0x80], [0, 0x80, 0xff, 0x7f]]
    # every candidate length once with zeros and once with a pattern, before anything random
    for n in lens:
        offer(bytes(n))
        offer(bytes((7 * i + 1) & 0xff for i in range(n)))
    # which lengths does it take at all?  (fixed-size forms that no sub-spec size adds up to)
    for n in range(0, min(maxlen, 320) + 1):
        if n not in lens and offer(bytes(n)):
            lens.append(n)
            offer(bytes((7 * i + 1) & 0xff for i in range(n)))
    for i in range(attempts):
        if len(pool) >= keep * 4:
            break
        mode = rng.random()
        if pool and mode < 0.55:
            p = bytearray(rng.choice(pool))
            for _ in range(rng.choice([1, 1, 1, 2, 3, 6])):
                op = rng.randrange(7)
                if op == 0 and p:
                    p[rng.randrange(len(p))] = rng.choice(INTERESTING)
                elif op == 1 and p:
                    p[rng.randrange(len(p))] = rng.randrange(256)
                elif op == 2 and p:
                    i0 = rng.randrange(len(p))
                    p[i0] ^= 1 << rng.randrange(8)
                elif op == 3 and len(p) >= 2:
                    i0 = rng.randrange(len(p) - 1)
                    p[i0:i0 + 2] = bytes(rng.choice([(0, 0x80), (0xff, 0x7f), (0, 0), (0xff, 0xff), (1, 0), (0x80, 0)]))
                elif op == 4 and p:
                    k = rng.choice(sizes) if sizes and rng.random() < 0.5 else rng.randrange(1, 9)
                    i0 = rng.randrange(len(p))
                    p[i0:i0] = p[i0:i0 + k] or bytes(k)
                elif op == 5 and p:
                    k = rng.choice(sizes) if sizes and rng.random() < 0.5 else rng.randrange(1, 9)
                    i0 = rng.randrange(len(p))
                    del p[i0:i0 + k]
                elif op == 6 and len(pool) > 1:
                    q = rng.choice(pool)
                    c = rng.randrange(len(p) + 1)
                    p = p[:c] + bytearray(q[min(c, len(q)):])
            offer(p)
        else:
            n = rng.choice(lens) if mode < 0.95 else rng.randrange(0, min(maxlen, 200) + 1)
            a = rng.choice(alphabets)
            offer(bytes(rng.choice(a) for _ in range(n)))
    # keep a spread: one payload of every accepted length first, then a deterministic sample of the rest
    pool = sorted(set(pool), key=lambda p: (len(p), p))
    if len(pool) > keep:
        reps, seen_len = [], set()
        if len(both) * 4 < len(pool):
            # few payloads are also accepted in object form: those go first
            reps = sorted(both, key=lambda p: (len(p), p))[:keep // 4]
        for p in pool:
            if len(p) not in seen_len and p not in reps:
                seen_len.add(len(p))
                reps.append(p)
        if len(reps) > keep // 2:
            reps = [reps[i] for i in sorted(rng.sample(range(len(reps)), keep // 2))]
        rest = [p for p in pool if p not in set(reps)]
        more = [rest[i] for i in sorted(rng.sample(range(len(rest)), min(len(rest), keep - len(reps))))]
        pool = sorted(reps + more, key=lambda p: (len(p), p))
    return pool, declined, len(tried)


# ----------------------------------------------------------------------------------------
# value-level variants: payloads the serializer itself produces from edited decoded values
# ----------------------------------------------------------------------------------------

# face sets for texture-entry style exception dictionaries: one-, two-, three- ... byte face bit fields
# (7 faces per byte), the faces either side of the documented maximum (45) and the highest the encoding can name
FACESETS = [(14,), (19, 20), (21,), (28,), (35,), (42,), (44,), (45,), (46,), (63,), (13, 14), (0, 14, 21),
            (5, 44, 63), (20, 21, 22), (7,), (6, 7)]
FLOAT_EDITS = [-0.0, 0.0]


def _unwrap(v):
    import lazy_object_proxy
    return v.__wrapped__ if isinstance(v, lazy_object_proxy.Proxy) else v


def _children(v):
    """-> list of (key, child) of a decoded value node, [] for leaves"""
    import hippolyzer.lib.base.datatypes as dt
    v = _unwrap(v)
    if isinstance(v, dict):
        return list(v.items())
    if isinstance(v, dt.TupleCoord):
        return list(enumerate(tuple(v)))
    if isinstance(v, (list, tuple)):
        return list(enumerate(v))
    if dataclasses.is_dataclass(v) and not isinstance(v, type):
        return [(f.name, getattr(v, f.name)) for f in dataclasses.fields(v)]
    if isinstance(getattr(type(v), "__fields__", None), tuple):      # other record classes (TaggedUnion)
        return [(n, getattr(v, n)) for n in type(v).__fields__]
    return []


def _replace(v, path, new):
    """copy of v with the node at `path` replaced (constructors of coordinate classes are NOT re-run on the new leaf)"""
    import copy
    import hippolyzer.lib.base.datatypes as dt
    v = _unwrap(v)
    if not path:
        return new
    k, rest = path[0], path[1:]
    if isinstance(v, dict):
        c = copy.copy(v)
        c[k] = _replace(v[k], rest, new)
        return c
    if isinstance(v, dt.TupleCoord):
        c = type(v)(*v)
        setattr(c, type(v).__fields__[k], _replace(tuple(v)[k], rest, new))
        return c
    if isinstance(v, list):
        c = list(v)
        c[k] = _replace(v[k], rest, new)
        return c
    if isinstance(v, tuple):
        items = list(v)
        items[k] = _replace(v[k], rest, new)
        return tuple(items) if type(v) is tuple else type(v)(*items)
    c = copy.copy(v)
    setattr(c, k, _replace(getattr(v, k), rest, new))
    return c


def value_variants(v, cap):
    """Edited copies of a decoded value: every float leaf set to -0.0 / +0.0 (the two sides of a zero midpoint
    of a quantised component, and the F32 negative zero), and every default+exceptions dictionary
    ({None: default, (faces...): value}) given one more exception for each face set of FACESETS."""
    import copy
    floats, exdicts = [], []

    def walk(node, path, depth):
        node = _unwrap(node)
        if depth > 8 or len(floats) + len(exdicts) > 400:
            return
        if isinstance(node, float):
            floats.append(path)
            return
        if isinstance(node, dict) and None in node and all(k is None or (isinstance(k, tuple) and all(isinstance(i, int) for i in k)) for k in node):
            exdicts.append(path)
        for k, child in _children(node):
            walk(child, path + (k,), depth + 1)
    walk(v, (), 0)
    out = []
    for path in exdicts:
        node = _unwrap(v)
        for k in path:
            node = dict(_children(node))[k]
        node = _unwrap(node)
        for fs in FACESETS:
            if fs in node:
                continue
            c = copy.copy(node)
            c[fs] = copy.deepcopy(node[None])
            out.append(("faces%s@%s" % (list(fs), "/".join(map(str, path))), _replace(v, path, c)))
    for path in floats:
        for x in FLOAT_EDITS:
            out.append(("float%r@%s" % (x, "/".join(map(str, path))), _replace(v, path, x)))
    if len(out) > cap:
        step = len(out) / float(cap)
        out = [out[int(i * step)] for i in range(cap)]
    return out


# ----------------------------------------------------------------------------------------
# Part A
# ----------------------------------------------------------------------------------------

def _run_adapters_model(chk: Check, recs, quick):
    """TLC: adapter laws on every (adapter, wire integer) + canonical plain-data table."""
    d = os.path.join(chk.scratch, "sfA")
    os.makedirs(d, exist_ok=True)
    # 16-bit adapters dominate the state count: shard them apart from the rest
    big = [i for i, r in enumerate(recs) if 8 < r["w"] <= 16]
    rest = [i for i, r in enumerate(recs) if i not in big]
    groups = [[i] for i in big] + [g for g in common.chunked(rest, 4) if g]
    import concurrent.futures as cf

    def one(arg):
        no, idxs = arg
        dd = os.path.join(d, "g%d" % no)
        os.makedirs(dd, exist_ok=True)
        with open(os.path.join(dd, "adapters.json"), "w") as f:
            json.dump([recs[i] for i in idxs], f)
        cfg = os.path.join(dd, "Subfield_MBT.cfg")
        with open(cfg, "w") as f:
            f.write("SPECIFICATION MASpec\nCONSTANTS Raws = {0}\nINVARIANT ATypeOK\nINVARIANT FlagLossless\n"
                    "INVARIANT FlagKeepsUnknown\nINVARIANT EnumLossless\n")
        return run_tlc(os.path.join(SPECS, "Subfield_MBT.tla"), cfg, workers=1, scratch=dd,
                       env={"SUBFIELD_ADAPTERS": os.path.join(dd, "adapters.json")}, heap="3g")
    with cf.ThreadPoolExecutor(max_workers=min(8, len(groups))) as ex:
        results = list(ex.map(one, enumerate(groups)))
    rows = collections.defaultdict(list)      # global adapter index (1-based) -> rows
    for idxs, res in zip(groups, results):
        chk.add_tlc(res, "Subfield A %d adapter(s)" % len(idxs))
        if not res.ok:
            cex = res.counterexample()
            m = re.findall(r"/\\ ai = (\d+)", cex)
            aid = recs[idxs[int(m[-1]) - 1]]["id"] if m and int(m[-1]) <= len(idxs) else "?"
            chk.violation("model: %s violated for adapter %s" % (",".join(res.violated) or "error", aid),
                          {"kind": "model", "violated": res.violated, "adapter": aid}, {"tlc": cex})
            continue
        for line in res.out.splitlines():
            if line.startswith('"{'):
                row = json.loads(json.loads(line))["row"]
                rows[idxs[row["a"] - 1] + 1].append(row)
    return rows


_A = {}     # shared with forked workers


def _adapter_job(ei):
    """One registration: spec->code encode replay of the canonical rows, and recording of the real
    decode/encode on every wire integer of its family, in both forms."""
    se = _A["se"]
    e = _A["entries"][ei]
    rows = _A["rows"].get(e.ai, [])
    w, signed = e.int_type
    ser = e.ser
    bad, n = [], 0
    xs = []
    for row in rows:
        x = from_bits(row["x"], w, signed)
        xs.append(x)
        n += 1
        if e.kind == "flag":
            rest = from_bits(row["rest"], w, signed)
            pod_in = tuple(sorted(row["names"])) + ((rest,) if row["rest"] else ())
            st, out = impl_call(ser.serialize, None, pod_in)
            if st != "ok" or to_bits(out if st == "ok" else None, w, signed) != sorted(row["x"]):
                bad.append(("encode-canonical", x, {"pod": repr(pod_in), "serialize": repr(out), "spec": x}))
        elif row["ename"]:
            st, out = impl_call(ser.serialize, None, row["ename"])
            if st != "ok" or to_bits(out if st == "ok" else None, w, signed) != sorted(row["x"]):
                bad.append(("encode-canonical", x, {"pod": row["ename"], "serialize": repr(out), "spec": x}))
    fam = sorted(set(xs) | set(_A["extra"].get(ei, [])))
    if _A.get("quick") and w == 16:
        # quick tier: the model and the encode replay above walk all 65,536 integers; the recording of the
        # real decode is thinned to the neighbourhood of zero, of the ends and of every member, plus every 16th
        near = {0, fam[0], fam[-1]} | {int(m) for m in e.cls.__members__.values()}
        fam = [x for i, x in enumerate(fam) if i % 16 == 0 or any(abs(x - c) <= 40 for c in near)]
    events = []
    for mode in ("pod", "obj"):
        samples = []
        for x in fam:
            s = {"x": to_bits(x, w, signed), "d": "ok", "n": [], "r": [], "e": [w + 1], "l": True}
            st, v = impl_call(ser.deserialize, None, x, pod=(mode == "pod"))
            if st != "ok":
                s["d"] = "declined"
            elif v is se.UNSERIALIZABLE:
                s["d"] = "unser"
            else:
                if mode == "pod":
                    items = list(v) if isinstance(v, tuple) else [v]
                    ints = 0
                    for it in items:
                        if isinstance(it, str):
                            s["n"].append(it)
                        elif isinstance(it, int) and not isinstance(it, bool):
                            ints |= it
                        else:
                            s["n"].append("<%s>" % type(it).__name__)
                    if ints or not s["n"]:
                        s["r"] = to_bits(ints, w, signed)
                    st2, back = impl_call(lambda: ast.literal_eval(repr(v)))
                    s["l"] = bool(st2 == "ok" and back == v and type(back) is type(v))
                else:
                    s["r"] = to_bits(int(v), w, signed) if isinstance(v, int) else [w]
                st, out = impl_call(ser.serialize, None, v)
                if st == "ok":
                    s["e"] = to_bits(int(out), w, signed) if isinstance(out, int) and not isinstance(out, bool) else [w]
            samples.append(s)
            n += 1
        for i in range(0, len(samples), 512):
            events.append({"ev": "A", "a": e.ai, "mode": mode, "s": samples[i:i + 512], "_e": ei, "_x0": i})
    return ei, n, bad, events, fam


# ----------------------------------------------------------------------------------------
# Part B
# ----------------------------------------------------------------------------------------

def _tz(name):
    os.environ["TZ"] = name
    time.tzset()


def _contract_events(chk: Check, entries, quick):
    se, dt, Block, TD, MsgType = _mods()
    rng = chk.rng
    by_key = {e.key: e for e in entries}
    events, extras = [], []
    stats = collections.OrderedDict()
    n_int_random = 40 if quick else 600
    attempts = 1500 if quick else 30000
    keep = 50 if quick else 1200
    walked = set()
    n_bases = 3 if quick else 10
    n_variants = 260 if quick else 3000

    def record(e, ctx, mode, org, raw0, tz=None):
        blk = make_block(Block, e, ctx)
        ev, ex = five_stages(se, e.ser, blk, raw0, pod=(mode == "pod"))
        ev.update(ev="C", org=org, k=e.name)
        events.append(ev)
        ex.update(e=e, ctx=ctx, mode=mode, raw0=raw0, tz=tz, org=org)
        extras.append(ex)
        st = stats.setdefault(e.name, collections.Counter())
        st[mode + ":" + ev["d0"]] += 1
        if ev["d0"] == "ok":
            chk.nontrivial(("C", e.name, json.dumps(ctx, sort_keys=True), mode, tz, hashlib.sha1(repr(raw0).encode()).hexdigest()[:12]))

    for e in entries:
        ser = e.ser
        is_date = "Date" in e.ser_name or "Date" in type(getattr(ser, "ADAPTER", None)).__name__
        if e.int_type is not None:
            w, signed = e.int_type
            sample = 1
        else:
            sample = b"\x00" * 8
        ctxs = contexts(se, Block, e, by_key, sample) if e.kind == "other" else [{}]
        e.ctxs = ctxs
        if e.int_type is not None:
            if e.kind != "other":
                # Part A judges every integer of the family; here a sample goes through the generic contract too
                vals = int_family(rng, w, signed, 12 if quick else 60, extra=[int(m) for m in e.cls.__members__.values()])
                vals = sorted(set(rng.sample(vals, min(len(vals), 24 if quick else 400))) | {vals[0], vals[-1], 0})
            elif is_date:
                mult = getattr(ser.ADAPTER, "_multiplier", 1)
                vals = date_values(rng, w, signed, mult, 30 if quick else 1500)
            else:
                vals = int_family(rng, w, signed, n_int_random)
                if w > 8 and (quick or e.ser_name in walked):
                    # thorough walks all 65,536 integers once per serializer class
                    vals = sorted(set(rng.sample(vals, min(len(vals), 1024 if quick else 512))) | {vals[0], vals[-1], 0})
                walked.add(e.ser_name)
            if len(ctxs) > 1 and len(vals) > 4096:
                vals = sorted(set(rng.sample(vals, 4096)))
            for tz in (("UTC", "America/New_York") if is_date else (None,)):
                if tz:
                    _tz(tz)
                for ctx in ctxs:
                    for v in vals:
                        for mode in ("pod", "obj"):
                            record(e, ctx, mode, "wire", v, tz)
            if is_date:
                _tz("UTC")
        else:
            per_ctx_attempts = max(200, attempts // max(1, len(ctxs)))
            per_ctx_keep = max(12, keep // max(1, len(ctxs)))
            seeds_of_key = set(test_seeds()[1].get(e.key, []))
            for ctx in ctxs:
                blk = make_block(Block, e, ctx)
                pool, declined, tried = fuzz_payloads(rng, se, e, blk, per_ctx_attempts, per_ctx_keep)
                st = stats.setdefault(e.name, collections.Counter())
                st["tried"] += tried
                for p in pool:
                    for mode in ("pod", "obj"):
                        record(e, ctx, mode, "fuzz", p)
                for p in declined[:4]:
                    record(e, ctx, "pod", "fuzz", p)
                # what the serializer itself produced must survive byte for byte
                selfmade = []
                for ex in extras[-(2 * len(pool) + 4):]:
                    r1 = ex.get("raw1")
                    if isinstance(r1, (bytes, bytearray)) and bytes(r1) not in selfmade and ex["e"] is e and ex["ctx"] is ctx:
                        selfmade.append(bytes(r1))
                for p in selfmade[:per_ctx_keep]:
                    for mode in ("pod", "obj"):
                        record(e, ctx, mode, "self", p)
                # ... and so must what it produces from edited values: signed zeros in every float component,
                # exceptions for high faces in every default+exceptions dictionary
                bases, seen_len = [], set()
                for p in sorted(pool, key=lambda q: (q not in seeds_of_key, len(q))):
                    if p and len(p) not in seen_len:
                        seen_len.add(len(p))
                        bases.append(p)
                bases = bases[:n_bases]
                made = set()
                for p in bases:
                    for mode in ("pod", "obj"):
                        st0, v = impl_call(e.ser.deserialize, blk, p, pod=(mode == "pod"))
                        if st0 != "ok" or v is se.UNSERIALIZABLE:
                            continue
                        st0, variants = impl_call(value_variants, v, n_variants)
                        if st0 != "ok":
                            continue
                        for label, v2 in variants:
                            st1, raw = impl_call(e.ser.serialize, blk, v2)
                            if st1 != "ok" or not isinstance(raw, (bytes, bytearray)) or (mode, bytes(raw)) in made:
                                continue
                            if e.max_len and len(raw) > e.max_len:
                                continue
                            made.add((mode, bytes(raw)))
                            record(e, ctx, mode, "self", bytes(raw))
                            extras[-1]["edit"] = label
                            st["edited"] += 1
    return events, extras, stats


def _report_contract_fail(chk, law, ev, ex, counts):
    e = ex["e"]
    feat = {"kind": "contract", "law": law, "key": e.name, "ser": e.ser_name, "mode": ex["mode"], "org": ex["org"]}
    if ex.get("tz"):
        feat["tz"] = ex["tz"]
    if e.kind != "other":
        feat["cls"] = e.kind
    if e.int_type is not None and isinstance(ex["raw0"], int):
        feat["signed"], feat["negative"] = e.int_type[1], ex["raw0"] < 0
    ad = getattr(e.ser, "ADAPTER", None)
    if ad is not None:
        feat["adapter"] = type(ad).__name__
    if ex["ctx"]:
        feat["ctx"] = {k: int(v) for k, v in ex["ctx"].items()}
    detail = {"raw0": ex["raw0"].hex() if isinstance(ex["raw0"], (bytes, bytearray)) else ex["raw0"], "event": {k: v for k, v in ev.items() if k not in ("raw0", "raw1", "raw2")}}
    for k in ("raw1", "raw2"):
        if k in ex:
            detail[k] = ex[k].hex() if isinstance(ex[k], (bytes, bytearray)) else repr(ex[k])
    if "exc" in ex:
        detail["exception"] = ex["exc"]
        feat["exc"] = str(ex["exc"]).split(":")[0]
    if law == "C.same-value" and "t0" in ex and "t1" in ex:
        d = first_diff(ex["t0"], ex["t1"])
        if d:
            feat["path"], feat["from"], feat["to"] = re.sub(r"/\d+", "/#", d[0]), d[1], d[2]
    if law in ("C.byte-exact", "C.fixed-point") and isinstance(ex["raw0"], int) and isinstance(ex.get("raw1"), int):
        feat["delta"] = ex["raw1"] - ex["raw0"] if law == "C.byte-exact" else ex.get("raw2", 0) - ex["raw1"]
    if "t0" in ex:
        detail["v0"] = _short(ex["t0"])
    if ex.get("edit"):
        detail["produced_from"] = "decoded value edited: " + ex["edit"]
        feat["edit"] = ex["edit"].split("@")[0].split("[")[0].rstrip("-0.")
    ck = (e.name, law, ex["mode"], ex.get("tz"), feat.get("path"), feat.get("delta"), feat.get("exc"))
    counts[ck] += 1
    if counts[ck] <= MAX_PER_CLASS:
        chk.violation("%s %s (%s form%s): %s" % (e.name, e.ser_name, ex["mode"], ", TZ=" + ex["tz"] if ex.get("tz") else "", law), feat, detail)


# ----------------------------------------------------------------------------------------
# Part C
# ----------------------------------------------------------------------------------------

_C = {}


def _denote(cls, v):
    """Projection of a decoded flag value (object or plain-data) to the integer it denotes."""
    if isinstance(v, int):
        return int(v)
    n = 0
    for it in v:
        n |= int(cls[it]) if isinstance(it, str) else int(it)
    return n


def _block_apply(blk, var, act, pods, Pretty):
    n = act["n"]
    if n == "SetRaw":
        return impl_call(blk.__setitem__, var, act["r"])
    if n == "Deser":
        return impl_call(blk.deserialize_var, var)
    if n == "DeserNoCopy":
        return impl_call(blk.deserialize_var, var, False)
    if n == "SerVar":
        return impl_call(blk.serialize_var, var, pods[act["r"]])
    if n == "SetPretty":
        return impl_call(blk.__setitem__, var, Pretty(pods[act["r"]]))
    if n == "Invalidate":
        return impl_call(blk.invalidate_caches)
    raise MachineryError("unknown action %r" % (act,))


def _block_replay(edge_ids):
    g, e, pods, Block, Pretty = _C["g"], _C["e"], _C["pods"], _C["Block"], _C["Pretty"]
    var = e.key[2]
    out, n = [], 0
    for ei in edge_ids:
        edge = g.edges[ei]
        path = g.path_to(edge["_s"])
        init = g.states[path[0]["_s"] if path else edge["_s"]]
        for variant in (0, 1):       # the same abstract step through the two equivalent entry points
            blk = make_block(Block, e, {})
            blk[var] = init["raw"]
            hist = [{"n": "SetRaw", "r": init["raw"]}]
            bad = None
            for pe in path + [edge]:
                act = dict(pe["act"])
                if variant and act["n"] == "SerVar":
                    act["n"] = "SetPretty"
                if variant and act["n"] == "Deser":
                    act["n"] = "DeserNoCopy"
                st, r = _block_apply(blk, var, act, pods, Pretty)
                hist.append(act)
                if st != "ok":
                    bad = ("action raised", act, r)
                    break
                if act["n"].startswith("Deser"):
                    got = impl_call(_denote, e.cls, r)
                    n += 1
                    if got != ("ok", pe["obs"]["answer"]):
                        bad = ("deserialize_var answered a value that is not the current raw value", pe["obs"]["answer"], repr(r))
                        break
            if bad is None:
                obs = edge["obs"]
                n += 2
                st, rawv = impl_call(blk.__getitem__, var)
                if (st, rawv) != ("ok", obs["raw"]) or type(rawv) is not int:
                    bad = ("stored wire value", obs["raw"], repr(rawv))
                else:
                    st, r = impl_call(blk.deserialize_var, var)
                    got = impl_call(_denote, e.cls, r) if st == "ok" else (st, r)
                    if got != ("ok", obs["answer"]):
                        bad = ("deserialize_var after the step", obs["answer"], repr(r))
            if bad:
                out.append({"history": hist, "mismatch": bad})
    return n, out


def _block_machine(chk: Check, entries, rows_by_ai):
    se, dt, Block, TD, MsgType = _mods()
    e = next((x for x in entries if x.key == ("AgentUpdate", "AgentData", "State")), None) or \
        next(x for x in entries if x.kind == "flag" and x.int_type == (8, False))
    members = sorted(int(m) for m in e.cls.__members__.values())
    raws = sorted({0, 1, members[0], members[-1], members[0] | members[-1], members[0] | members[-1] | 1})
    consts = "CONSTANTS Raws = {%s}\n" % ", ".join(map(str, raws))
    d = os.path.join(chk.scratch, "sfC")
    os.makedirs(d, exist_ok=True)
    with open(os.path.join(d, "adapters.json"), "w") as f:
        json.dump([{"id": "x", "kind": "flag", "w": 8, "signed": False, "members": [{"name": "a", "bits": [0], "wire": True}]}], f)
    os.environ["SUBFIELD_ADAPTERS"] = os.path.join(d, "adapters.json")
    try:
        common.model_check(chk, "Subfield", "SPECIFICATION BSpec\n" + consts + "INVARIANT BTypeOK\nINVARIANT CacheCoherent\n",
                           "Subfield Block machine", workers=2)
        recs = common.export_records(chk, "Subfield_MBT", "SPECIFICATION MBSpec\n" + consts, "Subfield Block machine")
    finally:
        os.environ.pop("SUBFIELD_ADAPTERS", None)
    g = Graph(recs)
    # plain-data values for SerVar come from the TLC table of this adapter (canonical forms)
    w, signed = e.int_type
    pods = {}
    for row in rows_by_ai.get(e.ai, []):
        x = from_bits(row["x"], w, signed)
        if x in raws:
            rest = from_bits(row["rest"], w, signed)
            pods[x] = tuple(sorted(row["names"])) + ((rest,) if row["rest"] else ())
    if set(pods) != set(raws):
        raise MachineryError("canonical forms for the Block machine are missing")
    _C.update(g=g, e=e, pods=pods, Block=Block, Pretty=dt.Pretty)
    ids = g.reachable_edges()
    results = common.parallel_map(_block_replay, common.chunked(ids, 8))
    chk.count(sum(r[0] for r in results))
    chk.cov["traces_validated_against_impl"] += 2 * len(ids)
    chk.cov["b1_edges_replayed"] = len(ids)
    for ed in g.edges:
        chk.nontrivial(("edge", ed["_s"], common.skey(ed["act"])))
    for _, bads in results:
        for b in bads:
            chk.violation("Block machine (%s): %s" % (e.name, b["mismatch"][0]),
                          {"kind": "block", "what": b["mismatch"][0], "last": b["history"][-1]["n"]}, b)
    ed = g.edges[min(len(g.edges) - 1, 17)]
    chk.sample({"binding": "B1 Block edge", "registration": e.name, "path": [p["act"] for p in g.path_to(ed["_s"])] + [ed["act"]],
                "expected_observation": ed["obs"]})


# ----------------------------------------------------------------------------------------
# TLC validation of the recorded events
# ----------------------------------------------------------------------------------------

def _validate(chk: Check, recs, events):
    d = os.path.join(chk.scratch, "sfT")
    os.makedirs(d, exist_ok=True)
    with open(os.path.join(d, "adapters.json"), "w") as f:
        json.dump(recs, f)
    os.environ["SUBFIELD_ADAPTERS"] = os.path.join(d, "adapters.json")
    try:
        clean = [dict({k: v for k, v in ev.items() if not k.startswith("_")}, id=i) for i, ev in enumerate(events)]
        # many events per trace: a failed clause names the event by its id
        traces, cur, weight = [], [], 0
        for ev in clean:
            cur.append(ev)
            weight += len(ev.get("s", ())) + 4
            if weight >= 1500:
                traces.append(cur)
                cur, weight = [], 0
        if cur:
            traces.append(cur)
        # validate_traces cuts the list into contiguous shards: deal the heavy traces round
        shards = 8
        traces.sort(key=lambda t: -sum(len(ev.get("s", ())) + 4 for ev in t))
        traces = [t for k in range(shards) for t in traces[k::shards]]
        cfg = "SPECIFICATION TraceSpec\nCONSTANTS Raws = {0}\nPOSTCONDITION TraceAccepted\nCHECK_DEADLOCK FALSE\n"
        acc, rej, results = common.validate_traces("Subfield_Trace", cfg, traces, chk.scratch, shards=shards)
    finally:
        os.environ.pop("SUBFIELD_ADAPTERS", None)
    fails = collections.defaultdict(list)
    for r in results:
        chk.add_tlc(r, "Subfield_Trace")
        if r.assert_failed:
            raise MachineryError("driver violated an environment assumption of Subfield_Trace:\n" + r.out[-1500:])
        for rec in r.printed():
            if isinstance(rec, dict) and "fail" in rec:
                fails[rec["id"]].append(rec)
    chk.cov["traces_validated_against_impl"] += len(events)
    return [(ti, j, ev) for ti, j, ev in rej], fails


# ----------------------------------------------------------------------------------------

def run(chk: Check):
    quick = chk.tier == "quick"
    se, dt, Block, TD, MsgType = _mods()
    tz0 = os.environ.get("TZ")
    _tz("UTC")
    try:
        _run(chk, quick, se)
    finally:
        if tz0 is None:
            os.environ.pop("TZ", None)
        else:
            os.environ["TZ"] = tz0
        time.tzset()


def _run(chk: Check, quick, se):
    entries, dead = registry()
    recs = adapters_of(entries)
    chk.cov["registrations_live"] = len(entries)
    chk.cov["registrations_dead"] = dead
    chk.cov["adapters"] = [r["id"] for r in recs]
    chk.cov["rule"] = ("A: one TLC state + one replayed row per (adapter, wire integer), and one recorded sample per (registration, form, "
                       "wire integer) judged by TLC; B: one five-stage run per (registration, context value, form, time zone, payload) judged "
                       "by TLC; C: every edge of the Block machine replayed.  non-trivial = samples/runs the serializer accepted (decoded), "
                       "Block edges.")
    chk.assumptions += [
        "a payload the serializer raises on, or answers UNSERIALIZABLE for, is 'not accepted': callers keep the raw value (message_formatting falls back)",
        "which member names a plain-data flag value lists is left open; TLC gives the observed choice its meaning (OR of the named members and the integers)",
        "projection int <-> w-bit two's-complement bit set, canonical value trees and their digests are computed by the harness (trusted)",
        "'evaluates back as a literal' is decided by Python (ast.literal_eval(repr(v)) == v) and recorded; values with NaN/inf are exempt (property: finite numbers)",
        "byte payloads are produced by seeds from the repository's tests, template sizes found by reflection and mutation; only accepted payloads are constrained",
        "the byte-exact recomputation of template encodings (Combinators.tla) is not part of this check",
    ]
    # ---- Part A
    t0 = time.time()

    def lap(what):
        nonlocal t0
        chk.notes.append("%s: %.1fs" % (what, time.time() - t0))
        t0 = time.time()
    rows = _run_adapters_model(chk, recs, quick)
    lap("A model + table")
    model_broken = bool(chk.violations)
    rng = chk.rng
    extra = {}
    for i, e in enumerate(entries):
        if e.kind != "other" and e.int_type[0] > 16:
            extra[i] = int_family(rng, e.int_type[0], e.int_type[1], 40 if quick else 2000,
                                  extra=[int(m) for m in e.cls.__members__.values()])
    _A.update(se=se, entries=entries, rows=rows, recs=recs, extra=extra, quick=quick)
    a_idx = [i for i, e in enumerate(entries) if e.kind != "other"]
    a_idx.sort(key=lambda i: -len(rows.get(entries[i].ai, [])))
    results = common.parallel_map(_adapter_job, a_idx)
    events = []
    counts = collections.Counter()
    fam_of = {}
    for ei, n, bad, evs, fam in results:
        e = entries[ei]
        chk.count(n)
        fam_of[ei] = fam
        chk.cov["traces_validated_against_impl"] += len(rows.get(e.ai, []))
        for kind, x, detail in bad:
            ck = (e.name, kind, x < 0)
            counts[ck] += 1
            if counts[ck] <= MAX_PER_CLASS:
                chk.violation("%s: serialize(canonical plain-data form of %d) is not %d" % (e.name, x, x),
                              {"kind": kind, "key": e.name, "adapter": recs[e.ai - 1]["id"], "cls": e.kind,
                               "signed": e.int_type[1], "negative": x < 0, "x": x}, detail)
        events += evs
    lap("A replay + recording")
    # ---- Part B
    c_events, c_extras, stats = _contract_events(chk, entries, quick)
    lap("B recording")
    base = len(events)
    events += c_events
    chk.cov["contract_stats"] = {k: dict(v) for k, v in stats.items() if entries and (len(stats) < 60 or "tried" in v)}
    never = [e.name for e in entries if e.kind == "other" and not any(k.endswith(":ok") for k in stats.get(e.name, {}))]
    chk.cov["registrations_with_no_accepted_payload"] = never
    # ---- TLC judges everything recorded
    rej, fails = _validate(chk, recs, events)
    lap("TLC validation of %d events" % len(events))
    for ti, j, ev in rej:
        chk.violation("B2: event rejected by Subfield_Trace (%s)" % ev.get("ev"), {"kind": "b2-reject", "event": ev.get("ev")}, {"event": common._clip(ev)})
    for tid, fl in sorted(fails.items()):
        ev = events[tid]
        if ev["ev"] == "A":
            e = entries[ev["_e"]]
            w, signed = e.int_type
            for f in fl:
                s = ev["s"][f["k"] - 1]
                x = from_bits(s["x"], w, signed)
                ck = (e.name, f["fail"], ev["mode"], x < 0)
                counts[ck] += 1
                if counts[ck] > MAX_PER_CLASS:
                    continue
                chk.violation("%s (%s form): %s at wire integer %d" % (e.name, ev["mode"], f["fail"], x),
                              {"kind": "adapter", "law": f["fail"], "key": e.name, "adapter": recs[e.ai - 1]["id"], "cls": e.kind,
                               "mode": ev["mode"], "signed": signed, "negative": x < 0, "x": x},
                              {"sample": s, "decoded": repr(impl_call(e.ser.deserialize, None, x, pod=(ev["mode"] == "pod"))[1])})
        else:
            ex = c_extras[tid - base]
            for f in fl:
                _report_contract_fail(chk, f["fail"], ev, ex, counts)
    n_acc = sum(1 for ev in c_events if ev["d0"] == "ok")
    chk.count(len(c_events))
    chk.cov["contract_runs"] = len(c_events)
    chk.cov["contract_runs_accepted"] = n_acc
    for ev in events[:base]:
        for k, s in enumerate(ev["s"]):
            if s["d"] == "ok":
                chk.nontrivial(("A", ev["_e"], ev["mode"], ev["_x0"] + k))
    # ---- Part C
    if not model_broken:
        _block_machine(chk, entries, rows)
    lap("C block machine")
    if c_events:
        i = next((i for i, ev in enumerate(c_events) if ev["d0"] == "ok" and ev["raw0"]["n"] > 12), 0)
        chk.sample({"binding": "B2 contract event (code->spec)", "event": {k: (v if not isinstance(v, dict) else {"n": v["n"], "d": v["d"][:24] if isinstance(v["d"], list) else v["d"]}) for k, v in c_events[i].items()}})
    if events[:base]:
        ev = events[0]
        chk.sample({"binding": "B2 adapter batch (code->spec)", "registration": entries[ev["_e"]].name, "mode": ev["mode"], "samples": ev["s"][:3]})
    chk.cov["exhaustive"] = True
