"""C19 — client endpoint: always ack, dispatch once, reliable sends complete on ack only
(ClientCircuit.tla, ClientCircuit_MC/_MBT/_Trace).

B1: every edge of the bounded model is replayed into a fresh real HippoClientSession +
    HippoClientProtocol + Circuit (recording transport, 4 subscribers, virtual clock) and the
    whole observation (datagrams emitted, subscriber calls, future states) is compared with
    the observation TLC printed for that edge.
B2: recorded executions (a sample of the B1 histories and long random walks) are validated by
    TLC against ClientCircuit_Trace (which also decides "packet IDs strictly increasing" on the
    IDs the implementation really chose).
"""
from __future__ import annotations

import asyncio
import dataclasses
import datetime
import os

from . import common
from .common import Check, Graph, MachineryError

PEER = ("127.0.0.1", 2)
STRANGER = ("127.0.0.9", 9)
HANDLERS = ("sess", "sessAll", "reg", "regAll")
LOGIN = {
    "session_id": "00000000-0000-0000-0000-000000000001",
    "secure_session_id": "00000000-0000-0000-0000-000000000002",
    "agent_id": "00000000-0000-0000-0000-000000000003",
    "circuit_code": 123, "sim_ip": PEER[0], "sim_port": PEER[1], "region_x": 0, "region_y": 123,
    "seed_capability": "https://127.0.0.1:4/foo",
}


# ----------------------------------------------------------------------------------------
# Driver of the real endpoint
# ----------------------------------------------------------------------------------------

class _Clock:
    """Stands in for `datetime.datetime` inside hippolyzer.lib.base.message.circuit."""

    def __init__(self):
        self.t = datetime.datetime(2020, 1, 1)

    def now(self, tz=None):
        return self.t


class _DtShim:
    timedelta = datetime.timedelta

    def __init__(self, clock):
        self.datetime = clock


_IMPORTS = None


class _AsyncioShim:
    """Stands in for the module `asyncio` inside hippolyzer.lib.client.hippo_client (like the `dt` shim of the circuit
    module): everything is the real asyncio, except that a sleep() made BY THE CLIENT'S RESEND LOOP TASK does not wait for
    real time but for the driver's next clock step -- one loop iteration per LoopTick, on virtual time."""

    def __init__(self):
        self.gate = None        # {"task": resend-loop task, "waiting": future the loop is parked on}

    def __getattr__(self, name):
        return getattr(asyncio, name)

    async def sleep(self, delay, result=None):
        g = self.gate
        if g is not None and g.get("task") is not None and asyncio.current_task() is g["task"]:
            fut = asyncio.get_event_loop().create_future()
            g["waiting"] = fut
            await fut
            return result
        return await asyncio.sleep(delay, result)


_SHIM = _AsyncioShim()


def _imports():
    global _IMPORTS
    if _IMPORTS is None:
        from hippolyzer.lib.base.message import circuit as circ_mod
        from hippolyzer.lib.base.message.message import Message, Block
        from hippolyzer.lib.base.message.msgtypes import PacketFlags
        from hippolyzer.lib.base.message.udpserializer import UDPMessageSerializer
        from hippolyzer.lib.base.message.udpdeserializer import UDPMessageDeserializer
        from hippolyzer.lib.base.network.transport import AbstractUDPTransport
        from hippolyzer.lib.client import hippo_client as hc_mod
        from hippolyzer.lib.client.hippo_client import HippoClient, HippoClientProtocol, HippoClientSession
        if getattr(hc_mod, "asyncio", None) is not asyncio and not isinstance(getattr(hc_mod, "asyncio", None), _AsyncioShim):
            raise MachineryError("hippo_client no longer reaches asyncio through its module attribute: adapt the clock bridge")
        hc_mod.asyncio = _SHIM

        class RecTransport(AbstractUDPTransport):
            def __init__(self):
                self.sent = []

            def send_packet(self, packet):
                self.sent.append(packet)

            def close(self):
                pass

        _IMPORTS = dict(circ_mod=circ_mod, Message=Message, Block=Block, PacketFlags=PacketFlags,
                        ser=UDPMessageSerializer(), de=UDPMessageDeserializer(), RecTransport=RecTransport,
                        HippoClient=HippoClient, HippoClientProtocol=HippoClientProtocol,
                        HippoClientSession=HippoClientSession)
    return _IMPORTS


def reflect_constants():
    """Budget (transmissions per reliable send) and resend period are the code's documented
    constants; they are read from its public dataclass / attribute (reflection bridge)."""
    try:
        from hippolyzer.lib.base.message.circuit import ReliableResendInfo, Circuit
        budget = [f.default for f in dataclasses.fields(ReliableResendInfo) if f.name == "tries_left"][0]
        every = Circuit(None, PEER, None).resend_every
        budget, every_ms = int(budget), int(round(float(every) * 1000))
        assert budget >= 2 and every_ms >= 2
        return budget, every_ms
    except Exception as e:  # noqa
        raise MachineryError("cannot reflect retry budget / resend period: %r" % (e,))


def reflect_window():
    """Size of the de-duplication memory: maxlen of the public deque Circuit.seen_reliable."""
    try:
        from hippolyzer.lib.base.message.circuit import Circuit
        w = Circuit(None, PEER, None).seen_reliable.maxlen
        assert isinstance(w, int) and w >= 2
        return w
    except Exception as e:  # noqa
        raise MachineryError("cannot reflect the size of the de-duplication memory: %r" % (e,))


class Driver:
    """One real client endpoint with one region circuit.  Must be created inside a running loop."""

    def __init__(self, client, window=None, start="pending", budget=None):
        im = _imports()
        self.im = im
        self.clock = _Clock()
        im["circ_mod"].dt = _DtShim(self.clock)
        self.sess = im["HippoClientSession"].from_login_data(dict(LOGIN), client)
        self.transport = im["RecTransport"]()
        self.sess.transport = self.transport
        self.proto = im["HippoClientProtocol"](self.sess)
        if not self.sess.open_circuit(PEER):
            raise MachineryError("open_circuit refused the login region")
        self.region = self.sess.regions[-1]
        # open_circuit() leaves the circuit not-yet-alive (is_alive = False) until the handshake is through: that is how
        # the client endpoint really starts.  start="alive": a bare Circuit as its constructor makes it (is_alive = True).
        self.start = start
        self.client = client
        self.small_backlog = True     # see _subscribe_extra; the production-size walk switches it off
        self.budget = budget          # retry budget of the configuration (None: the code's default)
        self.loop_task = None
        if start == "alive":
            from hippolyzer.lib.base.message.circuit import Circuit
            self.region.circuit = Circuit(("127.0.0.1", 0), PEER, self.transport)
        elif start != "pending":
            raise MachineryError("start state %r" % (start,))
        if window:
            # a small de-duplication memory for the exhaustive model: the public deque is replaced by a shorter one.
            # (An endpoint that ignores it just has a longer memory, which the specification allows.)
            import collections
            if not isinstance(getattr(self.region.circuit, "seen_reliable", None), collections.deque):
                raise MachineryError("Circuit.seen_reliable is not a deque any more: adapt the window bridge")
            self.region.circuit.seen_reliable = collections.deque(maxlen=window)
        self.calls = {h: [] for h in HANDLERS}
        for name in ("ChatFromSimulator", "PacketAck"):
            self.sess.message_handler.subscribe(name, self._handler("sess"))
            self.region.message_handler.subscribe(name, self._handler("reg"))
        self.sess.message_handler.subscribe("*", self._handler("sessAll"))
        self.region.message_handler.subscribe("*", self._handler("regAll"))
        self.extra = {"sess": [], "reg": []}   # further subscribers: [kind, calls-in-this-step counter cell, wait_for future]
        self.futs = []        # [(real id, future)] for every send_reliable
        self.issued = []      # real IDs of fresh (not resent) datagrams in emission order
        self.cum = {h: {} for h in HANDLERS}   # handler -> {(pid, rel): calls}
        self.acked_cum = {}   # pid -> number of acknowledgements emitted

    def _handler(self, name):
        lst = self.calls[name]

        def handler(msg):
            lst.append(msg.packet_id)
        return handler

    # --- further subscribers of the data message, registered after the permanent ones ---------
    def _subscribe_extra(self, level, kind):
        mh = self.sess.message_handler if level == "sess" else self.region.message_handler
        cell = [0]
        fut = None
        if kind == "asyncq":
            # a subscribe_async() consumer that does not read for a while: its block is entered and stays open
            if self.small_backlog and hasattr(type(mh), "ASYNC_BACKLOG_LIMIT"):
                # a backlog bound of the handler is a deep constant: made small so that the model's depth reaches past it
                mh.ASYNC_BACKLOG_LIMIT = 3
            cm = mh.subscribe_async(("ChatFromSimulator",), take=False)
            get = cm.__enter__()
            self.extra[level].append([kind, cell, None, False, get, cm])
            return
        if kind == "waitfor":
            fut = mh.wait_for(("ChatFromSimulator",), take=False)
        else:
            def handler(msg, _cell=cell, _ret=(kind == "retTrue")):
                _cell[0] += 1
                return _ret
            if kind == "once":
                mh.register("ChatFromSimulator").subscribe(handler, one_shot=True)
            else:
                mh.subscribe("ChatFromSimulator", handler)
        self.extra[level].append([kind, cell, fut, False])

    def _extra_calls(self):
        dyn = {}
        for level, lst in self.extra.items():
            row = []
            for ent in lst:
                kind, cell, fut, was_done = ent[:4]
                if fut is not None:
                    n = 1 if (fut.done() and not was_done) else 0
                    ent[3] = fut.done()
                else:
                    n = cell[0]
                    cell[0] = 0
                row.append(n)
            dyn[level] = row
        return dyn

    async def drain(self, level, i):
        """The slow consumer reads until its queue is empty (a read that would block is abandoned)."""
        ent = self.extra[level][i - 1]
        get = ent[4]
        got = []
        ev = {"ev": "Drain", "level": level, "i": i}
        while True:
            t = asyncio.ensure_future(get())
            for _ in range(3):
                await asyncio.sleep(0)
                if t.done():
                    break
            if not t.done():
                t.cancel()
                try:
                    await t
                except BaseException:  # noqa
                    pass
                break
            if t.exception() is not None:
                ev["raised"] = repr(t.exception())
                break
            got.append(t.result().packet_id)
            if len(got) > 100000:
                break
        ev["got"] = got
        return await self._observe(ev)

    async def subscribe(self, level, kind):
        st, r = common.impl_call(self._subscribe_extra, level, kind)
        ev = {"ev": "Sub", "level": level, "kind": kind}
        if st != "ok":
            ev["raised"] = r
        return await self._observe(ev)

    # --- building peer datagrams -----------------------------------------------------------
    def _datagram(self, pid, rel, acks, form):
        im = self.im
        Message, Block, PacketFlags = im["Message"], im["Block"], im["PacketFlags"]
        acks = list(acks)
        body, appended = [], acks
        if form == "pa":
            body, appended = acks, []
        elif form == "mix":
            body, appended = acks[:1], acks[1:]
        if form in ("pa", "mix"):
            m = Message("PacketAck", *[Block("Packets", ID=a) for a in body])
        else:
            m = Message("ChatFromSimulator", Block("ChatData", fill_missing=True))
        m.packet_id = pid
        if appended:
            m.acks = tuple(appended)
            m.send_flags |= PacketFlags.ACK
        if rel:
            m.send_flags |= PacketFlags.RELIABLE
        return im["ser"].serialize(m)

    # --- observation -----------------------------------------------------------------------
    async def _observe(self, ev, pid=None, rel=None, with_dl=False):
        for _ in range(2):
            await asyncio.sleep(0)
        im = self.im
        tx = []
        for pkt in self.transport.sent:
            m = im["de"].deserialize(pkt.data)
            acked = list(m.acks)
            if m.name == "PacketAck":
                acked = [b["ID"] for b in m["Packets"]] + acked
            resent = bool(m.send_flags & im["PacketFlags"].RESENT)
            tx.append({"id": m.packet_id, "rel": bool(m.reliable), "resent": resent, "acked": acked,
                       "peer": tuple(pkt.dst_addr) == PEER, "name": m.name,
                       "pingid": m["PingID"]["PingID"] if m.name == "CompletePingCheck" else None})
            if not resent:
                self.issued.append(m.packet_id)
            for a in acked:
                self.acked_cum[a] = self.acked_cum.get(a, 0) + 1
        self.transport.sent.clear()
        ev["tx"] = tx
        if with_dl:
            dl = {}
            other = 0
            for h in HANDLERS:
                dl[h] = sum(1 for x in self.calls[h] if x == pid)
                other += sum(1 for x in self.calls[h] if x != pid)
                if pid is not None:
                    self.cum[h][(pid, rel)] = self.cum[h].get((pid, rel), 0) + dl[h]
            dl["other"] = other
            dl["dyn"] = self._extra_calls()
            ev["dl"] = dl
        else:
            self._extra_calls()
        for h in HANDLERS:
            self.calls[h].clear()
        fut = []
        for rid, f in self.futs:
            if not f.done():
                st = "p"
            elif f.cancelled():
                st = "x"
            elif f.exception() is None:
                st = "d"
            elif isinstance(f.exception(), TimeoutError):
                st = "f"
            else:
                st = "x"
            fut.append([rid, st])
        ev["fut"] = fut
        return ev

    # --- events ----------------------------------------------------------------------------
    async def recv(self, pid, rel, acks, form):
        data = self._datagram(pid, rel, acks, form)
        st, r = common.impl_call(self.proto.datagram_received, data, PEER)
        ev = {"ev": "Recv", "p": pid, "rel": bool(rel), "acks": list(acks), "form": form, "match": form == "app"}
        if st != "ok":
            ev["raised"] = r
        return await self._observe(ev, pid, bool(rel), with_dl=True)

    async def ping(self, oldest):
        """The peer's StartPingCheck(OldestUnacked=oldest), through the real datagram path; the region-level handler that
        answers it is a coroutine, so the loop is pumped until its task has run."""
        Message, Block = self.im["Message"], self.im["Block"]
        self.n_pings = getattr(self, "n_pings", 0) + 1
        pid = 600000 + self.n_pings          # the ping's own (unreliable) packet ID, apart from the data packets' IDs
        m = Message("StartPingCheck", Block("PingID", PingID=self.n_pings % 256, OldestUnacked=oldest))
        m.packet_id = pid
        st, r = common.impl_call(self.proto.datagram_received, self.im["ser"].serialize(m), PEER)
        ev = {"ev": "Ping", "oldest": oldest}
        if st != "ok":
            ev["raised"] = r
        for _ in range(3):
            await asyncio.sleep(0)
        ev = await self._observe(ev, pid, False, with_dl=True)
        ev["pong_ok"] = len(ev["tx"]) == 1 and ev["tx"][0]["name"] == "CompletePingCheck" and \
            ev["tx"][0]["pingid"] == self.n_pings % 256
        return ev

    async def stray(self, acks):
        data = self._datagram(4242, True, acks, "app")
        st, r = common.impl_call(self.proto.datagram_received, data, STRANGER)
        ev = {"ev": "Stray", "acks": list(acks)}
        if st != "ok":
            ev["raised"] = r
        return await self._observe(ev, 4242, True, with_dl=True)

    def _chat(self):
        Message, Block = self.im["Message"], self.im["Block"]
        return Message("ChatFromViewer",
                       Block("AgentData", SessionID=self.sess.id, AgentID=self.sess.agent_id),
                       Block("ChatData", Message="x", Channel=0, Type=1))

    async def send_rel(self, carry=None):
        """carry: the message object already has this packet ID when it is handed to send_reliable() (a relayed,
        rebuilt or re-sent message)."""
        msg = self._chat()
        if carry is not None:
            msg.packet_id = carry
        st, r = common.impl_call(self.region.circuit.send_reliable, msg)
        ev = {"ev": "SendRel", "carry": -1 if carry is None else carry}
        if st == "ok":
            self.futs.append((msg.packet_id, r))
            if self.budget:
                # the configuration's retry budget, set on the public resend record of this send (as harness/c05.py does)
                try:
                    self.region.circuit.unacked_reliable[(msg.direction, msg.packet_id)].tries_left = self.budget
                except Exception as e:  # noqa
                    raise MachineryError("cannot set the retry budget of a reliable send: %r" % (e,))
        else:
            ev["raised"] = r
        return await self._observe(ev)

    async def send_unrel(self, carry=None):
        msg = self._chat()
        if carry is not None:
            msg.packet_id = carry
        st, r = common.impl_call(self.region.circuit.send, msg)
        ev = {"ev": "SendUnrel", "carry": -1 if carry is None else carry}
        if st != "ok":
            ev["raised"] = r
        return await self._observe(ev)

    async def loop_tick(self, ms):
        """The clock advances, then the CLIENT's own resend loop (HippoClient._attempt_resends) runs one iteration."""
        ev = {"ev": "LoopTick", "d": ms}
        if self.loop_task is None:
            if not hasattr(self.client, "_attempt_resends"):
                raise MachineryError("HippoClient._attempt_resends is gone: adapt the resend-loop bridge")
            self.client.session = self.sess
            self.gate = {"task": None, "waiting": None}
            _SHIM.gate = self.gate
            self.loop_task = asyncio.ensure_future(self.client._attempt_resends())
            self.gate["task"] = self.loop_task
            # its first iteration runs at the current time (nothing is due: time only moves in ticks) and parks
            await self._park()
        self.clock.t = self.clock.t + datetime.timedelta(milliseconds=ms)
        fut, self.gate["waiting"] = self.gate["waiting"], None
        if fut is None or self.loop_task.done():
            ev["raised"] = "the client's resend loop has stopped"
        else:
            fut.set_result(None)
            await self._park()
            if self.loop_task.done():
                exc = None if self.loop_task.cancelled() else self.loop_task.exception()
                ev["raised"] = "the client's resend loop stopped: %r" % (exc,)
        return await self._observe(ev)

    async def _park(self):
        for _ in range(50):
            await asyncio.sleep(0)
            if self.gate["waiting"] is not None or self.loop_task.done():
                return
        raise MachineryError("the client's resend loop neither paused nor ended after one iteration")

    async def tick(self, ms):
        self.clock.t = self.clock.t + datetime.timedelta(milliseconds=ms)
        st, r = common.impl_call(self.region.circuit.resend_unacked)
        ev = {"ev": "Tick", "d": ms}
        if st != "ok":
            ev["raised"] = r
        return await self._observe(ev)

    def start_events(self):
        return [{"ev": "Alive", "how": "bare", "tx": [], "fut": []}] if self.start == "alive" else []

    async def go_alive(self):
        """What HippoClientRegion.connect() does once UseCircuitCode is acknowledged."""
        self.region.circuit.is_alive = True
        return await self._observe({"ev": "Alive", "how": "handshake"})

    async def disconnect(self):
        st, r = common.impl_call(self.region.circuit.disconnect)
        ev = {"ev": "Disconnect"}
        if st != "ok":
            ev["raised"] = r
        return await self._observe(ev)

    def close(self):
        if self.loop_task is not None:
            self.loop_task.cancel()
            _SHIM.gate = None
            self.client.session = None
        # futures that failed were never awaited: retrieve the exception so asyncio stays quiet
        for _, f in self.futs:
            if f.done() and not f.cancelled():
                f.exception()


# ----------------------------------------------------------------------------------------
# B1
# ----------------------------------------------------------------------------------------

_G: Graph = None
_B1_WINDOW = None
_B1_BUDGET = None
_INIT_ALIVE = {}
_WINDOW_REAL = 1000
_SAMPLE_EVERY = 0


def _real_id(m, model_ids, issued):
    """Model packet ID -> the ID the implementation chose for the same (k-th) issue."""
    if m in model_ids:
        i = model_ids.index(m)
        if i < len(issued):
            return issued[i]
        return 900000 + m          # the implementation issued fewer IDs than the model: no such packet
    last_model = model_ids[-1] if model_ids else -1
    last_real = max(issued) if issued else -1
    return last_real + (m - last_model)   # an ID the endpoint has not issued yet


async def _do(drv: Driver, act, model_ids):
    n = act["n"]
    if n == "Recv":
        acks = [_real_id(m, model_ids, drv.issued) for m in sorted(act["acks"])]
        return await drv.recv(act["p"], act["rel"], acks, act["form"])
    if n == "Stray":
        return await drv.stray([_real_id(m, model_ids, drv.issued) for m in sorted(act["acks"])])
    if n in ("SendRel", "SendUnrel"):
        c = act.get("carry", -1)
        carry = None if c < 0 else _real_id(c, model_ids, drv.issued)
        return await (drv.send_rel(carry) if n == "SendRel" else drv.send_unrel(carry))
    if n == "Tick":
        return await drv.tick(act["d"])
    if n == "LoopTick":
        return await drv.loop_tick(act["d"])
    if n == "Subscribe":
        return await drv.subscribe(act["l"], act["k"])
    if n == "Drain":
        return await drv.drain(act["l"], act["i"])
    if n == "Ping":
        return await drv.ping(act["oldest"])
    if n == "GoAlive":
        return await drv.go_alive()
    if n == "Disconnect":
        return await drv.disconnect()
    raise MachineryError("unknown action %r" % (act,))


def _compare(drv: Driver, act, obs, ev):
    """Full observation compare for one step.  Returns [(clause, expected, got)]."""
    bad = []
    out = obs["out"]
    mids = obs["ids"]
    if "raised" in ev:
        bad.append(("exception escaped: " + ev["raised"].split(":")[0], None, ev["raised"]))
    if len(drv.issued) != len(mids):
        bad.append(("number of packet IDs issued", len(mids), len(drv.issued)))
    else:
        # the model's IDs are one instance of the law (strictly increasing while the circuit lives); the real ones must
        # be ordered the same way
        for i in range(len(mids) - 1):
            if mids[i] < mids[i + 1] and not drv.issued[i] < drv.issued[i + 1]:
                bad.append(("packet IDs strictly increasing", [mids[i], mids[i + 1]], [drv.issued[i], drv.issued[i + 1]]))
                break

    def real(m):
        return _real_id(m, mids, drv.issued)
    tx = ev["tx"]
    n = act["n"]
    if any(not t["peer"] for t in tx):
        bad.append(("datagrams go to the peer", None, tx))
    if n == "Drain":
        if ev.get("got") != out["drained"]:
            bad.append(("async subscriber: every message once, in order", out["drained"], ev.get("got")))
        if tx:
            bad.append(("drain: nothing emitted", [], [t["name"] for t in tx]))
    elif n == "Ping":
        exp_tx = sorted((real(t["id"]), t["rel"], t["resent"]) for t in out["tx"])
        got_tx = sorted((t["id"], t["rel"], t["resent"]) for t in tx)
        if exp_tx != got_tx or not ev.get("pong_ok"):
            bad.append(("ping answered with one CompletePingCheck", exp_tx, [[t["name"], t["id"], t["pingid"]] for t in tx]))
        for h, exp in (("sess", 0), ("reg", 0), ("sessAll", 1), ("regAll", 1)):
            if ev["dl"][h] != exp:
                bad.append((("dup-dispatch/" if ev["dl"][h] > exp else "missing-dispatch/") + h, exp, ev["dl"][h]))
        if ev["dl"]["other"] or any(ev["dl"]["dyn"][lvl] != out["calls"][lvl] for lvl in ("sess", "reg")):
            bad.append(("subscriber called for another packet", 0, ev["dl"]))
    elif n in ("Recv", "Stray"):
        acked = [a for t in tx for a in t["acked"]]
        if acked != out["acks"] or len(tx) != len(out["acks"]):
            clause = "stray: nothing emitted" if n == "Stray" else \
                ("ack-every-receipt" if act.get("rel") else "no ack for unreliable")
            bad.append((clause, out["acks"], [[t["name"], t["acked"]] for t in tx]))
        if any(t["resent"] or t["rel"] for t in tx):
            bad.append(("ack datagram is a fresh unreliable packet", None, tx))
        exp = 1 if out["deliver"] else 0
        # a duplicate of an ID that was pushed out of the memory: dispatching it again or not is left open
        is_open = bool(out.get("open"))
        for h in HANDLERS:
            got = ev["dl"][h]
            if got != exp and not is_open:
                bad.append((("dup-dispatch/" if got > exp else "missing-dispatch/") + h, exp, got))
        if ev["dl"]["other"]:
            bad.append(("subscriber called for another packet", 0, ev["dl"]["other"]))
        for lvl in (() if is_open else ("sess", "reg")):
            exp_calls, got_calls, kinds = out["calls"][lvl], ev["dl"]["dyn"][lvl], [x["k"] for x in obs["subs"][lvl]]
            if len(exp_calls) != len(got_calls):
                raise MachineryError("driver and model disagree on the number of extra subscribers")
            for i, (x, y) in enumerate(zip(exp_calls, got_calls)):
                if x != y:
                    bad.append((("dup-dispatch/" if y > x else "missing-dispatch/") + lvl + "-extra-" + kinds[i], x, y))
    else:
        exp_tx = sorted((real(t["id"]), t["rel"], t["resent"]) for t in out["tx"])
        got_tx = sorted((t["id"], t["rel"], t["resent"]) for t in tx)
        if exp_tx != got_tx:
            clause = {"SendRel": "send: one reliable datagram", "SendUnrel": "send: one unreliable datagram",
                      "Tick": "resend exactly the due pending sends", "LoopTick": "resend exactly the due pending sends", "Subscribe": "subscribe: nothing emitted",
                      "GoAlive": "handshake: nothing emitted", "Disconnect": "disconnect: nothing emitted"}[n]
            bad.append((clause, exp_tx, got_tx))
    # futures of all reliable sends
    exp_state = {}
    for m in obs["pending"]:
        exp_state[real(m)] = "p"
    for m in obs["done"]:
        exp_state[real(m)] = "d"
    for m in obs["failed"]:
        exp_state[real(m)] = "f"
    got_state = dict((rid, st) for rid, st in ev["fut"])
    if len(drv.issued) != len(mids):
        # the endpoint issued another number of packet IDs than the model (reported above): model and real IDs cannot be
        # matched by position any more, so the futures are not judged on this edge
        got_state, exp_state = {}, {}
        ev = dict(ev, fut=[])
    if sorted(got_state) != sorted(exp_state) or len(ev["fut"]) != len(exp_state):
        bad.append(("futures:one per reliable send", sorted(exp_state), [f[0] for f in ev["fut"]]))
    for rid, st in sorted(got_state.items()):
        if rid in exp_state and exp_state[rid] != st:
            bad.append(("future is %s but must be %s" % (st, exp_state[rid]), exp_state[rid], st))
    # cumulative counters of the history
    for h in HANDLERS:
        for key, spec in (("delivR", True), ("delivU", False)):
            for p, cnt in obs[key]:
                got = drv.cum[h].get((p, spec), 0)
                if got != cnt and not (spec and p in obs["forgotten"]):
                    bad.append((("dup-dispatch/" if got > cnt else "missing-dispatch/") + h, [p, cnt], got))
    for p, cnt in obs["ackedR"]:
        if drv.acked_cum.get(p, 0) != cnt:
            bad.append(("ack-every-receipt", [p, cnt], drv.acked_cum.get(p, 0)))
    return bad


async def _replay_async(edge_ids):
    g = _G
    client = _imports()["HippoClient"]()
    out = []
    traces = []
    steps = 0
    try:
        for item in edge_ids:
            # an item is an edge e, or (f, e) with f a NON-tree edge into src(e): another history that merges into the
            # same abstract state (a stray datagram / idle clock step is the special case of a self-loop).  The BFS tree
            # reaches src(e) along one history only; (f, e) is replayed as path_to(src f) + f + e.
            loop, ei = item if isinstance(item, tuple) else (None, item)
            e = g.edges[ei]
            path = (g.path_to(g.edges[loop]["_s"]) + [g.edges[loop]]) if loop is not None else g.path_to(e["_s"])
            drv = Driver(client, _B1_WINDOW, _INIT_ALIVE[(path[0] if path else e)["_s"]], _B1_BUDGET)
            mids = []
            evs = drv.start_events()
            for pe in path:
                evs.append(await _do(drv, pe["act"], mids))
                mids = pe["obs"]["ids"]
            ev = await _do(drv, e["act"], mids)
            evs.append(ev)
            steps += len(path) + 1
            bad = _compare(drv, e["act"], e["obs"], ev)
            drv.close()
            if bad:
                out.append({"history": [p["act"] for p in path] + [e["act"]], "mismatches": bad[:8],
                            "spec_observation": e["obs"], "impl_observation": ev})
            if _SAMPLE_EVERY and ei % _SAMPLE_EVERY == (0 if loop is None else 1):
                traces.append(_strip(evs))
    finally:
        await client.aclose()
    return steps, out, traces


def _replay_chunk(edge_ids):
    return asyncio.run(_replay_async(edge_ids))


def _strip(evs):
    """Trace records: only what ClientCircuit_Trace reads."""
    res = []
    for ev in evs:
        r = {k: v for k, v in ev.items() if k in ("ev", "p", "rel", "acks", "d", "fut", "match", "level", "kind", "how", "oldest", "pong_ok", "carry", "i", "got")}
        r["tx"] = [{"id": t["id"], "rel": t["rel"], "resent": t["resent"], "acked": t["acked"], "peer": t["peer"]}
                   for t in ev["tx"]]
        if "dl" in ev:
            r["dl"] = ev["dl"]
        r["raised"] = "raised" in ev
        res.append(r)
    return res


def _mc_cfg(consts, spec, check=True, forms=False):
    c = dict(consts)
    txt = "SPECIFICATION %s\nCONSTANTS Budget = %d Every = %d IterateLive = FALSE\n" % (spec, c.pop("Budget"), c.pop("Every"))
    c.setdefault("MaxSubs", 0)
    c.setdefault("Window", _WINDOW_REAL)
    c.setdefault("SubKinds", "{}")
    c.setdefault("StartStates", '{"pending"}')     # as HippoClientSession.open_circuit creates it
    c.setdefault("Lifecycle", "FALSE")
    c.setdefault("MaxPings", 0)
    c.setdefault("LoopTicks", "{}")
    with_carry = c.pop("WithCarry", "FALSE")
    c.setdefault("Oldest", "{}")
    txt += "CONSTANTS " + " ".join("%s = %s" % kv for kv in c.items()) + "\n"
    if forms:
        txt += 'CONSTANTS Forms = {"app", "pa", "mix"} WithCarry = %s\n' % with_carry
    txt += "CONSTRAINT Bound\nVIEW View\n"
    if check:
        for i in ("TypeOK", "AckEveryReceipt", "DispatchAtMostOnce", "FirstCopyDispatched", "ProtectedOnce", "AckedWhilePending", "MemoryShape", "UnreliableAlwaysDelivered", "DispatchReachesAll",
                  "Partition", "DoneIffAcked", "FailedIffSpent", "IdsIncreasing", "LastIsLast"):
            txt += "INVARIANT %s\n" % i
        txt += "PROPERTY Final\nPROPERTY OneShotOnce\nPROPERTY RememberedNeverAgain\n"
    return txt


class _Agg:
    """One violation per distinct clause, with the shortest failing history."""

    def __init__(self):
        self.by = {}

    def add(self, clause, hist_len, detail):
        cur = self.by.get(clause)
        if cur is None:
            self.by[clause] = [1, hist_len, detail]
        else:
            cur[0] += 1
            if hist_len < cur[1]:
                cur[1], cur[2] = hist_len, detail

    def report(self, chk: Check, kind, label):
        for clause in sorted(self.by):
            n, _, detail = self.by[clause]
            d = dict(detail)
            d["failing_cases_with_this_clause"] = n
            chk.violation("%s %s: %s" % (kind.upper(), label, clause), {"kind": kind, "clause": clause}, d)


def _b1(chk: Check, consts, label, sample_every, max_pairs=0):
    global _G, _SAMPLE_EVERY, _B1_WINDOW, _INIT_ALIVE, _B1_BUDGET
    _B1_WINDOW = consts.get("Window")
    _B1_BUDGET = consts.get("SetBudget")
    consts = {k: v for k, v in consts.items() if k != "SetBudget"}
    res = common.model_check(chk, "ClientCircuit_MC", _mc_cfg(consts, "Spec"), "ClientCircuit_MC " + label)
    recs = common.export_records(chk, "ClientCircuit_MBT", _mc_cfg(consts, "MSpec", check=False, forms=True),
                                 "ClientCircuit_MBT " + label)
    g = Graph(recs)
    _INIT_ALIVE = {common.skey(r["init"]): r["obs"]["alive"] for r in recs if isinstance(r, dict) and "init" in r}
    if res.ok and len(g.states) < res.distinct:
        raise MachineryError("MBT export has %d states, model has %d" % (len(g.states), res.distinct))
    _G, _SAMPLE_EVERY = g, sample_every
    ids = g.reachable_edges()
    if len(ids) != len(g.edges):
        raise MachineryError("unreachable edges in the export")
    all_pairs = len(g.merge_pairs(10 ** 9))
    pairs = g.merge_pairs(max_pairs or (6000 if chk.tier == "quick" else 40000))
    chk.cov["b1_merge_pairs_replayed"] = chk.cov.get("b1_merge_pairs_replayed", 0) + len(pairs)
    ids = ids + pairs
    # interleave so that chunks have similar cost
    chunks = [ids[i::common.NCPU * 4] for i in range(common.NCPU * 4)]
    import time
    t0 = time.time()
    results = common.parallel_map(_replay_chunk, [c for c in chunks if c])
    chk.notes.append("B1 %s: %d edges + %d (merging edge, next edge) pairs of %d replayed in %.1fs" % (
        label, len(ids) - len(pairs), len(pairs), all_pairs, time.time() - t0))
    steps = sum(r[0] for r in results)
    chk.count(steps)
    chk.cov["traces_validated_against_impl"] += len(ids)
    chk.cov["b1_edges_replayed"] = chk.cov.get("b1_edges_replayed", 0) + len(ids)
    agg = _Agg()
    for _, bads, _ in results:
        for b in bads:
            for m in b["mismatches"]:
                agg.add(m[0], len(b["history"]), {"history": b["history"], "expected": m[1], "got": m[2],
                                                  "all_mismatches_of_this_step": [x[0] for x in b["mismatches"]]})
    agg.report(chk, "b1", label)
    for e in g.edges:
        a = e["act"]
        o = e["obs"]["out"]
        if (a["n"] == "Recv" and a["rel"] and not o["deliver"]) or o["completed"] or o["failed"] or \
                any(t["resent"] for t in o["tx"]) or any(sum(c) >= 2 for c in o["calls"].values()):
            chk.nontrivial(("edge", label, e["_s"], common.skey(a)))
    e = g.edges[min(len(g.edges) - 1, 4321)]
    chk.sample({"binding": "B1 edge replay " + label, "history": [p["act"] for p in g.path_to(e["_s"])] + [e["act"]],
                "expected_observation": e["obs"]})
    return [t for r in results for t in r[2]]


# ----------------------------------------------------------------------------------------
# B2 random walks
# ----------------------------------------------------------------------------------------

async def _walk(client, rng, length, every_ms):
    drv = Driver(client, None, rng.choice(["pending", "pending", "alive"]))
    evs = drv.start_events()
    state = drv.start
    go_alive_at = rng.choice([0, 3, 10, 40, length + 1]) if state == "pending" else -1
    disconnect_at = rng.choice([length + 1, length + 1, length - rng.randrange(5, 40)])
    rel_pids, unrel_pids = [], []
    next_pid = rng.randrange(1, 50)
    my_rel = []      # IDs the endpoint used for reliable sends (read off its datagrams)
    p_dup = rng.choice([0.2, 0.5, 0.8])
    p_tick = rng.choice([0.1, 0.3, 0.6])
    p_sub = rng.choice([0.0, 0.05, 0.12])
    p_ping = rng.choice([0.0, 0.06, 0.15])
    loop_ticks = rng.random() < 0.4        # the clock is driven through the client's resend loop / the circuit's own pass
    p_carry = rng.choice([0.0, 0.3])

    def pick_carry():
        if rng.random() >= p_carry:
            return None
        r = rng.random()
        if r < 0.4 and my_rel:
            return rng.choice(my_rel[-4:])                         # the ID of an earlier (maybe unacked) reliable send
        if r < 0.7 and drv.issued:
            return rng.choice(drv.issued[-6:])
        return (max(drv.issued) if drv.issued else -1) + rng.randrange(1, 5)
    ticks = [1, 500, every_ms // 2, every_ms - 1, every_ms, every_ms + 1, every_ms * 3]

    def pick_acks():
        k = rng.choice([0, 0, 1, 1, 2, 3])
        pool = []
        for _ in range(k):
            c = rng.random()
            if c < 0.6 and my_rel:
                pool.append(rng.choice(my_rel[-6:]))            # a recent reliable send (pending or not)
            elif c < 0.8 and drv.issued:
                pool.append(rng.choice(drv.issued[-8:]))        # any ID the endpoint used (acks, unreliable)
            else:
                pool.append((max(drv.issued) if drv.issued else -1) + rng.randrange(1, 4))   # not issued yet
        return pool

    for step in range(length):
        c = rng.random()
        if state == "pending" and step == go_alive_at:
            ev = await drv.go_alive()
            state = "alive"
        elif state != "dead" and step == disconnect_at:
            ev = await drv.disconnect()
            state = "dead"
        elif state == "dead":
            # nothing is sent, clocked or subscribed on a disconnected circuit; strays and peer packets still arrive
            if rng.random() < 0.25:
                ev = await drv.stray(pick_acks())
            else:
                rel = rng.random() < 0.7
                pool = rel_pids if rel else unrel_pids
                if pool and rng.random() < 0.5:
                    pid = rng.choice(pool[-5:])
                else:
                    next_pid += 1
                    while next_pid in rel_pids or next_pid in unrel_pids:
                        next_pid += 1
                    pid = next_pid
                    pool.append(pid)
                ev = await drv.recv(pid, rel, pick_acks(), "app")
        elif rng.random() < p_ping:
            # what a truthful peer says: one of its recent reliable packets (our ack may be lost) or its next unsent ID;
            # sometimes anything
            r = rng.random()
            if r < 0.6 and rel_pids:
                oldest = rng.choice(rel_pids[-4:])
            elif r < 0.85:
                oldest = max(rel_pids + unrel_pids + [next_pid]) + 1
            else:
                oldest = rng.randrange(0, next_pid + 10)
            ev = await drv.ping(oldest)
        elif c < p_tick:
            ev = await (drv.loop_tick if loop_ticks else drv.tick)(rng.choice(ticks))
        elif c < p_tick + 0.12:
            ev = await drv.send_rel(pick_carry())
            my_rel += [t["id"] for t in ev["tx"] if t["rel"] and not t["resent"]]
        elif c < p_tick + 0.16:
            ev = await drv.send_unrel(pick_carry())
        elif c < p_tick + 0.19:
            ev = await drv.stray(pick_acks())
        elif c < p_tick + 0.19 + p_sub:
            level = rng.choice(["sess", "reg"])
            if len(drv.extra[level]) >= 12:
                continue
            ev = await drv.subscribe(level, rng.choice(["perm", "once", "retTrue", "waitfor", "once", "waitfor"]))
        else:
            rel = rng.random() < 0.65
            pool = rel_pids if rel else unrel_pids
            if pool and rng.random() < p_dup:
                pid = rng.choice(pool[-5:]) if rng.random() < 0.8 else rng.choice(pool)    # duplicate / reordered old
            else:
                next_pid += rng.randrange(1, 4)
                pid = next_pid
                if rng.random() < 0.2:
                    pid = next_pid + rng.randrange(2, 6)      # arrives ahead of older ones (reordering)
                    if pid in rel_pids or pid in unrel_pids:
                        pid = next_pid
                if pid in rel_pids or pid in unrel_pids:
                    continue
                pool.append(pid)
            acks = pick_acks()
            form = "app"
            if not rel and acks:
                form = rng.choice(["app", "pa", "pa", "mix"])
            ev = await drv.recv(pid, rel, acks, form)
        evs.append(ev)
    drv.close()
    return _strip(evs)


async def _walks_async(args):
    seed, n, length, every_ms = args
    import random
    rng = random.Random(seed)
    client = _imports()["HippoClient"]()
    try:
        return [await _walk(client, rng, length, every_ms) for _ in range(n)]
    finally:
        await client.aclose()


def _walks_chunk(args):
    return asyncio.run(_walks_async(args))


async def _long_walk_async(args):
    """Fill the real de-duplication memory and go past it, then retransmit recent and old packets."""
    seed, window = args
    import random
    rng = random.Random(seed)
    client = _imports()["HippoClient"]()
    try:
        drv = Driver(client, None, rng.choice(["pending", "alive"]))      # the memory does not wait for the handshake
        evs = drv.start_events()
        pids = []
        nxt = rng.randrange(1, 1000)

        async def fresh():
            nonlocal nxt
            nxt += rng.randrange(1, 3)
            pids.append(nxt)
            evs.append(await drv.recv(nxt, True, [], "app"))

        async def again(back):
            if back < len(pids):
                evs.append(await drv.recv(pids[-1 - back], True, [], "app"))
        for _ in range(window - rng.randrange(0, 3)):
            await fresh()
        # around the moment the memory is full, and beyond: every new packet is followed by retransmissions of recent ones
        for k in range(rng.randrange(6, 14)):
            await fresh()
            for back in rng.sample([0, 1, 2, 3, 10, 100, window - 2, window - 1], 3):
                await again(back)
            await again(1)
        for back in (0, 1, 2, 10, window - 1, window, window + 1, len(pids) - 1):      # remembered ... forgotten (open)
            await again(back)
        await fresh()
        for back in (1, 2, 0, window - 1, window):
            await again(back)
        drv.close()
        return _strip(evs)
    finally:
        await client.aclose()


async def _slow_walk_async(args):
    """Production values: one subscribe_async() consumer per level that does not read while `n` packets arrive (unreliable
    ones: no ack traffic), with a few reliable ones and their retransmissions in between; then both drain."""
    seed, n = args
    import random
    rng = random.Random(seed)
    client = _imports()["HippoClient"]()
    try:
        drv = Driver(client)
        drv.small_backlog = False
        evs = drv.start_events()
        evs.append(await drv.subscribe("sess", "asyncq"))
        evs.append(await drv.subscribe("reg", "asyncq"))
        pid = 10
        rel = []
        for k in range(n):
            pid += 1
            if k % 97 == 5:
                rel.append(pid)
                evs.append(await drv.recv(pid, True, [], "app"))
            elif k % 97 == 40 and rel:
                evs.append(await drv.recv(rng.choice(rel), True, [], "app"))      # a retransmission: suppressed
                pid -= 1
            else:
                evs.append(await drv.recv(pid, False, [], "app"))
        evs.append(await drv.drain("sess", 1))
        evs.append(await drv.recv(pid + 1, False, [], "app"))
        evs.append(await drv.drain("reg", 1))
        evs.append(await drv.drain("sess", 1))
        drv.close()
        return _strip(evs)
    finally:
        await client.aclose()


def _slow_walk_chunk(args):
    return asyncio.run(_slow_walk_async(args))


def _long_walk_chunk(args):
    return asyncio.run(_long_walk_async(args))


def _b2(chk: Check, traces, label, budget, every_ms, window=None):
    cfg = ("SPECIFICATION TraceSpec\nCONSTANTS Budget = %d Every = %d Window = %d IterateLive = FALSE\n"
           "POSTCONDITION TraceAccepted\nCHECK_DEADLOCK FALSE\n" % (budget, every_ms, window or _WINDOW_REAL))
    acc, rej, results = common.validate_traces("ClientCircuit_Trace", cfg, traces, chk.scratch, shards=(2 if len(traces) < 40 else 4) if chk.tier == "quick" else common.NCPU,
                                               tag="c19" + label)
    agg = _Agg()
    for r in results:
        chk.add_tlc(r, "ClientCircuit_Trace " + label)
        if r.assert_failed:
            raise MachineryError("driver violated an environment assumption:\n" + r.out[-1500:])
        seen = set()
        for rec in r.printed():
            if isinstance(rec, dict) and "fail" in rec and (rec["tid"], rec["fail"]) not in seen:
                seen.add((rec["tid"], rec["fail"]))
                t = traces[rec["tid"]]
                agg.add(rec["fail"], len(t), {"trace_prefix": common._clip(t[:40])})
    for ti, j, ev in rej:
        agg.add("trace rejected at %s" % ev.get("ev"), j, {"trace_prefix": common._clip(traces[ti][:j + 1][-12:])})
    agg.report(chk, "b2", label)
    chk.cov["traces_validated_against_impl"] += len(traces)
    chk.count(sum(len(t) for t in traces))
    for i, t in enumerate(traces):
        if any(e["ev"] == "Tick" and any(x["resent"] for x in e["tx"]) for e in t) and \
                any(e["ev"] == "Recv" and e["rel"] and e["dl"]["sess"] == 0 for e in t):
            chk.nontrivial(("walk", label, i))
    if traces:
        chk.sample({"binding": "B2 trace " + label, "events": traces[0][:5]})


def run(chk: Check):
    global _WINDOW_REAL
    budget, every = reflect_constants()
    _WINDOW_REAL = reflect_window()
    chk.cov["rule"] = ("B1: every edge of the exhaustively enumerated bounded model (all interleavings of peer packets "
                       "reliable/unreliable with duplication and reordering, acks in appended/PacketAck/mixed form for "
                       "pending/completed/foreign/not-yet-issued IDs, stray datagrams, reliable and unreliable sends, "
                       "clock steps; plus a configuration where permanent / one_shot / returns-True / wait_for() subscribers are "
                       "registered at session and region level in every order) replayed into a fresh real endpoint with the "
                       "full observation compared (calls of every subscriber ever registered); every edge is additionally replayed "
                       "behind other histories that merge into its source state (non-tree incoming edges, incl. actions that "
                       "leave the abstract state unchanged: stray datagram, idle clock step), thinned evenly to a cap; "
                       "non-trivial = edges with a suppressed duplicate, a completion, a retransmission or a failure. "
                       "B2: recorded histories re-validated by TLC; non-trivial = walks with a retransmission and a "
                       "suppressed duplicate.")
    chk.assumptions += [
        "de-duplication memory = the last Window distinct reliable IDs (Window reflected from Circuit.seen_reliable.maxlen); "
        "what happens to a duplicate of an ID that was pushed out of it is left open (bound to the observed dispatch); the "
        "exhaustive small-window model is bound by replacing the public deque by a shorter one",
        "peer datagrams are well-formed, UDP-permitted messages (a UDP-banned message is discarded before acking)",
        "the event loop is pumped between datagrams; clock is virtual (module attribute dt of message.circuit)",
        "every configuration drives the circuit the way HippoClientSession.open_circuit() creates it (is_alive = False, no "
        "handshake); the lifecycle configuration and the walks also start from a bare Circuit (is_alive = True), complete the "
        "handshake (is_alive = True as connect() does) and call Circuit.disconnect()",
        "StartPingCheck(OldestUnacked): IDs below the highest announcement are released -- a later duplicate of one contradicts "
        "the peer and its dispatch is left open (not judged); the announced ID itself and newer ones stay protected; the "
        "CompletePingCheck answer (one unreliable datagram echoing the PingID) is observed; pings use packet IDs of their own",
        "a disconnected circuit is outside the property; ASSUMED as the unchanged code behaves: pending sends orphaned (futures "
        "stay pending), packet IDs start over, reception (ack, de-duplication, dispatch) continues; no send / clock step / "
        "subscription is driven on it",
        "LoopTick = clock advance followed by ONE iteration of the client's own resend loop HippoClient._attempt_resends (its "
        "pause is served by a stand-in for the module attribute `asyncio` of hippo_client, on virtual time); that loop skips "
        "circuits that are not alive, so on a circuit whose handshake is not through sends only grow older (unchanged code, "
        "assumed); the resendloop configuration sets ReliableResendInfo.tries_left = 2 on each send's public resend record",
        "slow consumer: a subscribe_async(take=False) block is entered and left open; Drain reads until a read would block; "
        "if MessageHandler has a class constant ASYNC_BACKLOG_LIMIT it is set to 3 on the handler instances of the exhaustive "
        "configuration (deep constant), the slow-consumer walk runs against the production value with 1500+ packets",
        "a message object handed to send()/send_reliable() may already carry a packet ID (earlier / equal / later than IDs "
        "issued, or a still unacked send's ID); the law ignores it",
        "Tick = clock advance followed by Circuit.resend_unacked() (what HippoClient._attempt_resends calls)",
        "retry budget %d and resend period %d ms are read from the code, not fixed by the property" % (budget, every),
        "permanent subscribers are plain callables subscribed by name and by '*' at session and region level; further "
        "subscribers (permanent, one_shot=True, returning True, MessageHandler.wait_for(take=False)) subscribe to the data "
        "message name after them, so a PacketAck message does not match them; a wait_for() waiter is observed through its future",
    ]
    half = every // 2
    base = dict(Budget=budget, Every=every, MaxAcks=2, Ticks="{%d, %d}" % (half, every))
    quick = chk.tier == "quick"
    # exhaustive model without a depth bound (no replay: too many edges)
    common.model_check(chk, "ClientCircuit_MC",
                       _mc_cfg(dict(base, RelPids="{1,2}", UnrelPids="{3}", MaxRcv=2, MaxSends=2, MaxUnrel=1, Depth=0)
                               if not quick else
                               dict(base, RelPids="{1}", UnrelPids="{3}", MaxRcv=2, MaxSends=2, MaxUnrel=1, Depth=0),
                               "Spec"), "ClientCircuit_MC full")
    traces = []
    # receive-heavy, depth bounded
    traces += _b1(chk, dict(base, RelPids="{1,2}", UnrelPids="{3}", MaxRcv=2, MaxSends=2, MaxUnrel=1,
                            Depth=5 if quick else 6), "recv", 97 if quick else 97, max_pairs=8000 if quick else 60000)
    # timer-heavy, unbounded depth: budget exhaustion, retransmission counts
    traces += _b1(chk, dict(base, RelPids="{}", UnrelPids="{1}", MaxRcv=1, MaxSends=2, MaxUnrel=0, MaxAcks=1, Depth=0),
                  "timer", 17 if quick else 7, max_pairs=8000 if quick else 0)
    # subscribers that remove themselves during dispatch, registered before / after permanent ones, both levels
    traces += _b1(chk, dict(base, RelPids="{1}", UnrelPids="{2}", MaxRcv=2, MaxSends=0, MaxUnrel=0, MaxAcks=0, Ticks="{}",
                            MaxSubs=2, SubKinds='{"perm", "once", "retTrue", "waitfor"}', Depth=5 if quick else 6),
                  "subscribers", 151 if quick else 211, max_pairs=8000 if quick else 0)
    # the peer's StartPingCheck announcing its oldest unacknowledged packet (truthful or not), answered by the real region
    # handler; duplicates of the announced packet itself and of newer ones must still be suppressed
    traces += _b1(chk, dict(base, RelPids="{1,2}", UnrelPids="{}", MaxRcv=3, MaxSends=0, MaxUnrel=0, MaxAcks=0, Ticks="{}",
                            MaxPings=2 if quick else 3, Oldest="{0,1,2,3}", Depth=7 if quick else 9), "ping", 11)
    # a subscribe_async() consumer that does not read while packets arrive, then drains (backlog bound, if any, set to 3)
    traces += _b1(chk, dict(base, RelPids="{1}", UnrelPids="{2}", MaxRcv=4, MaxSends=0, MaxUnrel=0, MaxAcks=0, Ticks="{}",
                            MaxSubs=1, SubKinds='{"asyncq"}', Depth=7 if quick else 8), "slow-consumer", 13, max_pairs=3000 if quick else 0)
    # the client's own resend loop drives the clock: two reliable sends of different ages on a client-built circuit whose
    # handshake completes; a small budget (set on the resend records) so that one send's exhaustion is followed by more
    ltraces = _b1(chk, dict(base, Budget=2, SetBudget=2, RelPids="{}", UnrelPids="{1}", MaxRcv=1, MaxSends=2, MaxUnrel=0, MaxAcks=1,
                            Ticks="{}", LoopTicks="{%d, %d}" % (half, every), StartStates='{"pending"}', Lifecycle="TRUE",
                            Depth=8 if quick else 10), "resendloop", 23, max_pairs=5000 if quick else 0)
    _b2(chk, ltraces, "b1-histories-resendloop", 2, every)
    # ... and the default budget with nothing else happening
    traces += _b1(chk, dict(base, RelPids="{}", UnrelPids="{}", MaxRcv=0, MaxSends=2, MaxUnrel=0, MaxAcks=0, Ticks="{}",
                            LoopTicks="{%d, %d}" % (half, every), StartStates='{"alive"}', Depth=0), "resendloop-default", 17,
                  max_pairs=6000 if quick else 0)
    # the message object handed to send() / send_reliable() already carries a packet ID
    traces += _b1(chk, dict(base, RelPids="{}", UnrelPids="{1}", MaxRcv=1, MaxSends=2, MaxUnrel=1, MaxAcks=1,
                            Ticks="{%d}" % every, WithCarry="TRUE", Depth=5 if quick else 7), "carry", 7, max_pairs=6000 if quick else 0)
    # life of the circuit: created-not-yet-alive (as the endpoint makes it) or bare-alive, handshake completes, disconnect
    traces += _b1(chk, dict(base, RelPids="{1}", UnrelPids="{2}", MaxRcv=2, MaxSends=1 if quick else 2, MaxUnrel=1, MaxAcks=1,
                            Ticks="{%d}" % every, StartStates='{"pending", "alive"}', Lifecycle="TRUE", Depth=7 if quick else 8),
                  "lifecycle", 37, max_pairs=4000 if quick else 0)
    # de-duplication memory of 2 (3) IDs: eviction, duplicates of remembered and of forgotten IDs
    b1_traces = traces
    wtraces = _b1(chk, dict(base, Window=2, RelPids="{1,2,3}", UnrelPids="{4}", MaxRcv=3, MaxSends=0, MaxUnrel=0, MaxAcks=0,
                            Ticks="{}", Depth=7 if quick else 9), "window2", 29 if quick else 13)
    if not quick:
        w3 = _b1(chk, dict(base, Window=3, RelPids="{1,2,3,4}", UnrelPids="{}", MaxRcv=2, MaxSends=0, MaxUnrel=0, MaxAcks=0,
                           Ticks="{}", Depth=9), "window3", 0)
    _b2(chk, wtraces, "b1-histories-window2", budget, every, window=2)
    traces = b1_traces
    if not quick:
        traces += _b1(chk, dict(base, RelPids="{1}", UnrelPids="{}", MaxRcv=3, MaxSends=1, MaxUnrel=1,
                                Ticks="{%d, %d, %d}" % (every - 1, every, 1), Depth=9), "edge-times", 211)
    _b2(chk, traces, "b1-histories", budget, every)
    n_walks, length = (24, 150) if quick else (320, 300)
    per = max(1, n_walks // (common.NCPU * 2))
    jobs = [(chk.rng.randrange(1 << 30), per, length, every) for _ in range(n_walks // per)]
    walks = [t for r in common.parallel_map(_walks_chunk, jobs) for t in r]
    _b2(chk, walks, "walks", budget, every)
    # the real memory: more distinct reliable packets than it holds through ONE real circuit, then retransmissions
    n_long = 2 if quick else 8
    longs = common.parallel_map(_long_walk_chunk, [(chk.rng.randrange(1 << 30), _WINDOW_REAL) for _ in range(n_long)])
    _b2(chk, longs, "window-walks", budget, every)
    slow = common.parallel_map(_slow_walk_chunk, [(chk.rng.randrange(1 << 30), 1500 if quick else 2500) for _ in range(1 if quick else 2)])
    _b2(chk, slow, "slow-consumer-walks", budget, every)
    chk.cov["window_walks"] = {"walks": n_long, "window": _WINDOW_REAL, "events": sum(len(t) for t in longs)}
    chk.cov["exhaustive"] = True


# ---- growth beyond the listed property: the Vivox voice control connection (VoiceClient.tla) and the client
# endpoint's region/session life cycle (ClientSession.tla)
_run_circuit = run


def run(chk):
    _run_circuit(chk)
    from . import growth_voiceclient, growth_clientsession
    if chk.tier == "quick":
        common.growth(chk, "VoiceClient", growth_voiceclient.section, "ModesQuick", 0, 2000)
        common.growth(chk, "ClientSession", growth_clientsession.section)
    else:
        common.growth(chk, "VoiceClient", growth_voiceclient.section, "ModesThorough", 0, 8000)
        common.growth(chk, "ClientSession", growth_clientsession.section, 1, seeds=2, max_n=2, cap_pairs=3000)
