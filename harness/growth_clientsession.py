"""Growth: the client endpoint's region/session life cycle (ClientSession.tla).

B1: every edge of six bounded models (different starting points of a session and different sets of enabled actions, see
PROFILES) is replayed into a fresh real HippoClient + HippoClientSession + HippoClientProtocol and the whole observation
of the last step is compared with what TLC printed for that edge:
  tx        datagrams handed to the transport in this step, in order: [simulator, message name, reliable, resent]
  http      requests started in this step: [seed | eq, simulator]
  raised    exception type escaping the call / datagram_received
  regs      session.regions in order: address, handle, seed capability generation, circuit closed/alive, EventQueueGet cap
            known, region named by RegionHandshake, state of region.connected
  main, cmain, byHandle, byAddr   session.main_region, client.main_region, region_by_handle, region_by_circuit_addr
  calls, tp  the tasks of the connect() calls the driver made, the future returned by teleport()
  polls, closed   open event-queue polls per simulator, transport.close() calls
The models are exported and model-checked (INVS, PROPS) in the same TLC runs.

Driver: recording transport; the aiohttp session is replaced by a scripted one (seed capability answered at once, 200 or
500; event queue polls stay open until the driver delivers an event); asyncio loop with a virtual clock; virtual `dt` in
hippolyzer.lib.base.message.circuit.  A model Tick is 3 s in six steps of 0.5 s (one round of HippoClient._attempt_resends
each), so every send and resend happens on a multiple of 3 s and "due" is never a matter of float rounding.  The session is
built as HippoClient.login(connect=False) leaves it (login itself is out of scope); AUTO_REQUEST_PARCELS / _MATERIALS are
switched off (documented settings).  Simulators acknowledge by PacketAck, number their packets per address, and start from 1
again when they are announced while the client holds no live circuit to them (a restarted simulator).
"""
from __future__ import annotations

import asyncio
import datetime as real_dt
import types

from . import common
from .common import Check, Graph, MachineryError

ADDR = {1: ("10.0.0.1", 13001), 2: ("10.0.0.2", 13002), 3: ("10.0.0.3", 13003)}
ADDR_IX = {v: k for k, v in ADDR.items()}
HANDLE = {1: (1000 << 32) | 1001, 2: (1000 << 32) | 1002, 3: (1000 << 32) | 1003}
HANDLE_IX = {v: k for k, v in HANDLE.items()}
EPS = 0.001          # what HippoClientRegion._poll_event_queue sleeps between two polls
STEP = 0.5           # what HippoClient._attempt_resends sleeps between two rounds
PUMP_ROUNDS = 8


def seed_url(a, k):
    return "https://sim%d.test/seed/%d" % (a, k)


def eq_url(a, k):
    return "https://sim%d.test/eq/%d" % (a, k)


def _parse_url(url):
    # -> (kind, a, k)
    try:
        host, kind, k = url.split("//", 1)[1].split("/")
        return kind, int(host[3:-5]), int(k)
    except Exception:
        return "?", 0, 0


class VirtualTimeLoop(asyncio.SelectorEventLoop):
    """asyncio loop whose clock only moves when the driver says so."""

    def __init__(self):
        super().__init__()
        self._vt = 1000.0

    def time(self):
        return self._vt


async def _spin(rounds):
    for _ in range(rounds):
        await asyncio.sleep(0)


class FakeHTTPError(Exception):
    pass


class _Resp:
    def __init__(self, status, body):
        self.status = status
        self._body = body

    def raise_for_status(self):
        if self.status >= 400:
            raise FakeHTTPError("HTTP %d" % self.status)

    async def read(self):
        return self._body

    def close(self):
        pass


class _Deferred:
    def __init__(self, make):
        self._make = make

    def __await__(self):
        return self._make().__await__()


class FakeHttp:
    """Stands in for the aiohttp.ClientSession of the client: answers the seed capability at once, keeps event
    queue polls open until the driver delivers something (a long poll) and records what was asked."""

    def __init__(self, impl):
        self.impl = impl
        self.log = []          # [kind, a] per request started since the last observation
        self.polls = {}        # a -> [future, ...] open event queue polls
        self.seed_ok = True
        self.closed = False

    def _request(self, method, url, **kw):
        # connect() builds the seed request long before it awaits it (and never awaits it when the handshake does not get
        # that far): hand out an awaitable that only becomes a coroutine when it is awaited
        return _Deferred(lambda: self._do_request(method, url))

    async def _do_request(self, method, url):
        from hippolyzer.lib.base import llsd
        kind, a, k = _parse_url(url)
        if kind == "seed":
            self.log.append(["seed", a])
            if not self.seed_ok:
                return _Resp(500, b"")
            return _Resp(200, llsd.format_xml({"EventQueueGet": eq_url(a, k)}))
        if kind == "eq":
            self.log.append(["eq", a])
            fut = asyncio.get_event_loop().create_future()
            self.polls.setdefault(a, []).append(fut)
            try:
                body = await fut
            finally:
                self.polls[a].remove(fut)
            return _Resp(200, body)
        self.log.append(["other", a])
        return _Resp(404, b"")

    async def close(self):
        self.closed = True


_IM = None


def _imports():
    global _IM
    if _IM is None:
        from hippolyzer.lib.base import llsd
        from hippolyzer.lib.base.helpers import create_logged_task
        from hippolyzer.lib.base.message import circuit as circ_mod
        from hippolyzer.lib.base.message.llsd_msg_serializer import LLSDMessageSerializer
        from hippolyzer.lib.base.message.message import Message, Block
        from hippolyzer.lib.base.message.msgtypes import PacketFlags
        from hippolyzer.lib.base.message.udpserializer import UDPMessageSerializer
        from hippolyzer.lib.base.message.udpdeserializer import UDPMessageDeserializer
        from hippolyzer.lib.base.network.transport import AbstractUDPTransport
        from hippolyzer.lib.base.datatypes import UUID, Vector3
        from hippolyzer.lib.client.hippo_client import HippoClient, HippoClientProtocol, HippoClientSession

        class RecTransport(AbstractUDPTransport):
            def __init__(self):
                self.sent = []
                self.closed = 0

            def send_packet(self, packet):
                self.sent.append(packet)

            def close(self):
                self.closed += 1

        _IM = types.SimpleNamespace(
            llsd=llsd, create_logged_task=create_logged_task, circ_mod=circ_mod, Message=Message, Block=Block,
            PacketFlags=PacketFlags, ser=UDPMessageSerializer(), de=UDPMessageDeserializer(), llsd_ser=LLSDMessageSerializer(),
            RecTransport=RecTransport, UUID=UUID, Vector3=Vector3, HippoClient=HippoClient,
            HippoClientProtocol=HippoClientProtocol, HippoClientSession=HippoClientSession)
    return _IM


def _fut_state(f):
    if f is None:
        return "none"
    if not f.done():
        return "p"
    if f.cancelled():
        return "x"
    e = f.exception()
    if e is None:
        return "d"
    return "f:" + type(e).__name__


class Impl:
    """One real client endpoint, logged in at simulator 1 (as HippoClient.login(connect=False) leaves it)."""

    def __init__(self):
        im = self.im = _imports()
        self.loop = VirtualTimeLoop()
        asyncio.set_event_loop(self.loop)
        self.clock = real_dt.datetime(2020, 1, 1)
        outer = self

        class _DT(real_dt.datetime):
            @classmethod
            def now(cls, tz=None):
                return outer.clock
        self.saved_dt = im.circ_mod.dt
        im.circ_mod.dt = types.SimpleNamespace(datetime=_DT, timedelta=real_dt.timedelta)
        self.closed = False
        try:
            self.loop.run_until_complete(self._setup())
        except BaseException:
            self.close()
            raise

    async def _setup(self):
        im = self.im
        self.client = im.HippoClient()
        real_http = self.client.http_session
        self.http = FakeHttp(self)
        self.client.http_session = self.http
        await real_http.close()
        self.client.settings.AUTO_REQUEST_PARCELS = False
        self.client.settings.AUTO_REQUEST_MATERIALS = False
        login = {
            "session_id": str(im.UUID(int=1)), "secure_session_id": str(im.UUID(int=2)), "agent_id": str(im.UUID(int=3)),
            "circuit_code": 123, "sim_ip": ADDR[1][0], "sim_port": ADDR[1][1],
            "region_x": HANDLE[1] >> 32, "region_y": HANDLE[1] & 0xFFFFFFFF, "seed_capability": seed_url(1, 1),
        }
        # what HippoClient.login() does once the login reply is there
        self.sess = im.HippoClientSession.from_login_data(login, self.client)
        self.client.session = self.sess
        self.transport = im.RecTransport()
        self.sess.transport = self.transport
        self.proto = self.sess.protocol = im.HippoClientProtocol(self.sess)
        self.client._resend_task = im.create_logged_task(self.client._attempt_resends(), "Circuit Resend")
        if not self.sess.open_circuit(ADDR[1]):
            raise MachineryError("open_circuit refused the login region")
        self.sim_pid = {1: 0, 2: 0, 3: 0}
        self.unacked = {1: {}, 2: {}, 3: {}}     # a -> {message name: packet id} reliable, not yet acknowledged by the driver
        self.conn_tasks = []                     # [a, task] for every connect() the driver called
        self.tp_futs = []                        # futures returned by teleport()

    # ---- plumbing ---------------------------------------------------------------------------
    def pump(self, rounds=PUMP_ROUNDS):
        """Run the loop until everything that is ready has run (every `await sleep(0)` is one loop iteration; the longest
        chain in this area -- ack -> connect() resumes -> seed fetch -> event queue task starts -> poll registered ->
        wait_for returns -> teleport future, or event queue answer -> connect task starts -> teleport coroutine resumes --
        is 4 iterations)."""
        if rounds:
            self.loop.run_until_complete(_spin(rounds))

    def _advance(self, seconds, wall=True, rounds=PUMP_ROUNDS):
        self.loop._vt += seconds
        if wall:
            self.clock = self.clock + real_dt.timedelta(seconds=seconds)
        self.pump(rounds)

    def _region(self, a):
        for r in self.sess.regions:
            if r.circuit_addr == ADDR[a]:
                return r
        return None

    def _from_sim(self, a, msg, reliable):
        im = self.im
        self.sim_pid[a] += 1
        msg.packet_id = self.sim_pid[a]
        if reliable:
            msg.send_flags |= im.PacketFlags.RELIABLE
        data = im.ser.serialize(msg)
        st, r = common.impl_call(self.proto.datagram_received, data, ADDR[a])
        return None if st == "ok" else r

    def _eq_event(self, via, ev):
        """The simulator at `via` answers the open event queue poll with one event."""
        im = self.im
        polls = self.http.polls.get(via) or []
        if not polls:
            return "no open event queue poll at %d" % via
        self.eq_id = getattr(self, "eq_id", 0) + 1
        polls[0].set_result(im.llsd.format_xml({"id": self.eq_id, "events": [ev]}))
        self.pump()
        self._advance(EPS, wall=False, rounds=0)      # the poller sleeps 1 ms before it asks again (the step's own pump follows)
        return None

    def _announce(self, kind, a, k):
        im = self.im
        Message, Block = im.Message, im.Block
        if kind == "EstablishAgentCommunication":
            return {"message": kind, "body": {"agent-id": im.UUID(int=3), "sim-ip-and-port": "%s:%d" % ADDR[a],
                                              "seed-capability": seed_url(a, k)}}
        if kind == "TeleportFinish":
            m = Message(kind, Block("Info", AgentID=im.UUID(int=3), LocationID=4, SimIP=ADDR[a][0], SimPort=ADDR[a][1],
                                    RegionHandle=HANDLE[a], SeedCapability=seed_url(a, k), SimAccess=13, TeleportFlags=0))
        elif kind == "CrossedRegion":
            m = Message(kind, Block("AgentData", AgentID=im.UUID(int=3), SessionID=im.UUID(int=1)),
                        Block("RegionData", SimIP=ADDR[a][0], SimPort=ADDR[a][1], RegionHandle=HANDLE[a],
                              SeedCapability=seed_url(a, k)),
                        Block("Info", Position=im.Vector3(1, 2, 3), LookAt=im.Vector3(1, 0, 0)))
        elif kind == "EnableSimulator":
            m = Message(kind, Block("SimulatorInfo", Handle=HANDLE[a], IP=ADDR[a][0], Port=ADDR[a][1]))
        elif kind == "TeleportFailed":
            m = Message(kind, Block("Info", AgentID=im.UUID(int=3), Reason="no"), Block("AlertInfo", Message="no", ExtraParams=b""))
        else:
            raise MachineryError("unknown event %r" % kind)
        return im.llsd_ser.serialize(m, as_dict=True)

    # ---- one step ---------------------------------------------------------------------------
    def step(self, act):
        im = self.im
        Message, Block = im.Message, im.Block
        n = act["n"]
        res = {}
        note = None
        if n == "Connect":
            r = self._region(act["a"])
            if r is None:
                note = "no region %d" % act["a"]
            else:
                self.conn_tasks.append([act["a"], self.loop.create_task(r.connect(main_region=act["main"]))])
        elif n == "Disconnect":
            r = self._region(act["a"])
            if r is None:
                note = "no region %d" % act["a"]
            else:
                st, x = common.impl_call(r.disconnect)
                if st != "ok":
                    res["raised"] = x
        elif n == "Teleport":
            async def call():
                return self.client.teleport(HANDLE[act["h"]])
            st, x = common.impl_call(self.loop.run_until_complete, call())
            if st == "ok":
                self.tp_futs.append(x)
            else:
                res["raised"] = x
        elif n == "Logout":
            st, x = common.impl_call(self.client.logout)
            if st != "ok":
                res["raised"] = x
        elif n == "Ack":
            pid = self.unacked[act["a"]].pop(act["m"], None)
            if pid is None:
                note = "client never sent %s to %d" % (act["m"], act["a"])
            else:
                x = self._from_sim(act["a"], Message("PacketAck", Block("Packets", ID=pid)), False)
                if x:
                    res["raised"] = x
        elif n == "Handshake":
            x = self._from_sim(act["a"], Message("RegionHandshake",
                                                 Block("RegionInfo", SimName="sim%d" % act["a"], fill_missing=True),
                                                 Block("RegionInfo2", fill_missing=True), Block("RegionInfo3", fill_missing=True),
                                                 Block("RegionInfo4", fill_missing=True)), True)
            if x:
                res["raised"] = x
        elif n == "Moved":
            x = self._from_sim(act["a"], Message("AgentMovementComplete", Block("AgentData", AgentID=im.UUID(int=3), SessionID=im.UUID(int=1)),
                                                 Block("Data", fill_missing=True), Block("SimData", fill_missing=True)), True)
            if x:
                res["raised"] = x
        elif n == "Disable":
            x = self._from_sim(act["a"], Message(act["k"]) if act["k"] == "DisableSimulator" else
                               Message("CloseCircuit"), True)
            if x:
                res["raised"] = x
        elif n == "Stray":
            x = self._from_sim(act["a"], Message("RegionHandshake", Block("RegionInfo", SimName="stray", fill_missing=True),
                                                 Block("RegionInfo2", fill_missing=True), Block("RegionInfo3", fill_missing=True),
                                                 Block("RegionInfo4", fill_missing=True)), True)
            if x:
                res["raised"] = x
        elif n == "TeleportLocal":
            x = self._from_sim(act["a"], Message("TeleportLocal", Block("Info", AgentID=im.UUID(int=3), fill_missing=True)), True)
            if x:
                res["raised"] = x
        elif n == "Announce":
            r = self._region(act["a"])
            if act["k"] != "EnableSimulator" and (r is None or not r.is_alive):
                # a simulator that is announced while the client has no live circuit to it may have been restarted: it
                # numbers its packets from 1 again (open_circuit gives such a region a new Circuit, so nothing it sends
                # can be mistaken for a retransmission of something seen on the old one)
                self.sim_pid[act["a"]] = 0
            note = self._eq_event(act["via"], self._announce(act["k"], act["a"], act.get("s", 1)))
        elif n == "TeleportFailed":
            note = self._eq_event(act["via"], self._announce("TeleportFailed", 0, 0))
        elif n == "SeedFails":
            self.http.seed_ok = False
        elif n == "Tick":
            for _ in range(int(round(3.0 / STEP)) * act.get("k", 1)):
                self._advance(STEP, rounds=5)     # whatever is still ready afterwards runs first in the next round
        else:
            raise MachineryError("unknown action %r" % (act,))
        self.pump()
        # the event loop's clock is never exactly on a timer's deadline when the next step begins (two timers due at the
        # same instant -- the resend round and wait_for()'s timeout -- would otherwise fire in heap order)
        self._advance(EPS, wall=False, rounds=2)
        if note:
            res["driver"] = note
        return self.observe(res)

    def observe(self, res):
        im = self.im
        tx = []
        for pkt in self.transport.sent:
            m = im.de.deserialize(pkt.data)
            a = ADDR_IX.get(tuple(pkt.dst_addr), 0)
            rel = bool(m.reliable)
            resent = bool(m.send_flags & im.PacketFlags.RESENT)
            tx.append([a, m.name, rel, resent])
            if rel and not resent and a:
                self.unacked[a][m.name] = m.packet_id      # the latest transmission under that name is the one the model talks about
        self.transport.sent.clear()
        res["tx"] = tx
        regs = []
        for r in self.sess.regions:
            a = ADDR_IX.get(tuple(r.circuit_addr), 0)
            caps = r.cap_urls
            kind, sa, sk = _parse_url(caps.get("Seed") or "")
            regs.append({"a": a, "h": HANDLE_IX.get(r.handle, 0), "seed": sk if (kind == "seed" and sa == a) else -1,
                         "circ": "none" if r.circuit is None else ("alive" if r.is_alive else "closed"),
                         "caps": "EventQueueGet" in caps, "named": r.name == "sim%d" % a, "conn": _fut_state(r.connected)})
        res["regs"] = regs
        mr = self.sess.main_region
        res["main"] = ADDR_IX.get(tuple(mr.circuit_addr), 0) if mr is not None else 0
        res["cmain"] = 0 if self.client.main_region is None else ADDR_IX.get(tuple(self.client.main_region.circuit_addr), 0)
        by_h, by_a = [], []
        for h in (1, 2):
            r = self.sess.region_by_handle(HANDLE[h])
            by_h.append(ADDR_IX.get(tuple(r.circuit_addr), 0) if r is not None else 0)
        for a in (1, 2, 3):
            r = self.sess.region_by_circuit_addr(ADDR[a])
            by_a.append(ADDR_IX.get(tuple(r.circuit_addr), 0) if r is not None else 0)
        res["byHandle"], res["byAddr"] = by_h, by_a
        res["calls"] = [[a, _fut_state(t)] for a, t in self.conn_tasks]
        res["tp"] = [_fut_state(f) for f in self.tp_futs]
        res["http"] = self.http.log
        self.http.log = []
        res["polls"] = [len(self.http.polls.get(a) or []) for a in (1, 2)]
        res["closed"] = self.transport.closed
        return res

    def close(self):
        if self.closed:
            return
        self.closed = True
        try:
            try:
                if self.client.session is not None:
                    self.client.logout()
            except Exception:
                pass
            self.client.http_session = None
            for t in asyncio.all_tasks(self.loop):
                t.cancel()
            self.pump(4)
            for _, t in self.conn_tasks:
                if t.done() and not t.cancelled():
                    t.exception()
            for f in self.tp_futs:
                if f.done() and not f.cancelled():
                    f.exception()
        except Exception:
            pass
        finally:
            self.im.circ_mod.dt = self.saved_dt
            try:
                self.loop.close()
            finally:
                asyncio.set_event_loop(None)


# ------------------------------------------------------------------------------------------------
# B1
# ------------------------------------------------------------------------------------------------
CANON = [{"n": "Connect", "a": 1, "main": True}, {"n": "Ack", "a": 1, "m": "UseCircuitCode"},
         {"n": "Ack", "a": 1, "m": "CompleteAgentMovement"}, {"n": "Handshake", "a": 1},
         {"n": "Ack", "a": 1, "m": "RegionHandshakeReply"}, {"n": "Ack", "a": 1, "m": "AgentThrottle"},
         {"n": "Ack", "a": 1, "m": "AgentUpdate"}]

CANON2 = [{"n": "Announce", "via": 1, "k": "TeleportFinish", "a": 2, "s": 1}, {"n": "Ack", "a": 2, "m": "UseCircuitCode"},
          {"n": "Ack", "a": 2, "m": "CompleteAgentMovement"}, {"n": "Handshake", "a": 2},
          {"n": "Ack", "a": 2, "m": "RegionHandshakeReply"}, {"n": "Ack", "a": 2, "m": "AgentThrottle"},
          {"n": "Ack", "a": 2, "m": "AgentUpdate"}]
PREFIX = {"fresh": [], "connected": CANON, "both": CANON + CANON2}

_GS = {}          # model name -> (Graph, start); set before forking


def _expected(obs):
    o, s = obs["o"], obs["s"]
    return {
        "tx": [list(t) for t in o["tx"]], "http": [list(t) for t in o["http"]], "raised": o["raised"], "driver": "",
        "regs": [dict(r) for r in s["regs"]], "main": s["main"], "cmain": s["cmain"],
        "byHandle": list(s["byHandle"]), "byAddr": list(s["byAddr"]),
        "calls": [list(c) for c in s["calls"]], "tp": s["tp"], "polls": list(s["polls"]), "closed": s["closed"],
    }


def _observed(got):
    tps = got["tp"]
    return {
        "tx": got["tx"], "http": got["http"], "raised": (got.get("raised") or "").split(":")[0], "driver": got.get("driver", ""),
        "regs": got["regs"], "main": got["main"], "cmain": got["cmain"], "byHandle": got["byHandle"], "byAddr": got["byAddr"],
        "calls": got["calls"], "tp": "none" if not tps else (tps[0] if len(tps) == 1 else tps), "polls": got["polls"],
        "closed": got["closed"],
    }


def _replay(items):
    res = []
    for name, item in items:
        g, start = _GS[name]
        pre = []
        if isinstance(item, tuple):
            pre, ei = [g.edges[item[0]]], item[1]
        else:
            ei = item
        e = g.edges[ei]
        impl = None
        hist = []
        try:
            impl = Impl()
            for a in PREFIX[start]:      # the user's connect() of the login handshake is call number 1 of the model
                impl.step(a)
                hist.append(a)
            for pe in g.path_to(pre[0]["_s"] if pre else e["_s"]) + pre:
                impl.step(pe["act"])
                hist.append(pe["act"])
            got = _observed(impl.step(e["act"]))
            hist.append(e["act"])
            exp = _expected(e["obs"])
            if got != exp:
                res.append({"history": hist, "expected": exp, "observed": got,
                            "differs": sorted(k for k in exp if exp[k] != got.get(k))})
        except MachineryError:
            raise
        except Exception as ex:  # noqa: the implementation left what the driver can handle: reported, not a crash of the section
            res.append({"history": hist if (hist and hist[-1] is e["act"]) else hist + [e["act"]],
                        "expected": _expected(e["obs"]), "observed": {"driver": "%s: %s" % (type(ex).__name__, str(ex)[:200])},
                        "differs": ["driver"]})
        finally:
            if impl is not None:
                impl.close()
    return res


INVS = ["TypeOK", "NoDuplicateRegion", "MainIsKnown", "OneStepOutstanding", "DeadIsQuiet", "PollsOnlyConnected",
        "SendsGoSomewhere", "NothingPendingAfterTimeouts"]
PROPS = ["StrayIsInert", "HandshakeInOrder", "MainSwitches", "TeleportLands"]
BUGS = ["UccNoResend"]      # defects of the pinned tree the model mirrors until they are decided (see ClientSession.tla, Resends)


def reflect_budget():
    """Transmissions per reliable send and the resend period are constants of the code (reflection bridge, as in c19)."""
    import dataclasses
    try:
        from hippolyzer.lib.base.message.circuit import ReliableResendInfo, Circuit
        budget = int([f.default for f in dataclasses.fields(ReliableResendInfo) if f.name == "tries_left"][0])
        every = float(Circuit(None, ADDR[1], None).resend_every)
        assert budget >= 2 and abs(every - 3.0) < 1e-9
        return budget
    except Exception as e:  # noqa
        raise MachineryError("cannot reflect retry budget / resend period: %r" % (e,))


ALL_ACTS = ["connect", "disconnect", "teleport", "logout", "ack", "handshake", "moved", "disable", "tplocal", "stray",
            "TeleportFinish", "CrossedRegion", "EstablishAgentCommunication", "EnableSimulator", "tpfailed", "seedbreaks",
            "tick", "expire"]
# Bounded models: (name, start, actions explored, base depth, MaxCalls, MaxAnn).  Restricting the actions keeps the
# graphs small enough to go deep where the life cycle is long (login handshake 7 steps, teleport 9 more).
PROFILES = [
    ("handshake", "fresh", ["connect", "ack", "handshake", "tick", "expire", "disconnect", "disable", "seedbreaks"], 8, 2, 0),
    ("teleport", "connected", ["teleport", "ack", "handshake", "TeleportFinish", "tick", "expire"], 10, 0, 1),
    ("neighbours", "connected", ["EstablishAgentCommunication", "CrossedRegion", "TeleportFinish", "ack", "handshake",
                                 "disconnect", "disable"], 6, 2, 2),
    ("return", "both", ["TeleportFinish", "ack", "handshake", "disconnect", "disable", "tick"], 7, 2, 2),
    ("all-fresh", "fresh", ALL_ACTS, 5, 2, 2),
    ("all-connected", "connected", ALL_ACTS, 4, 2, 2),
]


def _cfg(start, acts, depth, seeds, max_n, max_calls, max_ann, budget, bugs=None):
    return ("SPECIFICATION MSpec\nCONSTANTS Sims = {1, 2} Stranger = 3 Seeds = {%s} MaxN = %d MaxCalls = %d MaxAnn = %d "
            "Budget = %d TpTicks = 10 Bugs = {%s} Start = \"%s\" Depth = %d\nCONSTANT Acts = {%s}\n%s%s"
            % (", ".join(str(k) for k in range(1, seeds + 1)), max_n, max_calls, max_ann, budget,
               ", ".join('"%s"' % b for b in (BUGS if bugs is None else bugs)), start, depth, ", ".join('"%s"' % a for a in acts),
               "".join("INVARIANT %s\n" % i for i in INVS), "".join("PROPERTY %s\n" % i for i in PROPS)))


def _export(chk: Check, name, start, acts, depth, seeds, max_n, max_calls, max_ann, budget, bugs=None):
    """One bounded model: exported and model-checked (INVS, PROPS) in the same TLC run."""
    import os
    d = os.path.join(chk.scratch, "clientsession-" + name)
    os.makedirs(d, exist_ok=True)
    cfg = os.path.join(d, "ClientSession_MBT.cfg")
    with open(cfg, "w") as f:
        f.write(_cfg(start, acts, depth, seeds, max_n, max_calls, max_ann, budget, bugs))
    res = common.run_tlc(os.path.join(common.SPECS, "ClientSession_MBT.tla"), cfg, workers=1, scratch=d)
    if not res.ok:
        raise MachineryError("ClientSession_MBT export %s failed:\n%s" % (name, res.out[-3000:]))
    return res


def _items(g: Graph, cap_pairs):
    ids = g.reachable_edges()
    if len(ids) != len(g.edges):
        raise MachineryError("unreachable edges in the ClientSession export")
    return ids + g.merge_pairs(cap_pairs)


def _depth(name, base, deeper):
    # the model with every action enabled from the connected state grows fastest
    return base + (max(0, deeper - 1) if name == "all-connected" else deeper)


def _seeds(name, seeds):
    # a second seed capability generation matters where regions are announced repeatedly
    return max(seeds, 2) if name == "neighbours" else seeds


def _follow(g: Graph, acts, what):
    """The models that do not start fresh start where a canonical history of another model ends: follow it through that graph."""
    s = g.inits[0]
    for act in acts:
        nxt = [g.edges[i] for i in g.out.get(s, ()) if g.edges[i]["act"] == act]
        if not nxt:
            raise MachineryError("%s: %r is not a path of the ClientSession model it is taken from" % (what, act))
        s = nxt[0]["_d"]
    return s


REQUIRED_WITNESSES = ["handshake_completed", "teleport_done_after_finish", "teleport_timed_out", "main_region_switched",
                      "known_region_announced_again", "alive_region_reconnected", "connect_failed_by_timeout", "connect_failed_by_seed",
                      "region_dropped_while_connecting", "resend", "disconnect_then_tick_silent"]


def _witnesses(graphs):
    """How often the bounded models show the situations the invariants and the comparison are about (vacuity guard)."""
    w = {}

    def hit(k):
        w[k] = w.get(k, 0) + 1
    for g in graphs:
        for e in g.edges:
            s, d, o, act = e["src"], e["dst"], e["obs"]["o"], e["act"]
            sa = {r["a"]: r for r in s["regs"]}
            da = {r["a"]: r for r in d["regs"]}
            if s["tp"]["st"] == "conn" and d["tp"]["st"] == "d":
                hit("teleport_done_after_finish")
            if s["tp"]["st"] in ("req", "conn") and d["tp"]["st"] == "f:TimeoutError":
                hit("teleport_timed_out")
            if d["tp"]["st"] == "hung" and s["tp"]["st"] != "hung":
                hit("teleport_left_hanging")
            if s["main"] and d["main"] and s["main"] != d["main"]:
                hit("main_region_switched")
            if act["n"] == "Announce" and act["k"] != "EnableSimulator" and act["a"] in sa:
                hit("known_region_announced_again")
            for a, r in sa.items():
                r2 = da.get(a)
                if r["circ"] == "alive" and r2 is not None and r2["st"] == "ucc" and r["st"] != "ucc":
                    hit("alive_region_reconnected")
                if r["st"] in ("ucc", "cam", "rhr", "thr", "upd") and r2 is not None and r2["conn"] == "f:TimeoutError":
                    hit("connect_failed_by_timeout")
                if r["st"] == "upd" and r2 is not None and r2["conn"] == "f:FakeHTTPError":
                    hit("connect_failed_by_seed")
                if r["st"] == "upd" and r2 is not None and r2["conn"] == "d":
                    hit("handshake_completed")
                if r["st"] == "upd" and r2 is not None and r2["st"] == "idle" and r2["conn"] == "x":
                    hit("handshake_completed_after_teleport_gave_up")
                if r["st"] in ("ucc", "cam", "rh", "rhr", "thr", "upd") and r2 is None:
                    hit("region_dropped_while_connecting")
                if r["circ"] == "closed" and r["st"] in ("hung", "stale") and o["ev"] in ("tick", "expire") and not any(t[0] == a for t in o["tx"]):
                    hit("disconnect_then_tick_silent")
            if any(t[3] for t in o["tx"]):
                hit("resend")
    return w


def section(chk: Check, deeper: int = 0, seeds: int = 1, max_n: int = 1, cap_pairs: int = 300, only=None, bugs=None):
    """deeper: added to the base depth of every bounded model; seeds: seed capability generations a simulator may announce;
    max_n: single clock ticks per outstanding message; cap_pairs: merge pairs replayed per model."""
    _imports()          # before forking: the workers share the imported implementation
    budget = reflect_budget()
    per_action = {}
    work = []
    graphs = []
    _GS.clear()
    ends = {}
    profiles = [p for p in PROFILES if not only or p[0] in only]
    import concurrent.futures as cf
    with cf.ThreadPoolExecutor(max_workers=len(profiles)) as ex:        # each export is a JVM subprocess
        futs = [ex.submit(_export, chk, name, start, acts, _depth(name, depth, deeper), _seeds(name, seeds), max_n, max_calls, max_ann,
                          budget, bugs)
                for name, start, acts, depth, max_calls, max_ann in profiles]
        exports = [f.result() for f in futs]
    for (name, start, acts, depth, max_calls, max_ann), res in zip(profiles, exports):
        chk.add_tlc(res, "ClientSession %s (%s) d%d s%d n%d (export)" % (name, start, _depth(name, depth, deeper), _seeds(name, seeds), max_n))
        chk.cov["tlc_runs"][-1]["invariants"] = INVS + PROPS
        g = Graph(res.printed())
        if name == "handshake":
            ends["connected"] = _follow(g, CANON, "login handshake")
        elif name == "teleport":
            ends["both"] = _follow(g, CANON2, "teleport handshake")
        if start in ends and g.inits[0] != ends[start]:
            raise MachineryError("Start = \"%s\" is not the state its canonical history leads to:\n%s\n%s" % (start, ends[start], g.inits[0]))
        graphs.append((name, g))
        _GS[name] = (g, start)
        work += [(name, it) for it in _items(g, cap_pairs)]
        for e in g.edges:
            k = e["act"]["k"] if e["act"]["n"] == "Announce" else e["obs"]["o"]["ev"]
            per_action[k] = per_action.get(k, 0) + 1
            if e["obs"]["o"]["tx"] or e["obs"]["o"]["http"] or e["src"] != e["dst"]:
                chk.nontrivial(("clientsession", name, e["_s"], common.skey(e["act"])))
    n = common.NCPU * 4
    results = common.parallel_map(_replay, [c for c in (work[i::n] for i in range(n)) if c])
    bads = [b for r in results for b in r]
    total = len(work)
    missing = [a for a in ALL_ACTS if not per_action.get(a)] if not only else []
    if missing:
        raise MachineryError("ClientSession: actions that never fire in the bounded models: %s" % missing)
    wit = _witnesses([g for _, g in graphs])
    chk.cov["clientsession_witnesses"] = wit
    if not only:
        absent = [k for k in REQUIRED_WITNESSES if not wit.get(k)]
        if absent:
            raise MachineryError("ClientSession: the bounded models never show %s (vacuous invariants)" % absent)
    chk.count(total)
    chk.cov["traces_validated_against_impl"] += total
    chk.cov["clientsession_edges"] = total
    chk.cov["clientsession_actions"] = per_action
    seen = {}
    for b in sorted(bads, key=lambda b: len(b["history"])):
        key = (b["history"][-1]["n"], tuple(b["differs"]))
        seen[key] = seen.get(key, 0) + 1
        if seen[key] > 3:
            continue
        chk.divergence("ClientSession", "B1 client session: %s after %s differs from ClientSession specification"
                       % (",".join(b["differs"]), b["history"][-1]["n"]),
                       {"kind": "b1-clientsession", "differs": b["differs"], "last": b["history"][-1]["n"]}, b)
    for name, g in graphs:
        pick = [e for e in g.edges if e["act"]["n"] == "Announce" and e["act"]["k"] == "TeleportFinish" and e["obs"]["o"]["tx"]]
        if pick and name == "teleport":
            e = pick[0]
            chk.sample({"binding": "B1 client session (%s)" % name, "path": [p["act"] for p in g.path_to(e["_s"])] + [e["act"]],
                        "expected": e["obs"]})
