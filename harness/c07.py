"""C07 — addons cannot duplicate, lose or wedge traffic (AddonDispatch.tla)."""
from __future__ import annotations

import asyncio
import struct

from . import common
from .common import Check

INVS = ["AtMostOnce", "ExactlyOnceUnlessClaimed", "SentMeansOnWire", "NoResurrection", "Isolation",
        "Bookkeeping", "NothingPending"]

OPS = {
    "falsy": ([], 0, False, False), "truthy": ([], 0, True, False), "raise": ([], 0, False, True),
    "take": (["take"], 0, False, False), "takesend": (["take"], 1, False, False),
    "taketruthy": (["take"], 0, True, False), "drop": (["drop"], 0, True, False),
    "dropfalsy": (["drop"], 0, False, False), "send": (["send"], 0, False, False),
    "sendtruthy": (["send"], 0, True, False), "dropraise": (["drop"], 0, False, True),
    "sendraise": (["send"], 0, False, True), "sendsend": (["send", "send"], 0, False, False),
    "senddrop": (["send", "drop"], 0, False, False), "dropsend": (["drop", "send"], 0, True, False),
    "dropdrop": (["drop", "drop"], 0, True, False), "takedrop": (["take", "drop"], 0, True, False),
    "takesendorig": (["take", "send"], 0, False, False), "mutate": ([], 0, False, False),
    "none": ([], 0, False, False), "predraise": ([], 0, False, False),
}


class Scenario:
    """Shared scripted behaviour: one instance per replayed configuration."""

    def __init__(self, cfg):
        self.cfg = cfg
        self.log = []        # (point, idx, marker)
        self.refused = 0
        self.orig = None
        self.unexpected = []

    @staticmethod
    def marker_of(message):
        return message.packet_id

    def act(self, beh, region, message):
        ops, cp, ret, rz = OPS[beh]
        if self.orig is None:
            self.orig = message
        copy_ = None
        for op in ops:
            try:
                if op == "take":
                    copy_ = message.take()
                elif op == "send":
                    region.circuit.send(message)
                elif op == "drop":
                    region.circuit.drop_message(message)
            except Exception:      # noqa -- a refused re-send / re-drop; the circuit raises RuntimeError, but its message
                self.refused += 1  # formats the Message, which for an unparseable body raises the parse error instead
        if beh == "mutate":
            _mutate(message)
        if cp and copy_ is not None:
            _mark_copy(copy_)
            region.circuit.send(copy_)
        if rz:
            raise ValueError("scripted failure")
        return True if ret else None


def _mutate(m):
    if m.name == "CompletePingCheck":
        m["PingID"]["PingID"] = 55
    else:
        m["ChatData"]["Message"] = "mutated"


def _mark_copy(m):
    if m.name == "CompletePingCheck":
        m["PingID"]["PingID"] = 101
    else:
        m["ChatData"]["Message"] = "copy"


WAIT_NAMES = ("CompletePingCheck", "HealthMessage")     # every waiter waits for both; matching messages alternate


def _names(i):
    names = WAIT_NAMES if i % 3 else WAIT_NAMES[::-1]
    return (n for n in names) if i % 2 else names


# "truthy" is not the literal True: a count, a string, a non-empty container claim a message just as well
TRUTHY = (True, 1, "claimed", (0,))


def _truthy(cfg, idx):
    return TRUTHY[(idx + (1 if cfg["dir"] == "IN" else 0) + (2 if cfg["rel"] else 0)) % len(TRUTHY)]


class ScriptAddon:
    def __init__(self, idx, sc: Scenario):
        self.idx = idx
        self.sc = sc

    def handle_proxied_packet(self, session_manager, packet, session, region):
        marker = struct.unpack(">I", packet.data[1:5])[0]
        self.sc.log.append(("pkt", self.idx, marker))
        beh = self.sc.cfg["pkt"][self.idx - 1] if marker == 1 else "falsy"
        if beh == "truthy":
            return _truthy(self.sc.cfg, self.idx)
        if beh == "raise":
            raise ValueError("scripted failure")
        return None

    def handle_rlv_command(self, session, region, source, behaviour, options, param):
        self.sc.log.append(("rlv", self.idx, 1))
        beh = self.sc.cfg["rlv"][self.idx - 1]
        if beh == "truthy":
            return _truthy(self.sc.cfg, self.idx + 1)
        if beh == "raise":
            raise ValueError("scripted failure")
        return None

    def handle_lludp_message(self, session, region, message):
        if message.name == "PacketAck" or message.synthetic:
            return None
        marker = message.packet_id
        self.sc.log.append(("udp", self.idx, marker))
        if marker != 1:
            return None
        ret = self.sc.act(self.sc.cfg["udp"][self.idx - 1], region, message)
        return _truthy(self.sc.cfg, self.idx + 2) if ret else ret


class LogRecorder:
    def __init__(self):
        self.msgs = []

    def log_lludp_message(self, session, region, message):
        self.msgs.append(message)


def _first_message(cfg):
    from hippolyzer.lib.base.datatypes import UUID
    from hippolyzer.lib.base.message.message import Block, Message
    from hippolyzer.lib.base.message.msgtypes import PacketFlags
    from hippolyzer.lib.base.network.transport import Direction
    d = Direction.OUT if cfg["dir"] == "OUT" else Direction.IN
    flags = PacketFlags.RELIABLE if cfg["rel"] else PacketFlags(0)
    if cfg["kind"] == "plain":
        return Message("CompletePingCheck", Block("PingID", PingID=1), packet_id=1, flags=flags, direction=d)
    if cfg["kind"] == "badbody":
        # run_scenario cuts the datagram inside the text field: the header stays valid, the body cannot be parsed
        return Message("ImprovedInstantMessage",
                       Block("AgentData", AgentID=UUID(int=3), SessionID=UUID(int=1)),
                       Block("MessageBlock", FromGroup=False, ToAgentID=UUID(int=5), ParentEstateID=1, RegionID=UUID(int=6),
                             Position=(1.0, 2.0, 3.0), Offline=0, Dialog=0, ID=UUID(int=7), Timestamp=0,
                             FromAgentName="Someone", Message="a message that is cut off in the middle", BinaryBucket=b""),
                       Block("EstateBlock", EstateID=1), packet_id=1, flags=flags, direction=d)
    if cfg["kind"] == "rlv":
        from hippolyzer.lib.base.datatypes import Vector3
        return Message("ChatFromSimulator",
                       Block("ChatData", FromName="obj", SourceID=UUID(int=9), OwnerID=UUID(int=3), SourceType=2,
                             ChatType=8, Audible=1, Position=Vector3(1, 2, 3), Message="@detach=n"),
                       packet_id=1, flags=flags, direction=d)
    return Message("ChatFromViewer",
                   Block("AgentData", AgentID=UUID(int=3), SessionID=UUID(int=1)),
                   Block("ChatData", Message="nosuchcommand", Type=1, Channel=524),
                   packet_id=1, flags=flags, direction=d)


def run_scenario(cfg):
    from . import proxyenv
    from hippolyzer.lib.base.network.transport import Direction
    sc = Scenario(cfg)
    addons = [ScriptAddon(i + 1, sc) for i in range(len(cfg["pkt"]))]
    rec = LogRecorder()
    env = proxyenv.ProxyEnv(addons=addons, logger=rec)
    env.protocol.resend_task.cancel()
    loop = asyncio.get_event_loop_policy().get_event_loop()
    try:
        def sub(point, beh):
            def handler(message):
                if message.synthetic or message.name == "PacketAck":
                    return None
                sc.log.append((point, 0, message.packet_id))
                if message.packet_id != 1:
                    return None
                sc.act(beh, env.region, message)
                return None
            return handler
        def raising_pred(message):
            # an addon's predicate that blows up on one particular (legal) message
            if not message.synthetic and message.name != "PacketAck" and message.packet_id == 1:
                raise KeyError("scripted predicate failure")
            return True
        for point, mh in (("sess", env.session.message_handler), ("reg", env.region.message_handler)):
            beh = cfg[point]
            if beh == "predraise":
                mh.register("*").subscribe(sub(point, "falsy"), predicate=raising_pred)
            elif beh != "none":
                mh.subscribe("*", sub(point, beh))
        m1 = _first_message(cfg)
        raw = None
        if cfg["kind"] == "badbody":
            from hippolyzer.lib.base.network.transport import UDPPacket
            pkt = env.endpoint_packet(m1)
            raw = pkt.data[:-30]
            try:
                env.protocol.handle_proxied_packet(UDPPacket(pkt.src_addr, pkt.dst_addr, raw, pkt.direction))
                exc = None
            except Exception as e:  # noqa
                exc = type(e).__name__ + ": " + str(e)[:120]
        else:
            exc = env.deliver(m1)
        proxyenv.pump(loop, 2)
        out1 = env.transport.take()
        d = cfg["dir"]
        rd = "IN" if d == "OUT" else "OUT"
        wire = copies = dropacks = 0
        mutated = False
        for p in out1:
            pd = "OUT" if p.direction == Direction.OUT else "IN"
            if raw is not None and bytes(p.data) == bytes(raw) and pd == d:
                wire += 1       # forwarded untouched, byte for byte
                continue
            m = env.deser.deserialize(p.data)
            if m.name == m1.name and pd == d:
                val = m["PingID"]["PingID"] if m.name == "CompletePingCheck" else str(m["ChatData"]["Message"])
                if val in (101, "copy"):
                    copies += 1
                else:
                    wire += 1
                    mutated = val in (55, "mutated")
            elif m.name == "PacketAck" and pd == rd and [b["ID"] for b in m["Packets"]] == [1]:
                dropacks += 1
        o = sc.orig
        if o is None:
            # never reached a message-level hook; find it through the logger if it was logged
            cand = [m for m in rec.msgs if not m.synthetic and m.name == m1.name]
            o = cand[0] if cand else None
        if o is None:
            own = "fresh"
        elif o.dropped:
            own = "dropped"
        elif o.finalized:
            own = "sent"
        elif o.queued:
            own = "queued"
        else:
            own = "fresh"
        obs = {"wire": wire, "mutated": mutated, "copies": copies, "dropAcks": dropacks,
               "invoked": sorted([list(x[:2]) for x in sc.log if x[2] == 1]), "refused": sc.refused,
               "logged": any((not m.synthetic) and m.name == m1.name and m.packet_id is not None for m in rec.msgs),
               "own": own, "escaped": exc}
        # a second, plain message afterwards must be unaffected
        rec.msgs.clear()
        m2 = proxyenv.ping(Direction.OUT if d == "OUT" else Direction.IN, 2)
        exc2 = env.deliver(m2)
        proxyenv.pump(loop, 2)
        n2 = 0
        for p in env.transport.take():
            m = env.deser.deserialize(p.data)
            if m.name == "CompletePingCheck" and m["PingID"]["PingID"] == 2:
                n2 += 1
        obs["second"] = {"wire": n2, "escaped": exc2,
                         "invoked": sorted([list(x[:2]) for x in sc.log if x[2] == 2]),
                         "logged": any((not m.synthetic) and m.name == "CompletePingCheck" for m in rec.msgs)}
        return obs
    finally:
        env.close()


def expected_second(cfg):
    n = len(cfg["pkt"])
    inv = [["pkt", i] for i in range(1, n + 1)] + [["udp", i] for i in range(1, n + 1)]
    if cfg["sess"] != "none":
        inv.append(["sess", 0])
    if cfg["reg"] != "none":
        inv.append(["reg", 0])
    return {"wire": 1, "escaped": None, "invoked": sorted(inv), "logged": True}


_ROWS = None


def _replay(idx):
    loop = asyncio.new_event_loop()
    asyncio.set_event_loop(loop)
    bad = []
    for i in idx:
        row = _ROWS[i]
        cfg, exp = row["cfg"], dict(row["obs"])
        exp["invoked"] = sorted([list(x) for x in exp["invoked"]])
        exp["escaped"] = None
        exp["second"] = expected_second(cfg)
        try:
            got = run_scenario(cfg)
        except Exception as e:  # the harness could not even run the scenario
            got = {"harness_exception": type(e).__name__ + ": " + str(e)[:200]}
        # hooks the model says must run have to run; extra invocations (e.g. behind a claiming
        # hook) are not forbidden by the property, so `invoked` is compared as a superset
        for side in (got, got.get("second") or {}):
            ref = exp if side is got else exp["second"]
            if isinstance(side.get("invoked"), list) and all(x in side["invoked"] for x in ref["invoked"]):
                side["invoked"] = ref["invoked"]
        if got != exp:
            diff = sorted(k for k in set(exp) | set(got) if exp.get(k) != got.get(k))
            bad.append({"cfg": cfg, "expected": exp, "observed": got, "differs": diff})
    loop.close()
    return bad


def _table(chk: Check, n, pktb, udpb, subb, kinds, label):
    global _ROWS
    fmt = lambda s: "{" + ", ".join('"%s"' % x for x in s) + "}"
    cfg = ("SPECIFICATION Spec\nCONSTANTS N = %d\n PktB = %s\n UdpB = %s\n SubB = %s\n RlvB = {\"falsy\", \"truthy\", \"raise\"}\n Kinds = %s\n%s" % (
        n, fmt(pktb), fmt(udpb), fmt(subb), fmt(kinds), "".join("INVARIANT %s\n" % i for i in INVS)))
    common.model_check(chk, "AddonDispatch", cfg, "AddonDispatch " + label)
    rows = common.export_records(chk, "AddonDispatch_MBT", cfg.replace("".join("INVARIANT %s\n" % i for i in INVS), "")
                                 + "INVARIANT PrintDone\n", label)
    _ROWS = [r for r in rows if "cfg" in r]
    if len(_ROWS) < 10:
        raise common.MachineryError("AddonDispatch_MBT printed %d rows" % len(_ROWS))
    results = common.parallel_map(_replay, common.chunked(list(range(len(_ROWS))), common.NCPU * 4))
    chk.count(len(_ROWS))
    chk.cov["traces_validated_against_impl"] += len(_ROWS)
    for r in _ROWS:
        c = r["cfg"]
        if any(b not in ("falsy", "none") for b in c["pkt"] + c["udp"] + [c["sess"], c["reg"]]):
            chk.nontrivial(common.skey(c))
    for bads in results:
        for b in bads:
            c = b["cfg"]
            chk.violation("B1 %s: scenario outcome differs from AddonDispatch specification (%s)" % (label, ",".join(b["differs"])),
                          {"kind": "b1", "differs": b["differs"], "udp": c["udp"], "pkt": c["pkt"],
                           "sess": c["sess"], "reg": c["reg"], "msgkind": c["kind"]}, b)
    chk.sample({"binding": "B1 scenario " + label, "row": _ROWS[len(_ROWS) // 2]})


CORE_UDP = ["falsy", "truthy", "raise", "take", "takesend", "drop", "send", "mutate"]
ALL_UDP = [b for b in OPS if b != "none"]


def run(chk: Check):
    chk.cov["rule"] = ("every assignment of behaviours to the packet-level and message-level hooks of N scripted addons and to session/region "
                       "subscribers x direction x reliability x {plain, command-channel chat}, each run through the real proxy; followed by "
                       "a second plain message. non-trivial = at least one hook does something other than return falsy")
    chk.assumptions += ["addons interact with the message only through take()/circuit.send()/circuit.drop_message()/field assignment and return values",
                        "a raising subscriber predicate is modelled for one subscriber per level (Event.notify does not isolate predicates from later subscribers of the SAME event; that case is not generated)",
                        "emissions are classified by content marker (copy marked 101/'copy', mutation 55/'mutated')"]
    if chk.tier == "quick":
        _table(chk, 2, ["falsy", "truthy", "raise"], CORE_UDP, ["none", "raise", "take"], ["plain", "cmdchat"], "n2-core")
        _table(chk, 2, ["falsy", "raise"], ["falsy", "truthy", "drop"], ["none", "take", "drop", "send"], ["rlv"], "n2-rlv")
        _table(chk, 2, ["falsy", "raise"], ["falsy", "truthy", "raise", "drop"], ["none", "falsy"], ["badbody"], "n2-badbody")
        _table(chk, 1, ["falsy"], ALL_UDP, ["none", "falsy", "raise", "predraise", "take", "takesend", "drop", "send"], ["plain"], "n1-all")
    else:
        _table(chk, 2, ["falsy", "truthy", "raise"], ALL_UDP, ["none", "raise", "predraise", "take", "takesend"], ["plain", "cmdchat"], "n2-all")
        _table(chk, 3, ["falsy", "truthy", "raise"], ["falsy", "truthy", "raise", "take", "drop", "send"], ["none", "take"], ["plain"], "n3-core")
        _table(chk, 2, ["falsy", "truthy", "raise"], ["falsy", "truthy", "raise", "take", "drop", "send"], ["none", "raise", "take", "drop", "send"], ["rlv"], "n2-rlv")
        _table(chk, 2, ["falsy", "truthy", "raise"], ["falsy", "truthy", "raise", "drop", "send"], ["none", "falsy", "raise"], ["badbody"], "n2-badbody")
    chk.cov["exhaustive"] = True


# =========================================================================================
# Waiters.tla: wait_for / subscribe_async life cycle (message_handler.py, events.py)
# =========================================================================================
class VirtualTimeLoop(asyncio.SelectorEventLoop):
    """asyncio loop whose clock only moves when the driver says so."""

    def __init__(self):
        super().__init__()
        self._vt = 1000.0

    def time(self):
        return self._vt

    def advance(self, dt):
        self._vt += dt
        for _ in range(4):
            self.run_until_complete(asyncio.sleep(0))


class WaiterImpl:
    TIMEOUT_UNIT = 5.0     # seconds per model clock unit

    def __init__(self, T):
        from . import proxyenv
        self.pe = proxyenv
        self.loop = VirtualTimeLoop()
        asyncio.set_event_loop(self.loop)
        self.env = proxyenv.ProxyEnv(addons=[])
        self.env.protocol.resend_task.cancel()
        self.T = T
        self.ws = []      # per waiter: dict(kind, task/ctx, fut, got)
        self.pid = 0

    def close(self):
        try:
            for x in self.ws:
                if x.get("task") is not None and not x["task"].done():
                    x["task"].cancel()
            self.pump()
            self.env.close()
            for t in asyncio.all_tasks(self.loop):
                t.cancel()
            self.pump()
        finally:
            self.loop.close()

    def pump(self):
        for _ in range(4):
            self.loop.run_until_complete(asyncio.sleep(0))

    def step(self, act):
        from hippolyzer.lib.base.network.transport import Direction
        mh = self.env.region.message_handler
        n = act["n"]
        res = {}
        if n == "Start":
            rec = {"kind": act["kind"], "got": 0}
            if act["kind"] == "wait":
                async def waiter():
                    # message names may be any iterable, also a one-shot one (generator): every other waiter uses one
                    fut = mh.wait_for(_names(len(self.ws)), take=act["take"],
                                      timeout=(self.T * self.TIMEOUT_UNIT if act["to"] else None))
                    rec["fut"] = fut
                    try:
                        await fut
                        rec["got"] += 1
                    except BaseException:      # timeout or cancellation: the future's state is the observation
                        pass
                rec["task"] = self.loop.create_task(waiter())
            else:
                ready = self.loop.create_future()
                stop = self.loop.create_future()

                async def block():
                    with mh.subscribe_async(_names(len(self.ws) + 1), take=act["take"]) as get_msg:
                        ready.set_result(None)

                        async def drain():
                            while True:
                                await get_msg()
                                rec["got"] += 1
                        d = asyncio.ensure_future(drain())
                        try:
                            await stop
                        finally:
                            d.cancel()
                rec["task"] = self.loop.create_task(block())
                rec["stop"] = stop
            self.ws.append(rec)
        elif n == "Cancel":
            self.ws[act["i"] - 1]["task"].cancel()
        elif n == "Close":
            self.ws[act["i"] - 1]["stop"].set_result(None)
        elif n == "Advance":
            self.loop.advance(act["dt"] * self.TIMEOUT_UNIT)
        elif n == "Message":
            self.pid += 1
            m = self.pe.ping(Direction.IN, self.pid, reliable=act["rel"])
            if self.pid % 2 == 0:
                # the other name the waiters wait for: a waiter resolved by one name must be gone for the other too
                from hippolyzer.lib.base.message.message import Block, Message
                m = Message("HealthMessage", Block("HealthData", Health=50.0), packet_id=self.pid, flags=m.send_flags,
                            direction=Direction.IN)
            exc = self.env.deliver(m)
            self.pump()
            wire = acks = 0
            for p in self.env.transport.take():
                mm = self.env.deser.deserialize(p.data)
                if mm.name in WAIT_NAMES:
                    wire += 1
                elif mm.name == "PacketAck" and p.direction == Direction.OUT:
                    acks += 1
            res = {"wire": wire, "dropAcks": acks, "escaped": exc}
        self.pump()
        futs = []
        for x in self.ws:
            if x["kind"] == "async":
                futs.append("async")
                continue
            f = x.get("fut")
            if f is None or not f.done():
                futs.append("pending")
            elif f.cancelled():
                futs.append("cancelled")
            elif f.exception() is not None:
                futs.append("timeout" if isinstance(f.exception(), asyncio.TimeoutError) else "exc:" + type(f.exception()).__name__)
            else:
                futs.append("result")
        res["futs"] = futs
        res["got"] = [x["got"] for x in self.ws]
        return res


def _wdiff(act, obs, got):
    bad = []
    if got["futs"] != list(obs["s"]["futs"]):
        bad.append(("futures", list(obs["s"]["futs"]), got["futs"]))
    if got["got"] != list(obs["s"]["got"]):
        bad.append(("messages received by waiters", list(obs["s"]["got"]), got["got"]))
    if act["n"] == "Message":
        o = obs["o"]
        if got["escaped"]:
            bad.append(("exception escaped", got["escaped"]))
        if got["wire"] not in o["wireAllowed"]:
            bad.append(("wire emissions", o["wireAllowed"], got["wire"]))
        want_ack = 1 if (act["rel"] and got["wire"] == 0) else 0
        if got["dropAcks"] != want_ack:
            bad.append(("drop ack to sender", want_ack, got["dropAcks"]))
    return bad


_WG = None
_WT = 2


def _wreplay(edge_ids):
    g = _WG
    res = []
    for item in edge_ids:
        pre = []
        if isinstance(item, tuple):     # (self-loop edge, following edge)
            pre, ei = [g.edges[item[0]]], item[1]
        else:
            ei = item
        e = g.edges[ei]
        impl = WaiterImpl(_WT)
        try:
            hist = []
            for pe_ in g.path_to(pre[0]["_s"] if pre else e["_s"]) + pre:
                impl.step(pe_["act"])
                hist.append(pe_["act"])
            got = impl.step(e["act"])
            hist.append(e["act"])
            bad = _wdiff(e["act"], e["obs"], got)
            if bad:
                res.append({"history": hist, "mismatches": bad[:4], "expected": e["obs"], "observed": got})
        finally:
            impl.close()
    return res


WINV = ["FinishedNeverTakes", "ElapsedMeansGone", "ForwardRule", "WaitOnce"]


def _waiters(chk: Check, n, depth, label):
    global _WG, _WT
    cfg = "SPECIFICATION MSpec\nCONSTANTS N = %d T = 2 Depth = %d\n%s" % (n, depth, "".join("INVARIANT %s\n" % i for i in WINV))
    recs = common.export_records(chk, "Waiters_MBT", cfg, "Waiters " + label)
    chk.cov["tlc_runs"][-1]["invariants"] = WINV
    g = common.Graph(recs)
    _WG, _WT = g, 2
    ids = g.reachable_edges() + g.merge_pairs(6000 if chk.tier == 'quick' else 60000)
    results = common.parallel_map(_wreplay, common.chunked(ids, common.NCPU * 4))
    chk.count(len(ids))
    chk.cov["traces_validated_against_impl"] += len(ids)
    for e in g.edges:
        if e["act"]["n"] == "Message" and e["src"]:
            chk.nontrivial(("waiters", e["_s"], common.skey(e["act"])))
    for bads in results:
        for b in bads:
            m = b["mismatches"][0]
            chk.violation("B1 waiters %s: %s differs from Waiters specification" % (label, m[0]),
                          {"kind": "b1-waiters", "what": m[0], "acts": [a["n"] for a in b["history"]]}, b)
    pick = [e for e in g.edges if e["act"]["n"] == "Message" and len(g.path_to(e["_s"])) >= 3]
    if pick:
        e = pick[len(pick) // 2]
        chk.sample({"binding": "B1 waiters " + label, "path": [p["act"] for p in g.path_to(e["_s"])] + [e["act"]],
                    "expected": e["obs"]})


_run_dispatch = run


def run(chk: Check):
    _run_dispatch(chk)
    chk.cov["rule"] += ("; waiters: every edge of the bounded Waiters model (start wait_for/subscribe_async with/without take and timeout, "
                        "cancel the awaiting task, leave the block, advance the clock, matching message) replayed on a virtual-time event loop")
    chk.assumptions += ["a waiter whose coroutine was cancelled but whose timeout has not elapsed may or may not still withhold a message (left open)",
                        "asyncio time is virtual (loop.time overridden); one model clock unit = 5 s"]
    from . import growth_taskscheduler, growth_commandparser, growth_addonreload
    common.growth(chk, "AddonReload", growth_addonreload.section, 2 if chk.tier == "quick" else 3, 7 if chk.tier == "quick" else 9)
    common.growth(chk, "CommandParser", growth_commandparser.section, 5 if chk.tier == "quick" else 6, 2 if chk.tier == "quick" else 3)
    if chk.tier == "quick":
        _waiters(chk, 2, 6, "n2-d6")
        common.growth(chk, "TaskScheduler", growth_taskscheduler.section, 2, 4, max_pairs=3000)
    else:
        _waiters(chk, 2, 8, "n2-d8")
        _waiters(chk, 3, 7, "n3-d7")
        common.growth(chk, "TaskScheduler", growth_taskscheduler.section, 2, 5, max_pairs=40000)
    chk.cov["rule"] += ("; task scheduler: every edge of the bounded TaskScheduler model (schedule with any scope, finish, session closed, "
                        "main region changed, addon module unloaded, shutdown) replayed through BaseAddon._schedule_task and the AddonManager call sites")
