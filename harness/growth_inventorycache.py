"""Growth beyond the listed properties: the client-side inventory cache under message histories
(InventoryCache.tla).

B1: every edge of the bounded model (plus the merging histories, `merge_pairs`) is replayed into a fresh REAL
manager -- `InventoryManager` of a `HippoClientSession` (variant "client") or `ProxyInventoryManager` of a proxy
`Session` (variants "proxy"/"proxyNF"/"nocache") -- by delivering real wire-round-tripped `Message` objects to the
session's `message_handler`, AIS responses to `process_aisv3_response` (client) or as flows to the session's
`http_message_handler` (proxy), and reading the cache (`load_cache` / letting the proxy's loader finish).
After the last edge the whole visible model (lookup by ID, parent_id/name/version, `node.parent`,
`category.children`, `model.root`, `any_dirty`, `dirty_categories`, `cache_loaded`) and the number of refused
messages are compared with what TLC printed for that edge.

Conventions of the driver: every RemoveInventoryItem/Folder message starts with a block for an ID that was never
issued (skipped like any unknown ID: a handler that stops after its first block is noticed even with one item);
the message kind "RemFolderDirect" hands the message to `_handle_remove_inventory_folder` itself (reflection bridge)
because the dispatcher never reaches it as long as the defect "RemFolderUnsubscribed" is open; agent-ID mismatches
are counted from the log records of Event.notify / the deferred-call loop, any other logged exception is reported.

Environment virtualisation (restored in `World.close`): the proxy looks for the viewer's cache through
`iter_viewer_cache_dirs` (replaced by a fixed list of two temp directories, order given by the variant) and reads it
in a worker thread via `asyncio.to_thread` (replaced, through the module attribute `asyncio` of
hippolyzer.lib.proxy.inventory_manager, by a coroutine that waits for the driver's gate: no thread, and the model
decides when the cache "has been loaded").
"""
from __future__ import annotations

import asyncio
import gzip
import logging
import os
import shutil
import tempfile
import types

from . import common
from .common import Check, Graph, MachineryError

# Known deviations of the implementation the specification is bound to (see the header of InventoryCache.tla).
# The intended behaviour is the empty set: remove an entry when the defect is fixed in /repo.
KNOWN_BUGS = ("RemFolderUnsubscribed", "UncheckedBulk", "UncheckedMove", "DirtyNeverFlagged", "NewestCacheIsLast")

INVARIANTS = ("TypeOK", "LookupAgrees", "NoCycle", "UntouchedBeforeLoad", "NothingPendingAfterLoad")
PROPERTIES = ("RemoveFolderExact", "RemoveItemExact", "MoveChangesOnlyParentAndName", "ForeignChangesNothing",
              "BulkKeepsVersion", "DirtyFlagged", "UpsertLands", "DeferredInOrderOnce", "LoadTakesOnlyCurrent")

ME, OTHER = 3, 9          # agent IDs (as UUID ints)


def _fid(name):           # "f2" -> UUID int
    return 0x10 + int(name[1:])


def _iid(name):
    return 0x100 + int(name[1:])


class _Tap(logging.Handler):
    """Exceptions swallowed by Event.notify / the deferred-call loop / asyncio are only visible as log records."""

    def __init__(self):
        super().__init__(level=logging.ERROR)
        self.excs = []

    def emit(self, record):
        ei = record.exc_info
        if ei and ei[0] is not None:
            self.excs.append("%s: %s" % (ei[0].__name__, str(ei[1])[:160]))
        elif record.name == "asyncio":
            self.excs.append("asyncio: " + record.getMessage()[:160])


class _AsyncioShim:
    """Stands in for the `asyncio` module inside hippolyzer.lib.proxy.inventory_manager: `to_thread` becomes a
    coroutine on the same loop that starts when the driver opens the gate."""

    def __init__(self):
        self.gate = None

    def __getattr__(self, k):
        return getattr(asyncio, k)

    def to_thread(self, fn, *a, **kw):
        gate = self.gate

        async def run():
            await gate.wait()
            return fn(*a, **kw)
        return run()


_SM = None


def _preimport():
    """Import the implementation in the parent so that forked replay workers do not each pay for it."""
    import hippolyzer.lib.client.hippo_client  # noqa
    import hippolyzer.lib.proxy.inventory_manager  # noqa
    import hippolyzer.lib.proxy.sessions  # noqa
    import hippolyzer.lib.proxy.addons  # noqa


class World:
    """Per worker: event loop, client, session manager, cache files, patches, log tap."""

    def __init__(self, env):
        from hippolyzer.lib.base import llsd
        from hippolyzer.lib.base.datatypes import UUID
        from hippolyzer.lib.base.message.message import Block, Message
        from hippolyzer.lib.base.message.udpdeserializer import UDPMessageDeserializer
        from hippolyzer.lib.base.message.udpserializer import UDPMessageSerializer
        from hippolyzer.lib.base.network.transport import Direction
        from hippolyzer.lib.base.inventory import InventoryCategory, InventoryItem
        from hippolyzer.lib.client.hippo_client import HippoClient, HippoClientSession
        from hippolyzer.lib.proxy import inventory_manager as pim
        from hippolyzer.lib.proxy.addons import AddonManager
        from hippolyzer.lib.proxy.sessions import SessionManager
        from hippolyzer.lib.proxy.settings import ProxySettings
        self.llsd, self.UUID, self.Block, self.Message, self.Direction = llsd, UUID, Block, Message, Direction
        self.Cat, self.Item = InventoryCategory, InventoryItem
        self.HippoClientSession = HippoClientSession
        self.AddonManager = AddonManager
        self.ser, self.de = UDPMessageSerializer(), UDPMessageDeserializer()
        self.env = env
        self.folders = sorted(env["folders"])
        self.items = sorted(env["items"])
        self.id_of = {n: UUID(int=_fid(n)) for n in self.folders}
        self.id_of.update({n: UUID(int=_iid(n)) for n in self.items})
        self.id_of["0"] = UUID.ZERO
        self.name_of = {v: k for k, v in self.id_of.items()}
        self.me, self.other = UUID(int=ME), UUID(int=OTHER)
        self.login = {
            "session_id": str(UUID(int=1)), "secure_session_id": str(UUID(int=2)), "agent_id": str(self.me),
            "circuit_code": 123, "sim_ip": "127.0.0.1", "sim_port": 2, "region_x": 0, "region_y": 123,
            "seed_capability": "https://127.0.0.1:4/foo",
            "inventory-skeleton": [
                {"name": env["skeleton"][f]["n"], "folder_id": str(self.id_of[f]), "parent_id": str(self.id_of[env["skeleton"][f]["p"]]),
                 "type_default": 8 if env["skeleton"][f]["p"] == "0" else -1, "version": env["skeleton"][f]["v"]}
                for f in self.folders],
        }
        # --- everything below changes process state: undone in close() ---
        self.tmp = None
        self.loop = None
        self.client = None
        self.pim = pim
        self.saved = None
        self.log_saved = None
        try:
            self.tmp = tempfile.mkdtemp(prefix="verif-invcache-")
            self.dir_new = os.path.join(self.tmp, "viewer-new")
            self.dir_old = os.path.join(self.tmp, "viewer-old")
            for d, cache, mtime in ((self.dir_new, env["cacheNew"], 1_700_000_000), (self.dir_old, env["cacheOld"], 1_600_000_000)):
                os.mkdir(d)
                p = os.path.join(d, str(self.me) + ".inv.llsd.gz")
                self._write_cache(p, cache)
                os.utime(p, (mtime, mtime))
            self.cache_new = os.path.join(self.dir_new, str(self.me) + ".inv.llsd.gz")
            self.dirs = []
            self.shim = _AsyncioShim()
            self.saved = (pim.asyncio, pim.iter_viewer_cache_dirs)
            pim.asyncio = self.shim
            import pathlib
            pim.iter_viewer_cache_dirs = lambda: iter([pathlib.Path(d) for d in self.dirs])
            self._tap_logging()
            self.loop = asyncio.new_event_loop()
            asyncio.set_event_loop(self.loop)

            async def mk():
                return HippoClient()
            self.client = self.loop.run_until_complete(mk())
            global _SM
            if _SM is None:
                _SM = SessionManager(ProxySettings())
            self.sm = _SM
            self.sm.sessions.clear()
            AddonManager.init([], self.sm, [])
        except BaseException:
            self.close()
            raise

    # ---- logging ------------------------------------------------------------------------
    def _tap_logging(self):
        self.tap = _Tap()
        mgr = logging.root.manager
        self.log_saved = (mgr.disable, [])
        logging.disable(logging.WARNING)          # ERROR and above are processed again
        for name in ("hippolyzer", "asyncio"):
            lg = logging.getLogger(name)
            self.log_saved[1].append((lg, lg.propagate, lg.level, list(lg.handlers)))
            lg.handlers = [self.tap]
            lg.propagate = False
            lg.setLevel(logging.ERROR)

    def close(self):
        try:
            if self.loop is not None and not self.loop.is_closed():
                try:
                    if self.client is not None:
                        self.loop.run_until_complete(self.client.aclose())
                    self.pump()
                finally:
                    asyncio.set_event_loop(None)
                    self.loop.close()
        finally:
            try:
                if getattr(self, "sm", None) is not None:
                    self.sm.sessions.clear()
                    self.AddonManager.init([], None, [])
            finally:
                if self.saved is not None:
                    self.pim.asyncio, self.pim.iter_viewer_cache_dirs = self.saved
                    self.saved = None
                if self.log_saved is not None:
                    logging.disable(self.log_saved[0])
                    for lg, prop, level, handlers in self.log_saved[1]:
                        lg.handlers, lg.propagate = handlers, prop
                        lg.setLevel(level)
                    self.log_saved = None
                if self.tmp:
                    shutil.rmtree(self.tmp, ignore_errors=True)

    def pump(self, rounds=4):
        for _ in range(rounds):
            self.loop.run_until_complete(asyncio.sleep(0))

    # ---- wire / file shapes --------------------------------------------------------------
    def _perm_llsd(self):
        z = self.UUID.ZERO
        return {"base_mask": 0x7fffffff, "owner_mask": 0x7fffffff, "group_mask": 0, "everyone_mask": 0, "next_owner_mask": 0x7fffffff,
                "creator_id": self.me, "owner_id": self.me, "last_owner_id": self.me, "group_id": z}

    def _write_cache(self, path, cache):
        """The viewer's inventory cache: gzip, one LLSD-notation map per line, header first."""
        lines = [{"inv_cache_version": 2}]
        for c in sorted(cache["cats"], key=lambda c: c["id"]):
            lines.append({"cat_id": self.id_of[c["id"]], "parent_id": self.id_of[c["p"]], "name": c["n"], "type": "category",
                          "preferred_type": "-1", "owner_id": self.me, "version": c["v"]})
        for i in sorted(cache["items"], key=lambda i: i["id"]):
            lines.append({"item_id": self.id_of[i["id"]], "parent_id": self.id_of[i["p"]], "name": i["n"], "desc": "", "type": "texture",
                          "inv_type": "texture", "flags": b"\x00\x00\x00\x00", "created_at": 1_500_000_000, "asset_id": self.UUID(int=0x500),
                          "permissions": self._perm_llsd(), "sale_info": {"sale_type": "not", "sale_price": 0}})
        with gzip.open(path, "wb") as f:
            for ln in lines:
                f.write(self.llsd.format_notation(ln) + b"\n")

    def item_block(self, block_name, spec):
        z = self.UUID.ZERO
        if spec is None:         # "no items": one block with the null ID
            return self.Block(block_name, ItemID=z, CallbackID=0, FolderID=z, CreatorID=z, OwnerID=z, GroupID=z, BaseMask=0, OwnerMask=0,
                              GroupMask=0, EveryoneMask=0, NextOwnerMask=0, GroupOwned=False, AssetID=z, Type=-1, InvType=-1, Flags=0,
                              SaleType=0, SalePrice=0, Name="", Description="", CreationDate=0, CRC=0)
        return self.Block(block_name, ItemID=self.id_of[spec["id"]], CallbackID=0, FolderID=self.id_of[spec["p"]], CreatorID=self.me,
                          OwnerID=self.me, GroupID=z, BaseMask=0x7fffffff, OwnerMask=0x7fffffff, GroupMask=0, EveryoneMask=0,
                          NextOwnerMask=0x7fffffff, GroupOwned=False, AssetID=self.UUID(int=0x500), Type=0, InvType=0, Flags=0,
                          SaleType=0, SalePrice=0, Name=spec["n"], Description="", CreationDate=1_500_000_000, CRC=0)

    def udp(self, m):
        Block, Message, z = self.Block, self.Message, self.UUID.ZERO
        agent = self.me if m["to"] == "me" else self.other
        c = m["c"] if m["c"]["id"] != "none" else None
        i = m["i"] if m["i"]["id"] != "none" else None
        t = m["t"]
        outgoing = False
        if t == "Bulk":
            fb = (Block("FolderData", FolderID=self.id_of[c["id"]], ParentID=self.id_of[c["p"]], Type=-1, Name=c["n"]) if c
                  else Block("FolderData", FolderID=z, ParentID=z, Type=-1, Name=""))
            msg = Message("BulkUpdateInventory", Block("AgentData", AgentID=agent, TransactionID=self.UUID(int=0x77)),
                          fb, self.item_block("ItemData", i))
        elif t == "Create":
            msg = Message("UpdateCreateInventoryItem", Block("AgentData", AgentID=agent, SimApproved=True, TransactionID=self.UUID(int=0x77)),
                          self.item_block("InventoryData", i))
        elif t == "RemItem":      # first block: an ID that was never issued
            msg = Message("RemoveInventoryItem", Block("AgentData", AgentID=agent, SessionID=self.UUID(int=1)),
                          *[Block("InventoryData", ItemID=u) for u in [self.UUID(int=0x9990)] + [self.id_of[x] for x in sorted(m["ri"])]])
            outgoing = True
        elif t in ("RemFolder", "RemFolderDirect"):
            msg = Message("RemoveInventoryFolder", Block("AgentData", AgentID=agent, SessionID=self.UUID(int=1)),
                          *[Block("FolderData", FolderID=u) for u in [self.UUID(int=0x9991)] + [self.id_of[x] for x in sorted(m["rc"])]])
            outgoing = True
        elif t == "Move":
            msg = Message("MoveInventoryItem", Block("AgentData", AgentID=agent, SessionID=self.UUID(int=1), Stamp=False),
                          Block("InventoryData", ItemID=self.id_of[i["id"]], FolderID=self.id_of[i["p"]], NewName=i["n"]))
            outgoing = True
        else:
            raise MachineryError("no wire form for %r" % (t,))
        msg = self.de.deserialize(self.ser.serialize(msg))      # what a handler sees came off the wire
        msg.direction = self.Direction.OUT if outgoing else self.Direction.IN
        return msg

    def ais_cat(self, c):
        return {"category_id": self.id_of[c["id"]], "parent_id": self.id_of[c["p"]], "name": c["n"], "type_default": -1,
                "agent_id": self.me, "version": c["v"], "_links": {"self": {"href": "/category/" + str(self.id_of[c["id"]])}}}

    def ais_item(self, i, link=False):
        d = {"item_id": self.id_of[i["id"]], "parent_id": self.id_of[i["p"]], "name": i["n"], "desc": "", "inv_type": 0,
             "created_at": 1_500_000_000, "agent_id": self.me, "_links": {"self": {"href": "/item/" + str(self.id_of[i["id"]])}}}
        if link:
            d.update({"type": 24, "linked_id": self.UUID(int=0x501)})
        else:
            d.update({"type": 0, "flags": 0, "asset_id": self.UUID(int=0x500), "permissions": self._perm_llsd(),
                      "sale_info": {"sale_type": 0, "sale_price": 0}})
        return d

    def ais(self, m):
        c = m["c"] if m["c"]["id"] != "none" else None
        i = m["i"] if m["i"]["id"] != "none" else None
        t = m["t"]
        if t == "AisCat":
            p = self.ais_cat(c)
            if i:
                p["_embedded"] = {"items": {str(self.id_of[i["id"]]): self.ais_item(i)}}
        elif t == "AisItem":
            p = self.ais_item(i)
        elif t == "AisEmb":       # no "name" at the top: only what is embedded counts
            p = {"category_id": self.id_of[c["p"]] if c["p"] != "0" else self.id_of[c["id"]], "agent_id": self.me,
                 "_embedded": {"categories": {str(self.id_of[c["id"]]): self.ais_cat(c)}}}
            if i:
                p["_embedded"]["links"] = {str(self.id_of[i["id"]]): self.ais_item(i, link=True)}
        elif t in ("AisRem", "AisBad"):
            p = {"_categories_removed": [self.id_of[x] for x in sorted(m["rc"])]}
            keys = ("_category_items_removed", "_removed_items", "_broken_links_removed")
            for n, x in enumerate(sorted(m["ri"])):
                p.setdefault(keys[n % 3], []).append(self.id_of[x])
        else:
            raise MachineryError("no AIS form for %r" % (t,))
        return p


class Impl:
    def __init__(self, w: World, variant: str):
        self.w = w
        self.variant = variant
        self.proxy = variant != "client"
        w.tap.excs.clear()
        if not self.proxy:
            self.sess = w.HippoClientSession.from_login_data(dict(w.login), w.client)
            self.im = self.sess.inventory_manager
        else:
            w.dirs = {"proxy": [w.dir_old, w.dir_new], "proxyNF": [w.dir_new, w.dir_old], "nocache": []}[variant]

            async def mk():
                w.shim.gate = asyncio.Event()
                return w.sm.create_session(dict(w.login))
            self.sess = w.loop.run_until_complete(mk())
            self.gate = w.shim.gate
            self.im = self.sess.inventory
            w.pump(2)

    def close(self):
        if self.proxy:
            if not self.gate.is_set():
                self.gate.set()       # let the loader and the deferred-call task finish: nothing stays pending
                self.w.pump(8)
            self.w.sm.sessions.clear()

    def step(self, act):
        w = self.w
        w.tap.excs.clear()
        raised = []
        if act["n"] == "CacheLoaded":
            if self.proxy:
                self.gate.set()
            else:
                st, r = common.impl_call(self.im.load_cache, w.cache_new)
                if st != "ok":
                    raised.append(r)
        else:
            m = act["m"]
            if m["t"].startswith("Ais"):
                payload = w.ais(m)
                body = w.llsd.format_xml(payload)
                if self.proxy:
                    status, ctype = 200, "application/llsd+xml"
                    if m["t"] == "AisBad":
                        status, ctype = (404, ctype) if m["to"] == "status" else (200, "text/html")
                    flow = types.SimpleNamespace(
                        name="InventoryAPIv3", cap_data=types.SimpleNamespace(cap_name="InventoryAPIv3"),
                        request=types.SimpleNamespace(method="GET", url="https://127.0.0.1:4/ais/category/x"),
                        response=types.SimpleNamespace(status_code=status, headers={"Content-Type": ctype}, content=body))
                    st, r = common.impl_call(self.sess.http_message_handler.handle, flow)
                else:
                    st, r = common.impl_call(self.im.process_aisv3_response, w.llsd.parse_xml(body))
            elif m["t"] == "RemFolderDirect":
                # reflection bridge: the handler itself (in the proxy: its cache-deferring wrapper), not the dispatcher
                st, r = common.impl_call(lambda: getattr(self.im, "_handle_remove_inventory_folder")(w.udp(m)))
                if st != "ok" and r.startswith("ValueError: AgentID Mismatch"):
                    st = "ok"
                    w.tap.excs.append(r)      # what Event.notify would have logged
            else:
                st, r = common.impl_call(self.sess.message_handler.handle, w.udp(m))
            if st != "ok":
                raised.append(r)
        # loader coroutine -> its done-callback -> cache_loaded waiter -> deferred calls: four hops; handlers are synchronous
        w.pump(8 if act["n"] == "CacheLoaded" and self.proxy else 1)
        errs = 0
        for x in w.tap.excs:
            if x.startswith("ValueError: AgentID Mismatch"):
                errs += 1
            else:
                raised.append(x)
        got = self.snapshot()
        got["errs"] = errs
        got["raised"] = raised
        return got

    def snapshot(self):
        w, model = self.w, self.im.model

        def nm(u):
            return w.name_of.get(u, "?" + str(u))
        nodes, par, kids = {}, {}, {}
        for name in w.folders + w.items:
            node = model.get(w.id_of[name])
            if node is None:
                if w.id_of[name] in model:
                    nodes[name] = "in-model-but-get-is-None"
                continue
            is_cat = isinstance(node, w.Cat)
            nodes[name] = {"k": "cat" if is_cat else ("item" if isinstance(node, w.Item) else type(node).__name__),
                           "p": nm(node.parent_id), "n": node.name, "v": node.version if is_cat else 0}
            st, p = common.impl_call(lambda: node.parent)
            par[name] = ("none" if p is None else nm(p.node_id)) if st == "ok" else p
            if is_cat:
                st, ch = common.impl_call(lambda: sorted(nm(x.node_id) for x in node.children))
                kids[name] = ch
        extra = sorted(nm(u) for u in model.nodes if u not in w.name_of)
        st, dc = common.impl_call(lambda: sorted(nm(x.node_id) for x in model.dirty_categories))
        return {"nodes": nodes, "par": par, "kids": kids, "extra": extra,
                "root": "none" if model.root is None else nm(model.root.node_id),
                "dirty": model.any_dirty.is_set(), "dirtyCats": dc,
                "loaded": self.im.cache_loaded.is_set() if self.proxy else True}


def _expected(e):
    d, o = e["dst"], e["obs"]
    nodes = d["nodes"] if isinstance(d["nodes"], dict) else {}
    s = o["s"]
    return {"nodes": {k: {"k": v["k"], "p": v["p"], "n": v["n"], "v": v["v"]} for k, v in nodes.items()},
            "par": dict(s["par"]) if isinstance(s["par"], dict) else {},
            "kids": {k: sorted(v) for k, v in s["kids"].items()} if isinstance(s["kids"], dict) else {},
            "extra": [], "root": s["root"], "dirty": d["dirty"], "dirtyCats": sorted(s["dirtyCats"]),
            "loaded": d["loaded"], "errs": o["o"]["errs"], "raised": []}


_G = None
_ENV = None


def _replay(items):
    g = _G
    res = []
    w = World(_ENV)
    try:
        for item in items:
            pre = []
            if isinstance(item, tuple):
                pre, ei = [g.edges[item[0]]], item[1]
            else:
                ei = item
            e = g.edges[ei]
            impl = Impl(w, e["src"]["variant"])
            try:
                hist = []
                # every step is compared (so a tree edge is checked by every history that runs through it)
                for pe in g.path_to(pre[0]["_s"] if pre else e["_s"]) + pre + [e]:
                    got = impl.step(pe["act"])
                    hist.append(pe["act"])
                    exp = _expected(pe)
                    if got != exp:
                        differs = sorted(k for k in exp if exp[k] != got.get(k))
                        res.append({"variant": e["src"]["variant"], "history": hist, "differs": differs,
                                    "expected": {k: exp[k] for k in differs}, "observed": {k: got.get(k) for k in differs},
                                    "merged": bool(pre)})
                        break
            finally:
                impl.close()
    finally:
        w.close()
    return res


def _tla_set(xs):
    return "{" + ", ".join('"%s"' % x if isinstance(x, str) else str(x) for x in xs) + "}"


def section(chk: Check, nf: int, ni: int, depth: int, thin: int, names=("a", "b"), versions=(5,),
            variants=("client", "proxyNF"), bugs=KNOWN_BUGS, max_pairs: int = 3000, max_edges: int = 0):
    """nf/ni folders/items, `depth` message deliveries per history (reading the cache is free), `thin` 0..2 (how much of
    the message alphabet is kept), `max_edges` > 0 replays a deterministic sample of that many tree edges."""
    global _G, _ENV
    cfg = ("SPECIFICATION MSpec\nCONSTANTS NF = %d NI = %d Names = %s Versions = %s Variants = %s Bugs = %s Depth = %d Thin = %d\nVIEW St\n"
           % (nf, ni, _tla_set(names), _tla_set(versions), _tla_set(variants), _tla_set(bugs), depth, thin))
    cfg += "".join("INVARIANT %s\n" % i for i in INVARIANTS) + "".join("PROPERTY %s\n" % p for p in PROPERTIES)
    label = "InventoryCache f%d i%d d%d thin%d %s" % (nf, ni, depth, thin, "+".join(variants))
    recs = common.export_records(chk, "InventoryCache_MBT", cfg, label)
    envs = [r["env"] for r in recs if isinstance(r, dict) and "env" in r]
    if not envs:
        raise MachineryError("InventoryCache_MBT did not print its environment record")
    _ENV = envs[0]
    _preimport()
    g = Graph(recs)
    _G = g
    # a tree edge into a state that has successors is replayed (and compared) as a prefix of those successors' histories
    edges = [i for i in g.reachable_edges() if not (g.parent.get(g.edges[i]["_d"]) == i and g.out.get(g.edges[i]["_d"]))]
    if max_edges and len(edges) > max_edges:
        stride = len(edges) / float(max_edges)
        edges = [edges[int(k * stride)] for k in range(max_edges)]
    ids = edges + g.merge_pairs(max_pairs)
    results = common.parallel_map(_replay, common.chunked(ids, common.NCPU * 2))
    chk.count(len(ids))
    chk.cov["traces_validated_against_impl"] += len(ids)
    chk.cov["inventorycache_edges"] = len(ids)
    per_action, per_type = {}, {}
    wit = {"folder_removal_took_3_or_more": 0, "move_changed_parent": 0, "refused_foreign": 0, "load_with_2_deferred": 0,
           "load_over_modified_model": 0, "bulk_on_completed_folder": 0, "ais_removal_left_orphan": 0}
    for e in g.edges:
        a, src, dst = e["act"], e["src"], e["dst"]
        per_action[a["n"]] = per_action.get(a["n"], 0) + 1
        t = a["m"]["t"] if "m" in a else a["n"]
        per_type[t] = per_type.get(t, 0) + 1
        sn = src["nodes"] if isinstance(src["nodes"], dict) else {}
        dn = dst["nodes"] if isinstance(dst["nodes"], dict) else {}
        if sn != dn or src["deferred"] != dst["deferred"]:
            chk.nontrivial(("invcache", e["_s"], common.skey(a)))
        if t in ("RemFolder", "RemFolderDirect") and len(sn) - len(dn) >= 3:
            wit["folder_removal_took_3_or_more"] += 1
        if t == "Move" and src["loaded"] and a["m"]["i"]["id"] in sn and sn[a["m"]["i"]["id"]]["p"] != dn[a["m"]["i"]["id"]]["p"]:
            wit["move_changed_parent"] += 1
        if e["obs"]["o"]["errs"] and t != "CacheLoaded":
            wit["refused_foreign"] += 1
        if t == "CacheLoaded" and len(src["deferred"]) >= 2:
            wit["load_with_2_deferred"] += 1
        if t == "CacheLoaded" and src["variant"] == "client" and e["_s"] not in g.inits:
            wit["load_over_modified_model"] += 1
        if t == "Bulk" and src["loaded"] and a["m"]["to"] == "me" and a["m"]["c"]["id"] in sn and sn[a["m"]["c"]["id"]]["v"] != -1:
            wit["bulk_on_completed_folder"] += 1
        if t == "AisRem" and src["loaded"] and any(v == "none" and dn[k]["p"] != "0" for k, v in (e["obs"]["s"]["par"] or {}).items()):
            wit["ais_removal_left_orphan"] += 1
    chk.cov["inventorycache_actions"] = per_action
    chk.cov["inventorycache_message_kinds"] = per_type
    chk.cov["inventorycache_witnesses"] = wit
    chk.cov["inventorycache_known_bugs"] = list(bugs)
    for bads in results:
        for b in bads:
            last = b["history"][-1]
            chk.divergence("InventoryCache", "B1 inventory cache (%s): %s differs from InventoryCache specification"
                           % (b["variant"], ",".join(b["differs"])),
                           {"kind": "b1-inventorycache", "variant": b["variant"], "differs": b["differs"],
                            "last": last["m"]["t"] if "m" in last else last["n"]}, b)
    pick = [e for e in g.edges if e["act"]["n"] == "CacheLoaded" and len(e["src"]["deferred"]) >= 2]
    if pick:
        e = pick[len(pick) // 2]
        chk.sample({"binding": "B1 inventory cache (deferred calls applied in order after the cache load)",
                    "path": [p["act"] for p in g.path_to(e["_s"])] + [e["act"]], "expected_nodes": e["dst"]["nodes"]})
