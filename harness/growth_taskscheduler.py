"""Growth beyond the listed properties: life scopes of addon tasks (TaskScheduler.tla).
B1: every edge of the bounded model replayed through the real BaseAddon._schedule_task and the
AddonManager call sites that end a scope (session closed, main region changed, module unloaded, shutdown)."""
from __future__ import annotations

import asyncio
import types

from . import common
from .common import Check, Graph


class Impl:
    def __init__(self):
        from . import proxyenv
        from hippolyzer.lib.proxy.addon_utils import BaseAddon
        from hippolyzer.lib.proxy.addons import AddonManager
        from hippolyzer.lib.base.datatypes import UUID
        self.AM = AddonManager
        self.loop = asyncio.new_event_loop()
        asyncio.set_event_loop(self.loop)

        class A(BaseAddon):
            pass
        self.addons = {1: A(), 2: A()}
        self.mods = {}
        for k, a in self.addons.items():
            m = types.ModuleType("verif_addon_%d" % k)
            m.addons = [a]
            self.mods[k] = m
        self.env = proxyenv.ProxyEnv(addons=list(self.mods.values()))
        self.env.protocol.resend_task.cancel()
        # a second session on the same manager
        self.sessions = {1: self.env.session}
        self.sessions[2] = self.env.sm.create_session({
            "session_id": UUID(int=11), "secure_session_id": UUID(int=12), "agent_id": UUID(int=13),
            "circuit_code": 4321, "sim_ip": "127.0.0.1", "sim_port": 5,
            "region_x": 0, "region_y": 456, "seed_capability": "https://test.localhost:4/bar"})
        self.recs = []

    def pump(self):
        for _ in range(4):
            self.loop.run_until_complete(asyncio.sleep(0))

    def step(self, act):
        n = act["n"]
        res = {}
        if n == "Schedule":
            rec = {"st": "run", "ev": asyncio.Event()}

            async def body():
                try:
                    await rec["ev"].wait()
                    rec["st"] = "done"
                except asyncio.CancelledError:
                    rec["st"] = "cancel"
                    raise

            async def sched():
                coro = body()
                try:
                    self.addons[act["a"]]._schedule_task(
                        coro, session=self.sessions.get(act["s"]), region_scoped=act["rs"],
                        session_scoped=act["ss"], addon_scoped=act["as"])
                    return False
                except ValueError:
                    coro.close()
                    return True
            refused = self.loop.run_until_complete(sched())
            res["refused"] = refused
            if not refused:
                self.recs.append(rec)
        elif n == "Finish":
            self.recs[act["i"] - 1]["ev"].set()
        elif n == "SessionClosed":
            self.AM.handle_session_closed(self.sessions[act["s"]])
        elif n == "RegionChanged":
            s = self.sessions[act["s"]]
            self.AM.handle_region_changed(s, s.regions[-1])
        elif n == "AddonUnloaded":
            self.AM._unload_module(self.mods[act["a"]])
        elif n == "Shutdown":
            self.AM.shutdown()
        self.pump()
        res["states"] = [r["st"] for r in self.recs]
        res["live"] = len(self.AM.SCHEDULER.tasks)
        return res

    def close(self):
        try:
            for r in self.recs:
                r["ev"].set()
            self.pump()
            self.AM.SCHEDULER.shutdown()
            self.env.close()
            for t in asyncio.all_tasks(self.loop):
                t.cancel()
            self.pump()
        finally:
            self.loop.close()


_G = None


def _replay(items):
    g = _G
    res = []
    for item in items:
        pre = []
        if isinstance(item, tuple):
            pre, ei = [g.edges[item[0]]], item[1]
        else:
            ei = item
        e = g.edges[ei]
        impl = Impl()
        try:
            hist = []
            for pe in g.path_to(pre[0]["_s"] if pre else e["_s"]) + pre:
                impl.step(pe["act"])
                hist.append(pe["act"])
            got = impl.step(e["act"])
            hist.append(e["act"])
            exp = {"states": list(e["obs"]["s"]["states"]), "live": e["obs"]["s"]["live"]}
            if e["act"]["n"] == "Schedule":
                exp["refused"] = e["obs"]["o"]["refused"]
            if got != exp:
                res.append({"history": hist, "expected": exp, "observed": got,
                            "differs": sorted(k for k in exp if exp[k] != got.get(k))})
        finally:
            impl.close()
    return res


def section(chk: Check, max_tasks: int, depth: int, max_pairs: int = 4000):
    global _G
    cfg = ("SPECIFICATION MSpec\nCONSTANTS Sessions = {1, 2} Addons = {1, 2} MaxTasks = %d Depth = %d\n"
           "INVARIANT RegionImpliesSession\nPROPERTY NothingOutlivesItsScope\nPROPERTY OnlyScopedCancellation\nPROPERTY Terminal\n"
           % (max_tasks, depth))
    recs = common.export_records(chk, "TaskScheduler_MBT", cfg, "TaskScheduler t%d d%d" % (max_tasks, depth))
    g = Graph(recs)
    _G = g
    pairs = g.merge_pairs(max_pairs)      # includes self-loops (events that find nothing in their scope)
    ids = g.reachable_edges() + pairs
    results = common.parallel_map(_replay, common.chunked(ids, common.NCPU * 4))
    chk.count(len(ids))
    chk.cov["traces_validated_against_impl"] += len(ids)
    chk.cov["taskscheduler_edges"] = len(ids)
    for e in g.edges:
        if e["act"]["n"] != "Schedule" and e["src"] != e["dst"]:
            chk.nontrivial(("tasksched", e["_s"], common.skey(e["act"])))
    for bads in results:
        for b in bads:
            chk.divergence("TaskScheduler", "B1 task-scheduler: %s differs from TaskScheduler specification" % ",".join(b["differs"]),
                          {"kind": "b1-tasksched", "differs": b["differs"], "last": b["history"][-1]["n"]}, b)
    pick = [e for e in g.edges if e["act"]["n"] == "RegionChanged" and e["src"] != e["dst"]]
    if pick:
        e = pick[0]
        chk.sample({"binding": "B1 task-scheduler", "path": [p["act"] for p in g.path_to(e["_s"])] + [e["act"]], "expected": e["obs"]["s"]})
