from __future__ import annotations

import importlib
import json
import logging
import os
import sys
import traceback

from . import common


def main(argv):
    if not argv:
        print("usage: check <ID> [quick|thorough] [--replay path] | --selftest | --all [tier]")
        return 2
    logging.disable(logging.CRITICAL)
    seed = int(os.environ.get("VERIF_SEED", "0") or 0)
    if argv[0] == "--all":
        tier = argv[1] if len(argv) > 1 else "quick"
        rc = 0
        for i in range(1, 21):
            pid = "C%02d" % i
            if os.path.exists(os.path.join(common.VERIF, "harness", pid.lower() + ".py")):
                rc = max(rc, os.system("%s/check %s %s" % (common.VERIF, pid, tier)) >> 8)
        return rc
    if argv[0] == "--selftest":
        from . import selftest
        return selftest.main(argv[1:])
    pid = argv[0].upper()
    tier = os.environ.get("VERIF_TIER") or "quick"
    replay = None
    rest = argv[1:]
    while rest:
        a = rest.pop(0)
        if a in ("quick", "thorough"):
            tier = a
        elif a == "--replay":
            replay = rest.pop(0)
    try:
        mod = importlib.import_module("harness." + pid.lower())
    except ModuleNotFoundError as e:
        print("no check for %s (%s)" % (pid, e))
        return 2
    chk = common.Check(pid, tier, seed)
    try:
        if replay:
            with open(replay) as f:
                r = json.load(f)
            if hasattr(mod, "replay"):
                mod.replay(chk, r)
            else:
                print(json.dumps(r, indent=1)[:4000])
                mod.run(chk)
        else:
            mod.run(chk)
    except common.MachineryError as e:
        if chk.violations:
            # A later stage broke down after violations had already been established (typically because
            # the implementation's wrong answers pushed a driver outside its environment assumptions):
            # the violations stand, the breakdown is recorded.
            chk.notes.append("machinery failure after violations were found: %s" % str(e)[:500])
            print("NOTE %s: a later stage could not run after violations were found: %s" % (pid, str(e)[:200]))
            return chk.finish()
        print("MACHINERY-FAILURE %s: %s" % (pid, e))
        return 2
    except Exception:
        traceback.print_exc()
        print("MACHINERY-FAILURE %s: unexpected exception in harness" % pid)
        return 2
    return chk.finish()


if __name__ == "__main__":
    sys.exit(main(sys.argv[1:]))
