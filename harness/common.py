"""Shared machinery: TLC runner, graph export/replay helpers, trace batches,
evidence writer, known-findings protocol.

Exit codes of a check: 0 held (or only KNOWN-FINDINGs), 1 violation, 2 machinery failure.
"""
from __future__ import annotations

import collections
import hashlib
import json
import os
import random
import re
import shutil
import subprocess
import sys
import tempfile
import time
import traceback
from typing import Any, Callable, Dict, Iterable, List, Optional, Sequence, Tuple

VERIF = os.environ.get("VERIF_HOME", "/verif")
REPO = os.environ.get("VERIF_REPO", "/repo")
SPECS = os.path.join(VERIF, "specs")
TLA_JAR = "/opt/veriftools/tla/tla2tools.jar"
TLA_DEPS = "/opt/veriftools/tla/CommunityModules-deps.jar"
NCPU = min(16, os.cpu_count() or 1)


class MachineryError(Exception):
    """The framework itself failed (TLC crash, spec parse error, reflection bridge broke)."""


# ----------------------------------------------------------------------------------------
# TLC
# ----------------------------------------------------------------------------------------

class TlcResult:
    def __init__(self, cmd, out, rc, wall):
        self.cmd = cmd
        self.out = out
        self.rc = rc
        self.wall = wall
        self.generated = 0
        self.distinct = 0
        self.depth = 0
        m = None
        for m in re.finditer(r"(\d+) states generated, (\d+) distinct states found", out):
            pass
        if m:
            self.generated, self.distinct = int(m.group(1)), int(m.group(2))
        m = re.search(r"The depth of the complete state graph search is (\d+)", out)
        if m:
            self.depth = int(m.group(1))
        self.violated: List[str] = re.findall(r"Error: Invariant (\S+) is violated", out)
        self.violated += re.findall(r"Error: Action property (\S+) is violated", out)
        if "Error: Temporal properties were violated" in out:
            self.violated.append("<temporal>")
        if re.search(r"Error: The postcondition .* is violated|Error: Evaluating postcondition|postcondition.*false", out, re.I):
            self.violated.append("<postcondition>")
        if "Error: Deadlock reached" in out:
            self.violated.append("<deadlock>")
        self.assert_failed = "The first argument of Assert evaluated to FALSE" in out
        self.ok = ("Model checking completed. No error has been found." in out
                   or "Finished computing" in out and rc == 0) and not self.violated
        self.errors = [l for l in out.splitlines() if l.startswith("Error:")]

    def printed(self) -> List[Any]:
        """JSON values printed with PrintT(ToJson(...)); one per line."""
        res = []
        for line in self.out.splitlines():
            if line.startswith('"{') or line.startswith('"['):
                try:
                    res.append(json.loads(json.loads(line)))
                except Exception:
                    raise MachineryError("unparseable PrintT line: %r" % line[:200])
        return res

    def counterexample(self) -> str:
        i = self.out.find("Error:")
        return self.out[i:i + 6000] if i >= 0 else ""


def run_tlc(module_path: str, cfg_path: Optional[str] = None, workers: int | str = 1,
            scratch: Optional[str] = None, extra: Sequence[str] = (), env: Optional[dict] = None,
            timeout: int = 3600, jvm: Sequence[str] = (), deadlock: bool = False,
            heap: str = "4g") -> TlcResult:
    own = scratch is None
    scratch = scratch or tempfile.mkdtemp(prefix="verif-tlc-")
    meta = tempfile.mkdtemp(prefix="meta-", dir=scratch)
    cmd = ["java", "-XX:+UseParallelGC", "-Xmx" + heap, "-Xss512m", "-DTLA-Library=" + SPECS,
           "-Djava.io.tmpdir=" + meta, *jvm,   # TLC drops an empty tlc-<n> directory per run into the JVM temp dir
           "-cp", TLA_JAR + ":" + TLA_DEPS, "tlc2.TLC",
           "-workers", str(workers), "-metadir", meta, "-noGenerateSpecTE"]
    if cfg_path:
        cmd += ["-config", cfg_path]
    if not deadlock:
        cmd += ["-deadlock"]
    cmd += list(extra) + [module_path]
    e = dict(os.environ)
    e.pop("JAVA_TOOL_OPTIONS", None)
    if env:
        e.update(env)
    t0 = time.time()
    try:
        p = subprocess.run(cmd, cwd=os.path.dirname(module_path) or scratch, env=e, stdout=subprocess.PIPE,
                           stderr=subprocess.STDOUT, timeout=timeout, text=True, errors="replace")
    except subprocess.TimeoutExpired:
        raise MachineryError("TLC timed out: %s" % " ".join(cmd))
    finally:
        shutil.rmtree(meta, ignore_errors=True)
        if own:
            shutil.rmtree(scratch, ignore_errors=True)
    res = TlcResult(" ".join(cmd), p.stdout, p.returncode, time.time() - t0)
    fatal = [l for l in res.errors if any(s in l for s in (
        "Parsing or semantic analysis failed", "TLC threw an unexpected exception",
        "java.lang.", "Unknown operator", "TLC encountered an unexpected exception",
        "was not found", "Error reading configuration", "The configuration file", "StackOverflowError"))]
    if "Parsing or semantic analysis failed" in p.stdout or "***Parse Error***" in p.stdout:
        fatal.append("parse error")
    if fatal:
        raise MachineryError("TLC failed: %s\n%s" % (fatal[:3], p.stdout[-3000:]))
    return res


# ----------------------------------------------------------------------------------------
# B1: labelled transition system exported by a *_MBT wrapper
# ----------------------------------------------------------------------------------------

def skey(state: Any) -> str:
    return json.dumps(state, sort_keys=True, separators=(",", ":"))


class Graph:
    """Reachable graph of a bounded model as printed by an MBT wrapper.

    Every printed record is either {"init": state} or
    {"src": state, "act": {...}, "dst": state, ["obs": ...]}.
    """

    def __init__(self, records: Iterable[dict]):
        self.inits: List[str] = []
        self.states: Dict[str, Any] = {}
        self.edges: List[dict] = []
        self.out: Dict[str, List[int]] = collections.defaultdict(list)
        seen_edges = set()
        for r in records:
            if "init" in r:
                k = skey(r["init"])
                if k not in self.states:
                    self.states[k] = r["init"]
                    self.inits.append(k)
                continue
            if "src" not in r:
                continue
            s, d = skey(r["src"]), skey(r["dst"])
            ek = (s, skey(r["act"]), d, skey(r.get("obs")))
            if ek in seen_edges:
                continue
            seen_edges.add(ek)
            self.states.setdefault(s, r["src"])
            self.states.setdefault(d, r["dst"])
            r = dict(r)
            r["_s"], r["_d"] = s, d
            self.out[s].append(len(self.edges))
            self.edges.append(r)
        if not self.inits:
            raise MachineryError("MBT export has no init record")
        # BFS spanning tree: parent edge index for each state
        self.parent: Dict[str, Optional[int]] = {k: None for k in self.inits}
        dq = collections.deque(self.inits)
        while dq:
            s = dq.popleft()
            for ei in self.out.get(s, ()):
                d = self.edges[ei]["_d"]
                if d not in self.parent:
                    self.parent[d] = ei
                    dq.append(d)

    def path_to(self, s: str) -> List[dict]:
        path = []
        while self.parent.get(s) is not None:
            e = self.edges[self.parent[s]]
            path.append(e)
            s = e["_s"]
        path.reverse()
        return path

    def reachable_edges(self) -> List[int]:
        return [i for i, e in enumerate(self.edges) if e["_s"] in self.parent]

    def merge_pairs(self, cap: int = 20000) -> List[Tuple[int, int]]:
        """(incoming non-tree edge f, following edge e) with dst(f) = src(e).

        The BFS tree reaches every abstract state along ONE path.  Where several histories merge into
        the same abstract state (or an action leaves it unchanged), an implementation whose hidden
        state differs between those histories is only observed at the merging edge itself; the edge
        that would expose the damage is always replayed from the clean tree path.  Replaying
        path_to(src(f)) + f + e covers every such (history class, next action) pair; self-loops are
        the special case src(f) = dst(f).  Thinned deterministically to `cap` pairs."""
        incoming: Dict[str, List[int]] = collections.defaultdict(list)
        for i in self.reachable_edges():
            e = self.edges[i]
            if self.parent.get(e["_d"]) != i:
                incoming[e["_d"]].append(i)
        pairs = []
        for s, fs in incoming.items():
            for f in fs:
                for j in self.out.get(s, ()):
                    pairs.append((f, j))
        if len(pairs) > cap:
            stride = len(pairs) / float(cap)
            pairs = [pairs[int(k * stride)] for k in range(cap)]
        return pairs

    def selfloop_pairs(self) -> List[Tuple[int, int]]:
        """(loop edge, following edge) for every edge that leaves the abstract state unchanged.

        BFS-tree paths never contain such an edge, so an implementation whose *hidden* state is
        disturbed by an abstractly idle action (a resend, a duplicate, a lookup) would go unnoticed;
        replaying path_to(s) + loop + next for every outgoing edge of s closes that hole."""
        pairs = []
        for i in self.reachable_edges():
            e = self.edges[i]
            if e["_s"] == e["_d"]:
                for j in self.out.get(e["_s"], ()):
                    pairs.append((i, j))
        return pairs


def parallel_map(fn: Callable, chunks: List[Any], procs: int = NCPU) -> List[Any]:
    """fork-based map; fn must be a module-level function. Runs inline for 1 proc."""
    if procs <= 1 or len(chunks) <= 1:
        return [fn(c) for c in chunks]
    import multiprocessing as mp
    ctx = mp.get_context("fork")
    with ctx.Pool(min(procs, len(chunks))) as pool:
        return pool.map(fn, chunks)


def chunked(xs: Sequence[Any], n: int) -> List[List[Any]]:
    n = max(1, n)
    k = (len(xs) + n - 1) // n if xs else 1
    return [list(xs[i:i + k]) for i in range(0, len(xs), k)] or [[]]


# ----------------------------------------------------------------------------------------
# B2: batched trace validation.  Trace files are ndjson; every trace starts with a record
# {"ev":"Reset","tid":n,...}.  The trace spec consumes line after line; acceptance means
# the whole file was consumed (POSTCONDITION); on rejection the spec reports the furthest
# line reached via a TLCSet register that it prints in the postcondition.
# ----------------------------------------------------------------------------------------

def write_ndjson(path: str, records: Iterable[dict]):
    with open(path, "w") as f:
        for r in records:
            f.write(json.dumps(r, separators=(",", ":")) + "\n")


def validate_traces(module: str, cfg_text: str, traces: List[List[dict]], scratch: str,
                    tag: str = "tr", timeout: int = 3600, max_rounds: int = 25,
                    extra_defs: str = "", shards: int = 1) -> Tuple[List[int], List[Tuple[int, int, dict]], List[TlcResult]]:
    """Validate traces (each a list of event dicts; a Reset record is prepended here).

    `module` is the name of a trace spec in /verif/specs that reads IOEnv.TRACE_FILE via
    ndJsonDeserialize, has variable `l`, and whose POSTCONDITION prints
    "TRACE_REACHED <n>" (furthest line consumed +1) when not accepted.

    Returns (accepted trace indices, rejected [(trace index, event index, event)], tlc results).
    All rejected traces of a batch are found by removing the rejected trace and re-running.
    """
    results: List[TlcResult] = []
    accepted: List[int] = []
    rejected: List[Tuple[int, int, dict]] = []
    aborted: List[int] = []

    def run_shard(idx: List[int], shard_no: int):
        idx = list(idx)
        rounds = 0
        while idx:
            rounds += 1
            if rounds > max_rounds:
                raise MachineryError("too many rejected traces in one batch (>%d); aborting" % max_rounds)
            lines = []
            owner = []
            for ti in idx:
                lines.append({"ev": "Reset", "tid": ti})
                owner.append((ti, -1))
                for j, ev in enumerate(traces[ti]):
                    lines.append(ev)
                    owner.append((ti, j))
            d = tempfile.mkdtemp(prefix="%s%d-" % (tag, shard_no), dir=scratch)
            tf = os.path.join(d, "trace.ndjson")
            write_ndjson(tf, lines)
            cfgp = os.path.join(d, module + ".cfg")
            with open(cfgp, "w") as f:
                f.write(cfg_text)
            src = os.path.join(SPECS, module + ".tla")
            res = run_tlc(src, cfgp, workers=1, scratch=d, env={"TRACE_FILE": tf}, timeout=timeout)
            results.append(res)
            m = re.search(r"TRACE_REACHED (\d+) OF (\d+)", res.out)
            if m is None and res.assert_failed:
                # An environment Assert of the trace spec fired.  If named clauses of the same trace failed
                # before it, the implementation's wrong answers led the driver astray: the trace is reported
                # through those clauses and abandoned.  Without a prior failure it is a driver defect.
                tids = re.findall(r"/\\ tid = (-?\d+)", res.out)
                tid = int(tids[-1]) if tids else None
                prior = [x for x in res.printed() if isinstance(x, dict) and "fail" in x and x.get("tid") == tid]
                if tid is None or tid not in idx or not prior:
                    raise MachineryError("trace spec %s: environment assertion failed without a prior failed clause:\n%s" % (module, res.out[-2500:]))
                aborted.append(tid)
                shutil.rmtree(d, ignore_errors=True)
                pos = idx.index(tid)
                accepted.extend(idx[:pos])
                idx = idx[pos + 1:]
                continue
            if m is None:
                raise MachineryError("trace spec %s did not report progress:\n%s" % (module, res.out[-3000:]))
            reached, total = int(m.group(1)), int(m.group(2))
            if total != len(lines):
                raise MachineryError("trace spec read %d lines, wrote %d" % (total, len(lines)))
            shutil.rmtree(d, ignore_errors=True)
            if reached >= total:
                accepted.extend(idx)
                return
            # line `reached` (0-based) could not be consumed
            ti, j = owner[reached]
            rejected.append((ti, j, traces[ti][j] if j >= 0 else {"ev": "Reset"}))
            pos = idx.index(ti)
            accepted.extend(idx[:pos])
            idx = idx[pos + 1:]

    all_idx = list(range(len(traces)))
    if shards <= 1:
        run_shard(all_idx, 0)
    else:
        # run shards in threads (each is a JVM subprocess)
        import concurrent.futures as cf
        parts = [p for p in chunked(all_idx, shards) if p]
        with cf.ThreadPoolExecutor(max_workers=min(NCPU, len(parts))) as ex:
            futs = [ex.submit(run_shard, p, n) for n, p in enumerate(parts)]
            for f in futs:
                f.result()
    return sorted(accepted), sorted(rejected, key=lambda r: r[0]), results


# ----------------------------------------------------------------------------------------
# Known findings
# ----------------------------------------------------------------------------------------

def load_known_findings() -> List[dict]:
    p = os.path.join(VERIF, "known_findings.json")
    if not os.path.exists(p):
        return []
    with open(p) as f:
        return json.load(f)


def _match(pred: dict, features: dict) -> bool:
    for k, v in pred.items():
        fv = features.get(k)
        if isinstance(v, dict) and "in" in v:
            if fv not in v["in"]:
                return False
        elif isinstance(v, dict) and "contains" in v:
            if not isinstance(fv, (str, list)) or v["contains"] not in fv:
                return False
        elif fv != v:
            return False
    return True


# ----------------------------------------------------------------------------------------
# Check context
# ----------------------------------------------------------------------------------------

class Check:
    def __init__(self, pid: str, tier: str, seed: int):
        self.pid = pid
        self.tier = tier
        self.seed = seed
        self.t0 = time.time()
        self.scratch = tempfile.mkdtemp(prefix="verif-%s-" % pid)
        self.rng = random.Random(seed * 1000003 + int(pid[1:]))
        self.cov: Dict[str, Any] = {
            "states": 0, "transitions": 0, "traces_validated_against_impl": 0,
            "evaluations": 0, "distinct_nontrivial": 0, "samples": [], "rule": "",
            "tlc_runs": [], "exhaustive": False,
        }
        self.assumptions: List[str] = []
        self.violations: List[dict] = []
        self.known_hits: Dict[str, int] = collections.OrderedDict()
        self.known = [k for k in load_known_findings() if k.get("property") == pid and k.get("status") == "open"]
        self._nontrivial = set()
        self._per_what: Dict[str, int] = {}
        self.notes: List[str] = []

    # --- bookkeeping -------------------------------------------------------------------
    def add_tlc(self, res: TlcResult, label: str):
        self.cov["states"] += res.distinct
        self.cov["transitions"] += res.generated
        self.cov["tlc_runs"].append({"label": label, "distinct": res.distinct, "generated": res.generated,
                                     "depth": res.depth, "wall_s": round(res.wall, 1),
                                     "cmd": re.sub(r"/tmp/[^ ]+", "<scratch>", res.cmd)[-300:]})

    def require_model_ok(self, res: TlcResult, label: str):
        """An invariant failing on the *model* means the specification (or the design it
        transcribes) is wrong; that is reported as a violation of the property with the
        TLC counterexample as the replay."""
        self.add_tlc(res, label)
        if not res.ok and not res.violated:
            # TLC stopped without naming a violated invariant/property: that is a broken model run
            # (evaluation error, interrupted JVM, spec being edited), not evidence about the code.
            raise MachineryError("TLC run '%s' failed without a property violation:\n%s" % (label, res.out[-2500:]))
        if not res.ok:
            self.violation("model:%s:%s" % (label, ",".join(res.violated) or "error"),
                           {"kind": "model", "label": label, "violated": res.violated},
                           {"tlc": res.counterexample()})

    def sample(self, s: Any, cap: int = 6):
        if len(self.cov["samples"]) < cap:
            self.cov["samples"].append(s)

    def count(self, n: int = 1):
        self.cov["evaluations"] += n

    def nontrivial(self, key: Any):
        self._nontrivial.add(key if isinstance(key, (str, int, tuple)) else skey(key))

    def violation(self, what: str, features: dict, detail: Any):
        """Record a failing case.  `features` is matched against known_findings.json."""
        for k in self.known:
            if _match(k.get("match", {}), features):
                cls = k.get("class", "?")
                self.known_hits[cls] = self.known_hits.get(cls, 0) + 1
                return
        n_same = self._per_what.get(what, 0)
        self._per_what[what] = n_same + 1
        if n_same < 3 and len(self._per_what) <= 200:
            self.violations.append({"what": what, "features": features, "detail": detail})
        else:
            self.violations.append({"what": what})

    def divergence(self, spec: str, what: str, features: dict, detail: Any):
        """Record a disagreement between the implementation and a *growth* specification on a clause that
        lies outside the statement of this check's property.  It is reported (stdout line
        `GROWTH-DIVERGENCE`, evidence field `growth_divergences`, a replay file) but it is not a violation
        of the property: the exit code and the VIOLATION lines are unaffected."""
        if not hasattr(self, "divergences"):
            self.divergences = []
        self.divergences.append({"spec": spec, "what": what, "features": features,
                                 "detail": detail if len(self.divergences) < 20 else None})

    # --- finishing -----------------------------------------------------------------------
    def finish(self) -> int:
        shutil.rmtree(self.scratch, ignore_errors=True)
        self.cov["distinct_nontrivial"] = len(self._nontrivial)
        if not self.cov["samples"]:
            self.cov["samples"] = ["(no samples recorded)"]
        ev = {
            "property_id": self.pid, "tier": self.tier, "seed": self.seed, "level": "model_checking",
            "coverage": self.cov, "assumptions": self.assumptions,
            "wall_s": round(time.time() - self.t0, 2),
            "violations": len(self.violations),
            "known_findings_hit": dict(self.known_hits),
            "notes": self.notes,
        }
        divs = getattr(self, "divergences", [])
        ev["growth_divergences"] = len(divs)
        if divs:
            os.makedirs(os.path.join(VERIF, "replays"), exist_ok=True)
            seen = set()
            for d in divs:
                key = (d["spec"], d["what"])
                if key in seen or d["detail"] is None:
                    continue
                seen.add(key)
                h = hashlib.sha1(skey([d["spec"], d["what"], d["features"]]).encode()).hexdigest()[:10]
                path = os.path.join(VERIF, "replays", "growth-%s-%s.json" % (d["spec"], h))
                with open(path, "w") as f:
                    json.dump({"growth_spec": d["spec"], "run_under": self.pid, "tier": self.tier, **d}, f, indent=1, default=str)
                if len(seen) <= 8:
                    print("GROWTH-DIVERGENCE spec=%s replay=%s  (%s; outside the statement of %s, not counted as a violation)" % (
                        d["spec"], path, d["what"], self.pid))
        # evidence/ describes runs against /repo itself; a run against a scratch worktree (VERIF_REPO=..., used to
        # try seeded changes) must not overwrite it
        repo = os.path.realpath(os.environ.get("VERIF_REPO", "/repo"))
        evdir = os.path.join(VERIF, "evidence") if repo == "/repo" else os.path.join(
            tempfile.gettempdir(), "verif-evidence-" + os.path.basename(repo))
        os.makedirs(evdir, exist_ok=True)
        with open(os.path.join(evdir, self.pid + ".json"), "w") as f:
            json.dump(ev, f, indent=1, default=str)
            f.write("\n")
        for k in self.known:
            cls = k.get("class", "?")
            if cls in self.known_hits:
                print("KNOWN-FINDING: property=%s %s [%s; %d failing case(s) this run]" % (
                    self.pid, k.get("what", ""), cls, self.known_hits[cls]))
        if self.violations:
            os.makedirs(os.path.join(VERIF, "replays"), exist_ok=True)
            shown = set()
            for v in self.violations:
                if "features" not in v:
                    continue
                h = hashlib.sha1(skey([v["what"], v["features"]]).encode()).hexdigest()[:10]
                path = os.path.join(VERIF, "replays", "%s-%s.json" % (self.pid, h))
                with open(path, "w") as f:
                    json.dump({"property": self.pid, "tier": self.tier, "seed": self.seed, **v}, f, indent=1, default=str)
                if v["what"] in shown:
                    continue
                shown.add(v["what"])
                if len(shown) <= 8:
                    print("VIOLATION property=%s replay=%s  (%s)" % (self.pid, path, v["what"]))
            print("%s: %d violating case(s)" % (self.pid, len(self.violations)))
            return 1
        print("%s %s: held on everything explored (%d model states, %d transitions, %d impl traces/edges, %d evaluations, %.1fs)" % (
            self.pid, self.tier, self.cov["states"], self.cov["transitions"],
            self.cov["traces_validated_against_impl"], self.cov["evaluations"], time.time() - self.t0))
        return 0


def growth(chk: "Check", name: str, fn, *args, **kwargs):
    """Run a growth section (a specification of behaviour outside the listed properties, hosted by a property's
    check).  Whatever stops it from running -- its model, its driver, the implementation leaving the driver's
    assumptions -- is a note in the evidence, never a failure of the host check."""
    try:
        fn(chk, *args, **kwargs)
    except KeyboardInterrupt:
        raise
    except BaseException as e:  # noqa
        msg = "growth section %s could not run: %s: %s" % (name, type(e).__name__, str(e)[:300])
        chk.notes.append(msg)
        print("GROWTH-NOTE " + msg.replace("\n", " ")[:300])


def model_check(chk: "Check", module: str, cfg_text: str, label: str, workers="auto", timeout: int = 3600,
                heap: str = "8g") -> TlcResult:
    """Exhaustively check a bounded model (module name in /verif/specs, cfg given as text)."""
    cfg = os.path.join(chk.scratch, "mc-%s-%d.cfg" % (module, len(chk.cov["tlc_runs"])))
    with open(cfg, "w") as f:
        f.write(cfg_text)
    res = run_tlc(os.path.join(SPECS, module + ".tla"), cfg, workers=workers, scratch=chk.scratch, timeout=timeout, heap=heap)
    chk.require_model_ok(res, label)
    return res


def export_records(chk: "Check", module: str, cfg_text: str, label: str, timeout: int = 3600, heap: str = "8g") -> List[Any]:
    """Run an *_MBT wrapper with one worker and return everything it printed with PrintT(ToJson(..))."""
    cfg = os.path.join(chk.scratch, "mbt-%s-%d.cfg" % (module, len(chk.cov["tlc_runs"])))
    with open(cfg, "w") as f:
        f.write(cfg_text)
    res = run_tlc(os.path.join(SPECS, module + ".tla"), cfg, workers=1, scratch=chk.scratch, timeout=timeout, heap=heap)
    if not res.ok:
        raise MachineryError("%s export failed:\n%s" % (module, res.out[-3000:]))
    chk.add_tlc(res, label + " (export)")
    return res.printed()


def check_traces(chk: "Check", module: str, cfg_text: str, traces: List[List[dict]], label: str,
                 shards: int = NCPU, timeout: int = 3600) -> Dict[int, List[dict]]:
    """B2: validate recorded traces with TLC and register a violation per failing trace.

    The trace spec names failed clauses with PrintT(ToJson([fail |-> name, line |-> l, tid |-> tid]))
    and keeps going; a trace it cannot consume at all is a rejection.  Returns {trace index: fails}.
    """
    acc, rej, results = validate_traces(module, cfg_text, traces, chk.scratch, shards=shards, timeout=timeout)
    fails: Dict[int, List[dict]] = {}
    for r in results:
        chk.add_tlc(r, module + " " + label)
        for rec in r.printed():
            if isinstance(rec, dict) and "fail" in rec:
                fails.setdefault(rec["tid"], []).append(rec)
    chk.cov["traces_validated_against_impl"] += len(traces)
    chk.count(sum(len(t) for t in traces))
    for ti, j, ev in rej:
        chk.violation("B2 %s: trace rejected by %s at event %d (%s)" % (label, module, j, ev.get("ev")),
                      {"kind": "b2-reject", "label": label, "event": ev.get("ev")},
                      {"trace_prefix": _clip(traces[ti][:j + 1][-12:]), "rejected": _clip(ev)})
    for tid, fl in fails.items():
        chk.violation("B2 %s: %s" % (label, fl[0]["fail"]),
                      {"kind": "b2", "label": label, "clause": fl[0]["fail"]},
                      {"failed_clauses": fl[:5], "trace_prefix": _clip(traces[tid][:30])})
    return fails


def _clip(x, n=60):
    if isinstance(x, list):
        return [_clip(v, n) for v in (x if len(x) <= n else x[:n] + ["..."])]
    if isinstance(x, dict):
        return {k: _clip(v, n) for k, v in x.items()}
    return x


def impl_call(fn: Callable, *a, **kw) -> Tuple[str, Any]:
    """Call implementation code; an exception is an *observation*, not a machinery failure."""
    try:
        return "ok", fn(*a, **kw)
    except Exception as e:  # noqa
        return "raise", type(e).__name__ + ": " + str(e)[:200]


def tla_str_seq(bs: bytes) -> List[int]:
    return list(bs)
