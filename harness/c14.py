"""C14 — the tracked world stays self-consistent (SceneGraph.tla / _MC / _MBT / _Trace).

Spec layer (SceneGraph.tla): ONE object map obj : FullID -> [local, parent, region]; the index by full ID, the
    per-region index by local ID, children, parent links and orphans are views DERIVED from it; requests are a
    set of pending keys.  Environment assumptions of the property are guards.
Algo layer (SceneGraph_MC.tla): transcription of the code's bookkeeping (both indices, ChildIDs, Parent,
    orphanage, futures, assertions), run in lock step; TLC checks it against the derived views exhaustively.
B1: every edge of exhaustively enumerated closed Spec models (all reachable abstract states x all actions) is
    replayed into real proxy sessions (real messages through the real (de)serializer) along planned tours; the
    complete observation is compared with what TLC printed after EVERY step.
B2: long random histories over a larger universe, with multi-block messages, are executed against the real
    code by a driver that plays the simulator; TLC re-computes the expected world from the logged arguments and
    judges the logged observations clause by clause (SceneGraph_Trace.tla).

Features of a violation (for known_findings.json): kind b1|b2, clause (first failed clause, in the order of
CLAUSES), act, msg (message kind), exc (exception type for clause "raised"), tags (triage labels TLC attached to
the failing step: target-regionless, cachedHit-known-fullid, kill-untracked-parent-of-avatar, cancels-requests),
after (labels of the steps before it in the same history), blocks (B2: blocks in the failing message).

Development aid: C14_ONLY=mc|b1|b2|<label>[,..] runs only those parts.
"""
from __future__ import annotations

import asyncio
import json
import logging
import os
import random
from typing import Any, Dict, List, Optional, Tuple

from . import common
from .common import Check, impl_call

ALL_FULL = ["a", "b", "c", "d", "e", "f"]
TRACKABLE = ["R1", "R2"]
UNKNOWN = ["R3"]
PROPS = ["KillCascades", "UnloadComplete"]
INVS = ["TypeOK", "EnvKept", "RegionsKnown", "LinksBothWays", "OrphansExact", "PendingAnswerable", "KillComplete",
        "OutDisjoint", "NoRaise", "FullIndex", "LocalIndex", "ChildLists", "ParentLinks", "Orphanage", "Futures"]


def _tla_set(xs, quote=True):
    return "{" + ",".join(('"%s"' % x) if quote else str(x) for x in xs) + "}"


def _consts(U, **extra):
    s = ("FullIDs = %s Avatars = %s Locals = %s Trackable = %s Unknown = %s InitTracked = %s MaxPending = %d" % (
        _tla_set(U["full"]), _tla_set(U["avatars"]), _tla_set(U["locals"], False), _tla_set(U.get("trackable", TRACKABLE)),
        _tla_set(U.get("unknown", UNKNOWN)), _tla_set(U["init"]), U["maxpending"]))
    for k, v in extra.items():
        s += " %s = %s" % (k, v)
    return s


# ------------------------------------------------------------------------------------------
# Exceptions swallowed by Event.notify / the event loop are an OBSERVATION ("no handler raises")
# ------------------------------------------------------------------------------------------

class _Capture(logging.Handler):
    def __init__(self):
        super().__init__(level=logging.ERROR)
        self.excs: List[str] = []

    def emit(self, record):
        ei = record.exc_info
        if ei and ei[0] is not None:
            self.excs.append("%s: %s" % (ei[0].__name__, str(ei[1])[:160]))


_CAP = _Capture()
_LOGGING_READY = False


def _install_logging():
    """main.py disables logging; handler exceptions are only visible as LOG.exception records."""
    global _LOGGING_READY
    if _LOGGING_READY:
        return
    _LOGGING_READY = True
    logging.disable(logging.WARNING)  # ERROR and above are processed again
    root = logging.getLogger()
    if not root.handlers:
        root.addHandler(logging.NullHandler())
    for name in ("hippolyzer.lib.base.events", "asyncio", "hippolyzer.lib.base.helpers"):
        lg = logging.getLogger(name)
        lg.addHandler(_CAP)
        lg.propagate = False


# ------------------------------------------------------------------------------------------
# The real system under a small universe of names
# ------------------------------------------------------------------------------------------

_IMP: Dict[str, Any] = {}


def _imports():
    if _IMP:
        return _IMP
    from hippolyzer.lib.base.datatypes import UUID, Vector3, Quaternion
    from hippolyzer.lib.base.message.message import Block, Message
    from hippolyzer.lib.base.message.udpdeserializer import UDPMessageDeserializer
    from hippolyzer.lib.base.message.udpserializer import UDPMessageSerializer
    from hippolyzer.lib.base import templates as tmpls
    import hippolyzer.lib.base.serialization as se
    from hippolyzer.lib.base.objects import gridxy_to_handle
    from hippolyzer.lib.base.test_utils import MockTransport
    from hippolyzer.lib.client.object_manager import ObjectUpdateType
    from hippolyzer.lib.proxy.sessions import SessionManager
    from hippolyzer.lib.proxy.settings import ProxySettings
    from hippolyzer.lib.proxy.vocache import RegionViewerObjectCacheChain, RegionViewerObjectCache, ViewerObjectCacheEntry
    _IMP.update(locals())
    _IMP["SER"] = UDPMessageSerializer()
    _IMP["DE"] = UDPMessageDeserializer()
    _IMP["HANDLES"] = {"R1": gridxy_to_handle(1000, 1000), "R2": gridxy_to_handle(1001, 1000),
                       "R3": gridxy_to_handle(1002, 1000)}
    _IMP["RNAMES"] = {v: k for k, v in _IMP["HANDLES"].items()}
    _IMP["UUIDS"] = {n: UUID(int=0x1000 + i) for i, n in enumerate(ALL_FULL)}
    _IMP["FNAMES"] = {v: k for k, v in _IMP["UUIDS"].items()}
    return _IMP


TEXTURE_ENTRY = (b'\x89UgG$\xcbC\xed\x92\x0bG\xca\xed\x15F_\x00\x00\x00\x00\x00\x00\x00\x00\x80?\x00\x00'
                 b'\x00\x80?\x00\x00\x00\x00\x00\x00\x00\x00\x00\x00\x00\x00\x00\x00\x00\x00\x00\x00\x00'
                 b'\x00\x00\x00\x00\x00\x00\x00\x00\x00\x00\x00\x00\x00')


class World:
    """One real proxy session with two regions, driven through its public entry points only:
    session/region message handlers, track_region_objects, region.objects.clear/request_*, lookups."""

    def __init__(self, U):
        I = _imports()
        self.I = I
        self.U = U
        UUID = I["UUID"]
        sm = I["SessionManager"](I["ProxySettings"]())
        h1 = I["HANDLES"]["R1"]
        self.session = sm.create_session({
            "session_id": UUID(int=0xA1), "secure_session_id": UUID(int=0xA2), "agent_id": UUID(int=0xA3),
            "circuit_code": 1234, "sim_ip": "127.0.0.1", "sim_port": 3,
            "region_x": h1 >> 32, "region_y": h1 & 0xFFFFFFFF, "seed_capability": "https://test.localhost:4/foo"})
        self.transport = I["MockTransport"]()
        self.regions = {"R1": self.session.regions[0],
                        "R2": self.session.register_region(("127.0.0.1", 9), "https://localhost:5", I["HANDLES"]["R2"])}
        self.session_manager = sm
        sm.claim_session(self.session.id)
        for r in self.regions.values():
            self.session.open_circuit(("127.0.0.1", 1), r.circuit_addr, self.transport)
        self.session.main_region = self.regions["R1"]
        for r in U["init"]:
            self.session.objects.track_region_objects(I["HANDLES"][r])
        self.seq = 0
        self.futs: Dict[Tuple[str, int, str], asyncio.Future] = {}
        self.slot_crc: Dict[Tuple[str, int], int] = {}
        self.killed: List[str] = []
        self.session.objects.events.subscribe(I["ObjectUpdateType"].KILL, self._on_kill)

    def _on_kill(self, ev):
        self.killed.append(self.fname(ev.object.FullID))

    def fname(self, u):
        return self.I["FNAMES"].get(u, "?" + str(u)[-6:])

    def rname(self, h):
        return self.I["RNAMES"].get(h, "?" + str(h))

    def close(self):
        for r in self.regions.values():
            impl_call(r.objects.clear)
        impl_call(self.session.objects.clear)

    # --- messages --------------------------------------------------------------------------
    def _deliver(self, msg, rname):
        I = self.I
        msg = I["DE"].deserialize(I["SER"].serialize(msg))
        region = self.regions.get(rname) or self.regions["R1"]
        msg.sender = region.circuit_addr
        errs = []
        for h in (self.session.message_handler, region.message_handler):
            st, r = impl_call(h.handle, msg)
            if st != "ok":
                errs.append(r)
        return errs

    def _pcode(self, f):
        P = self.I["tmpls"].PCode
        return P.AVATAR if f in self.U["avatars"] else P.PRIMITIVE

    def _msg_full(self, r, items):
        """ObjectUpdate for region r with one ObjectData block per (f, l, p, seq)."""
        I = self.I
        Block, Message, Vector3 = I["Block"], I["Message"], I["Vector3"]
        msg = Message(
            "ObjectUpdate",
            Block("RegionData", RegionHandle=I["HANDLES"][r], TimeDilation=123),
            *[Block("ObjectData", ID=l, FullID=I["UUIDS"][f], PCode=self._pcode(f), CRC=seq,
                    Scale=Vector3(0.5, 0.5, 0.5), UpdateFlags=268568894, PathCurve=16, ParentID=p, ProfileCurve=1,
                    PathScaleX=100, PathScaleY=100, NameValue=None, TextureEntry=TEXTURE_ENTRY,
                    TextColor=b'\x00\x00\x00\x00', ExtraParams=b'\x00', fill_missing=True)
              for f, l, p, seq in items])
        for blk, (f, l, p, seq) in zip(msg["ObjectData"], items):
            blk.serialize_var("ObjectData", (60, {
                'Position': (1.0, 2.0, float(seq % 1000)), 'Velocity': (0.0, 0.0, 0.0), 'Acceleration': (0.0, 0.0, 0.0),
                'Rotation': (0.0, 0.0, 0.0, 1.0), 'AngularVelocity': (0.0, 0.0, 0.0)}))
        return msg

    def _compressed_data(self, f, l, p, crc):
        I = self.I
        tm, se = I["tmpls"], I["se"]
        flags = tm.CompressedFlags(0)
        if p:
            flags |= tm.CompressedFlags.PARENT_ID
        d = {"FullID": I["UUIDS"][f], "ID": l, "PCode": self._pcode(f), "State": 0, "CRC": crc,
             "Material": tm.MCode.WOOD, "ClickAction": 0, "Scale": I["Vector3"](0.5, 0.5, 0.5),
             "Position": I["Vector3"](1.0, 2.0, float(crc % 1000)), "Rotation": I["Quaternion"](0, 0, 0, 1),
             "Flags": flags, "OwnerID": I["UUID"](), "ParentID": p if p else None, "ExtraParams": {},
             "PathCurve": 16, "ProfileCurve": 1, "PathBegin": 0, "PathEnd": 0, "PathScaleX": 100, "PathScaleY": 100,
             "PathShearX": 0, "PathShearY": 0, "PathTwist": 0, "PathTwistBegin": 0, "PathRadiusOffset": 0,
             "PathTaperX": 0, "PathTaperY": 0, "PathRevolutions": 0, "PathSkew": 0, "ProfileBegin": 0,
             "ProfileEnd": 0, "ProfileHollow": 0, "TextureEntry": tm.TextureEntryCollection()}
        w = se.BufferWriter("<")
        w.write(tm.ObjectUpdateCompressedDataSerializer.TEMPLATE, d)
        return w.copy_buffer()

    def _msg_cached(self, r, l, crc):
        I = self.I
        return I["Message"]('ObjectUpdateCached',
                            I["Block"]("RegionData", TimeDilation=102, RegionHandle=I["HANDLES"][r]),
                            I["Block"]("ObjectData", ID=l, CRC=crc, UpdateFlags=4096 + self.seq))

    def _set_cache(self, r, entries):
        I = self.I
        reg = self.regions.get(r)
        if reg is not None:
            reg.objects.object_cache = I["RegionViewerObjectCacheChain"](
                [I["RegionViewerObjectCache"](I["UUID"](int=0xC0), entries)] if entries else [])

    # --- one message: one abstract action per block --------------------------------------------
    @staticmethod
    def batchable(a, b) -> bool:
        """May b travel in the same message as a (as a further block)?"""
        if a["n"] != b["n"] or a.get("r") != b.get("r"):
            return False
        if a["n"] == "Announce":
            return a["kind"] == b["kind"] and a["kind"] in ("full", "compressed")
        if a["n"] == "Touch":
            return a["kind"] == b["kind"] == "terse"
        return a["n"] in ("Kill", "Props")

    def _do(self, acts) -> List[str]:
        I = self.I
        Block, Message = I["Block"], I["Message"]
        act = acts[0]
        n = act["n"]
        seqs = []
        for _ in acts:
            self.seq += 1
            seqs.append(self.seq)
        if len(acts) > 1 and not all(self.batchable(act, b) for b in acts[1:]):
            raise common.MachineryError("actions cannot share a message: %r" % (acts,))
        if n == "Announce":
            kind, r = act["kind"], act["r"]
            for a, sq in zip(acts, seqs):
                self.slot_crc[(r, a["l"])] = sq
            if kind == "full":
                return self._deliver(self._msg_full(r, [(a["f"], a["l"], a["p"], sq) for a, sq in zip(acts, seqs)]), r)
            datas = [self._compressed_data(a["f"], a["l"], a["p"], sq) for a, sq in zip(acts, seqs)]
            if kind == "compressed":
                return self._deliver(Message(
                    "ObjectUpdateCompressed", Block("RegionData", RegionHandle=I["HANDLES"][r], TimeDilation=1),
                    *[Block("ObjectData", UpdateFlags=4096 + sq, Data=d) for d, sq in zip(datas, seqs)]), r)
            # cachedHit: the viewer object cache of the region holds (l, crc) -> compressed data
            self._set_cache(r, [I["ViewerObjectCacheEntry"](local_id=act["l"], crc=self.seq, data=datas[0])])
            errs = self._deliver(self._msg_cached(r, act["l"], self.seq), r)
            self._set_cache(r, [])
            return errs
        if n == "Touch":
            kind, r, l = act["kind"], act["r"], act["l"]
            if kind == "terse":
                return self._deliver(Message(
                    'ImprovedTerseObjectUpdate', Block('RegionData', RegionHandle=I["HANDLES"][r], TimeDilation=65345),
                    *[Block('ObjectData', Data_={
                        'ID': a["l"], 'State': 0, 'FootCollisionPlane': None,
                        'Position': I["Vector3"](-2, -3, float(sq % 1000)), 'Velocity': I["Vector3"](0, 0, 0),
                        'Acceleration': I["Vector3"](0, 0, 0), 'Rotation': I["Quaternion"](0, 0, 0, 1),
                        'AngularVelocity': I["Vector3"](0, 0, 0)}, TextureEntry_=None) for a, sq in zip(acts, seqs)]), r)
            self._set_cache(r, [])
            crc = self.slot_crc.get((r, l), 0) if kind == "cachedSame" else 0x70000000 + self.seq
            return self._deliver(self._msg_cached(r, l, crc), r)
        if n == "Props":
            return self._deliver(Message("ObjectProperties", *[Block(
                "ObjectData", ObjectID=I["UUIDS"][a["f"]], Name="n%d" % sq, TextureID=b"", fill_missing=True)
                for a, sq in zip(acts, seqs)]), None)
        if n == "Kill":
            return self._deliver(Message("KillObject", *[Block("ObjectData", ID=a["l"]) for a in acts]), act["r"])
        if n == "Track":
            # what the proxy does on UseCircuitCode (a dead circuit is replaced) and RegionHandshake
            reg = self.regions[act["r"]]
            st, r = impl_call(self.session.open_circuit, ("127.0.0.1", 1), reg.circuit_addr, self.transport)
            if st == "ok":
                st, r = impl_call(self.session.objects.track_region_objects, I["HANDLES"][act["r"]])
            return [] if st == "ok" else [r]
        if n == "Teardown":
            # what the proxy does on CloseCircuit / DisableSimulator, for a tracked region or not
            st, r = impl_call(self.regions[act["r"]].mark_dead)
            return [] if st == "ok" else [r]
        if n == "Request":
            om = self.regions[act["r"]].objects
            fn = om.request_objects if act["ty"] == "UPDATE" else om.request_object_properties
            st, r = impl_call(fn, act["l"])
            if st != "ok":
                return [r]
            self.futs[(act["r"], act["l"], act["ty"])] = r[0]
            return []
        raise common.MachineryError("unknown action %r" % (act,))

    async def step(self, act) -> dict:
        """Deliver one message (act: one action, or a list of actions = blocks of one message), let the event
        loop run, report what happened."""
        before = {k: f for k, f in self.futs.items() if not f.done()}
        self.killed.clear()
        _CAP.excs.clear()
        errs = self._do(act if isinstance(act, list) else [act])
        for _ in range(3):
            await asyncio.sleep(0)
        errs = errs + list(_CAP.excs)
        resolved, cancelled = [], []
        for k, f in before.items():
            if f.cancelled():
                cancelled.append(list(k))
            elif f.done():
                st, res = impl_call(lambda: self.fname(f.result().FullID))
                resolved.append(list(k) + [res if st == "ok" else "!" + str(res)[:40]])
        return {"raised": errs[0].split(":")[0] if errs else "", "raised_detail": errs[:2],
                "killed": sorted(self.killed), "resolved": sorted(resolved), "cancelled": sorted(cancelled),
                "pending": sorted(list(k) for k, f in self.futs.items() if not f.done())}

    # --- projection of the public lookups ------------------------------------------------------
    def observe(self) -> dict:
        I = self.I
        so = self.session.objects
        sess, regl, regf, links, bad = [], [], [], [], []
        seen = set()
        for o in list(so.all_objects):
            fn = self.fname(o.FullID)
            seen.add(fn)
            sess.append([fn, self.rname(o.RegionHandle), _i(o.LocalID), _i(o.ParentID)])
        for fn in self.U["full"]:
            o = so.lookup_fullid(I["UUIDS"][fn])
            if (o is not None) != (fn in seen):
                sess.append(["!lookup_fullid:" + fn, "-", 0, 0])
        for rn in TRACKABLE:
            om = self.regions[rn].objects
            vals = list(om.all_objects)
            byl = {}
            for l in self.U["locals"]:
                o = om.lookup_localid(l)
                if o is not None:
                    byl[l] = o
                    regl.append([rn, l, self.fname(o.FullID)])
                    if so.lookup_fullid(o.FullID) is not o:
                        regl.append([rn, l, "!not-the-instance-indexed-by-full-id"])
            if len(vals) != len(byl) or any(v is not byl.get(v.LocalID) for v in vals):
                regl.append([rn, -1, "!all_objects"])
            for fn in self.U["full"]:
                o = om.lookup_fullid(I["UUIDS"][fn])
                if o is not None:
                    regf.append([rn, _i(o.LocalID), fn])
            for o in vals:
                fn = self.fname(o.FullID)
                try:
                    par = self.fname(o.Parent.FullID) if o.Parent is not None else "-"
                except ReferenceError:
                    par = "!dead"
                kids = []
                try:
                    for c in o.Children:
                        kids.append(self.fname(c.FullID))
                    if [c.LocalID for c in o.Children] != list(o.ChildIDs) or len(set(o.ChildIDs)) != len(o.ChildIDs):
                        bad.append(fn)
                except ReferenceError:
                    kids.append("!dead")
                links.append([fn, par, sorted(kids)])
        return {"sess": sorted(sess), "regl": sorted(regl), "regf": sorted(regf), "links": sorted(links),
                "childids": ",".join(sorted(bad))}


def _i(x):
    return x if isinstance(x, int) else -1


# ------------------------------------------------------------------------------------------
# comparison of an observation with what TLC printed
# ------------------------------------------------------------------------------------------

def _norm_links(ls):
    return sorted([x[0], x[1], sorted(x[2])] for x in ls)


def _norm(xs):
    return sorted(list(x) if isinstance(x, (list, tuple)) else x for x in xs)


def compare_state(q, got, tracked) -> List[Tuple[str, Any, Any]]:
    """q: SObs printed by TLC for the state; got: World.observe(); tracked: the state's tracked regions.
    The by-full-ID lookup of a region is judged while the region is tracked (for an untracked region it is a
    filter of the session table by handle and shows the regionless objects attributed to it)."""
    bad = []
    for clause, exp, g in (("idx.session", _norm(q["sess"]), got["sess"]),
                           ("idx.region.local", _norm(q["reg"]), got["regl"]),
                           ("idx.region.full", _norm(q["reg"]), [x for x in got["regf"] if x[0] in tracked]),
                           ("links", _norm_links(q["links"]), got["links"])):
        if exp != g:
            bad.append((clause, exp, g))
    if got["childids"]:
        bad.append(("childids", "", got["childids"]))
    return bad


def compare_step(o, pending, out) -> List[Tuple[str, Any, Any]]:
    """o: outputs printed by TLC for the edge; pending: target state's pending set; out: World.step()."""
    bad = []
    if out["raised"]:
        bad.append(("raised", "", out["raised_detail"]))
    for clause, exp, g in (("events.killed", _norm(o["killed"]), out["killed"]),
                           ("futures.pending", _norm(pending), out["pending"]),
                           ("futures.resolved", _norm(o["resolved"]), out["resolved"]),
                           ("futures.cancelled", _norm(o["cancelled"]), out["cancelled"])):
        if exp != g:
            bad.append((clause, exp, g))
    return bad


def classify(act, bad, tags, after) -> dict:
    """Features of a failing case for known_findings matching: the first failed clause, the action, and the
    triage labels TLC attached to the failing step (`tags`) and to the steps before it (`after`)."""
    clause = bad[0][0]
    feat = {"clause": clause, "act": act["n"], "tags": sorted(tags), "after": sorted(after)}
    if "kind" in act:
        feat["msg"] = act["kind"]
    if clause == "raised":
        feat["exc"] = str(bad[0][2][0]).split(":")[0] if bad[0][2] else "?"
    return feat


# ------------------------------------------------------------------------------------------
# B1: compact graph of the exported model, planned tours, replay
# ------------------------------------------------------------------------------------------

class CGraph:
    """States are numbered in order of first appearance; edges are (src, act, dst, out) with the
    action / output records interned."""

    def __init__(self):
        self.key2id: Dict[str, int] = {}
        self.states: List[Any] = []
        self.sobs: List[Any] = []
        self.edges: List[Tuple[int, dict, int, dict, tuple]] = []
        self.init: Optional[int] = None
        self._seen = set()
        self._acts: Dict[str, dict] = {}
        self._outs: Dict[str, dict] = {}
        self._tags: Dict[tuple, tuple] = {}

    def feed(self, line: str):
        try:
            r = json.loads(json.loads(line))
        except Exception:
            raise common.MachineryError("unparseable PrintT line: %r" % line[:200])
        if "init" in r:
            self.init = self._sid(r["init"], r["q"])
            return
        s = self._sid(r["s"], None)
        d = self._sid(r["d"], r["q"])
        ak = json.dumps(r["a"], sort_keys=True)
        ek = (s, ak, d)
        if ek in self._seen:
            return
        self._seen.add(ek)
        ok = json.dumps(r["o"], sort_keys=True)
        self.edges.append((s, self._acts.setdefault(ak, r["a"]), d, self._outs.setdefault(ok, r["o"]),
                           self._tags.setdefault(tuple(sorted(r["t"])), tuple(sorted(r["t"])))))

    def finish(self):
        if self.init is None:
            raise common.MachineryError("MBT export has no init record")
        self._seen = set()
        self.out: List[List[int]] = [[] for _ in self.states]
        for i, e in enumerate(self.edges):
            self.out[e[0]].append(i)
        self.parent: Dict[int, Optional[int]] = {self.init: None}
        self.order = [self.init]           # states in BFS order
        dq = [self.init]
        while dq:
            nxt = []
            for s in dq:
                for ei in self.out[s]:
                    d = self.edges[ei][2]
                    if d not in self.parent:
                        self.parent[d] = ei
                        nxt.append(d)
            self.order += nxt
            dq = nxt
        for q in self.sobs:
            if q is None:
                raise common.MachineryError("state without observation in export")

    def _sid(self, st, q):
        k = json.dumps(st, sort_keys=True, separators=(",", ":"))
        i = self.key2id.get(k)
        if i is None:
            i = len(self.states)
            self.key2id[k] = i
            self.states.append(st)
            self.sobs.append(q)
        elif q is not None and self.sobs[i] is None:
            self.sobs[i] = q
        return i

    def path_to(self, s: int) -> List[int]:
        path = []
        while self.parent.get(s) is not None:
            ei = self.parent[s]
            path.append(ei)
            s = self.edges[ei][0]
        path.reverse()
        return path

    def plan_walks(self, maxlen: int) -> List[List[int]]:
        """Cover every edge by walks from the initial state (deterministic, computed on the graph alone).
        A walk chains not-yet-covered edges; when the current state has none left it moves (re-executing
        covered edges) to a state within two steps that has, otherwise it ends."""
        n = len(self.states)
        ptr = [0] * n
        succ: List[Optional[List[Tuple[int, int]]]] = [None] * n

        def succs(s):
            if succ[s] is None:
                rep = {}
                for ei in self.out[s]:
                    rep.setdefault(self.edges[ei][2], ei)
                succ[s] = sorted(rep.items())
            return succ[s]

        def has(s):
            return ptr[s] < len(self.out[s])

        walks = []
        todo = 0                 # index into self.order: first state that may have uncovered edges
        while True:
            while todo < len(self.order) and not has(self.order[todo]):
                todo += 1
            if todo >= len(self.order):
                break
            s = self.order[todo]
            walk = list(self.path_to(s))
            while len(walk) < maxlen:
                if has(s):
                    ei = self.out[s][ptr[s]]
                    ptr[s] += 1
                    walk.append(ei)
                    s = self.edges[ei][2]
                    continue
                hop = None
                for d, ei in succs(s):
                    if has(d):
                        hop = [ei]
                        break
                if hop is None:
                    for d, ei in succs(s):
                        for d2, ei2 in succs(d):
                            if has(d2):
                                hop = [ei, ei2]
                                break
                        if hop:
                            break
                if hop is None:
                    break
                walk += hop
                s = self.edges[hop[-1]][2]
            walks.append(walk)
        return walks


_G: Optional[CGraph] = None
_U: Optional[dict] = None


async def _canonical(g, U, ei):
    """Replay of one edge from a fresh world along the BFS-tree path: the shortest history."""
    s, act, d, o, tags = g.edges[ei]
    w = World(U)
    hist, after = [], set()
    for pe in g.path_to(s):
        await w.step(g.edges[pe][1])
        hist.append(g.edges[pe][1])
        after |= set(g.edges[pe][4])
    if compare_state(g.sobs[s], w.observe(), g.states[s][1]):
        w.close()
        return None
    out = await w.step(act)
    bad = compare_step(o, g.states[d][2], out) + compare_state(g.sobs[d], w.observe(), g.states[d][1])
    w.close()
    return (hist + [act], bad, after) if bad else None


async def _replay_async(walks):
    g, U = _G, _U
    fails, steps, skipped = [], 0, 0
    for walk in walks:
        w = World(U)
        hist, after = [], set()
        for k, ei in enumerate(walk):
            s, act, d, o, tags = g.edges[ei]
            out = await w.step(act)
            hist.append(act)
            steps += 1
            bad = compare_step(o, g.states[d][2], out) + compare_state(g.sobs[d], w.observe(), g.states[d][1])
            if bad:
                short = await _canonical(g, U, ei)
                if short is not None:
                    hist, bad, after = short
                fails.append({"history": hist, "failed": [list(b) for b in bad[:4]],
                              "shortest_path_reproduces": short is not None,
                              "features": classify(act, bad, tags, after)})
                skipped += len(walk) - k - 1
                break
            after |= set(tags)
        w.close()
    return fails, steps, skipped


def _replay_chunk(walks):
    _install_logging()
    return asyncio.run(_replay_async(walks))


LOOP_PRIORITY = {"Kill": 0, "Teardown": 1, "Announce": 2, "Props": 3, "Touch": 4}


def _selfloop_pairs(g: CGraph, budget: int):
    """(loop edge, following edge) for edges that leave the abstract state unchanged: the implementation's
    HIDDEN state may be disturbed by an abstractly idle action.  The tours continue after every self-loop with
    ONE following edge; this pass replays shortest path + loop + next for further followers, loops of kills
    and teardowns first, thinned deterministically to the budget."""
    loops = [i for i, e in enumerate(g.edges) if e[0] == e[2] and e[0] in g.parent]
    loops.sort(key=lambda i: (0 if g.edges[i][4] else 1, LOOP_PRIORITY.get(g.edges[i][1]["n"], 9), i))
    total = sum(len(g.out[g.edges[i][0]]) for i in loops)
    pairs = []
    if total <= budget:
        for i in loops:
            pairs += [(i, j) for j in g.out[g.edges[i][0]]]
        return pairs, total, len(loops)
    # loops that TLC labelled (e.g. the kill of an untracked parent of an avatar) get every follower, up to half
    # of the budget; the others one follower each, taken at a position that rotates with the loop
    rest = []
    for i in loops:
        outs = g.out[g.edges[i][0]]
        if g.edges[i][4] and len(pairs) + len(outs) <= budget // 2:
            pairs += [(i, j) for j in outs]
        else:
            rest.append(i)
    for n, i in enumerate(rest):
        if len(pairs) >= budget:
            break
        outs = g.out[g.edges[i][0]]
        pairs.append((i, outs[(7 * n) % len(outs)]))
    return pairs, total, len(loops)


async def _pairs_async(pairs):
    g, U = _G, _U
    fails, steps = [], 0
    for li, ni in pairs:
        s = g.edges[li][0]
        w = World(U)
        hist, after = [], set()
        for pe in g.path_to(s):
            await w.step(g.edges[pe][1])
            hist.append(g.edges[pe][1])
            after |= set(g.edges[pe][4])
            steps += 1
        for ei in (li, ni):
            s0, act, d, o, tags = g.edges[ei]
            out = await w.step(act)
            hist.append(act)
            steps += 1
            bad = compare_step(o, g.states[d][2], out) + compare_state(g.sobs[d], w.observe(), g.states[d][1])
            if bad:
                fails.append({"history": list(hist), "failed": [list(b) for b in bad[:4]],
                              "shortest_path_reproduces": False, "after_self_loop": ei == ni,
                              "features": classify(act, bad, tags, after)})
                break
            after |= set(tags)
        w.close()
    return fails, steps, 0


def _pairs_chunk(pairs):
    _install_logging()
    return asyncio.run(_pairs_async(pairs))


def _mbt_cfg(U, akinds, tkinds, reqlocals, depth=99):
    return ("SPECIFICATION MSpec\nCONSTANTS %s\nVIEW View\nCONSTRAINT Bound\n" % _consts(
        U, Depth=depth, AKinds=_tla_set(akinds), TKinds=_tla_set(tkinds), ReqLocals=_tla_set(reqlocals, False)))


def _export(chk: Check, cfg_text: str, label: str) -> CGraph:
    """Run the MBT wrapper with one worker, parsing its edge lines while they are produced."""
    import subprocess
    import tempfile
    import time
    cfg = os.path.join(chk.scratch, "mbt-%s.cfg" % label)
    with open(cfg, "w") as f:
        f.write(cfg_text)
    meta = tempfile.mkdtemp(prefix="meta-", dir=chk.scratch)
    cmd = ["java", "-XX:+UseParallelGC", "-Xmx4g", "-Xss512m", "-DTLA-Library=" + common.SPECS,
           "-cp", common.TLA_JAR + ":" + common.TLA_DEPS, "tlc2.TLC", "-workers", "1", "-metadir", meta,
           "-noGenerateSpecTE", "-config", cfg, "-deadlock", os.path.join(common.SPECS, "SceneGraph_MBT.tla")]
    env = dict(os.environ)
    env.pop("JAVA_TOOL_OPTIONS", None)
    t0 = time.time()
    g = CGraph()
    other = []
    p = subprocess.Popen(cmd, cwd=common.SPECS, env=env, stdout=subprocess.PIPE, stderr=subprocess.STDOUT, text=True,
                         errors="replace")
    try:
        for line in p.stdout:
            if line.startswith('"{'):
                g.feed(line)
            else:
                other.append(line)
        rc = p.wait()
    finally:
        if p.poll() is None:
            p.kill()
    res = common.TlcResult(" ".join(cmd), "".join(other), rc, time.time() - t0)
    if not res.ok:
        raise common.MachineryError("SceneGraph_MBT export failed:\n" + res.out[-2000:])
    chk.add_tlc(res, "SceneGraph_MBT %s (export)" % label)
    g.finish()
    return g


def _situations(g: CGraph) -> Dict[str, int]:
    """How often the exported model exercises each situation the property names (vacuity guard).  Read off
    TLC's own source / target states, outputs and labels; nothing is recomputed here."""
    c: Dict[str, int] = {}

    def hit(k):
        c[k] = c.get(k, 0) + 1
    for s, act, d, o, tags in g.edges:
        src, dst = g.states[s], g.states[d]
        for t in tags:
            hit("tag:" + t)
        n = act["n"]
        if n == "Announce":
            f = act["f"]
            before, after = src[0][f], dst[0][f]
            if before[0] == 0:
                hit("announce.new" if after[0] else "announce.ignored")
            elif before == after:
                hit("announce.same-identity")
            elif before[2] != after[2]:
                hit("announce.region-change" + ("" if after[2] in dst[1] else ".to-regionless")
                    + ("" if before[2] in src[1] else ".from-regionless"))
            elif before[0] != after[0]:
                hit("announce.local-id-change")
            else:
                hit("announce.reparent")
            kids_after = [x for x in g.sobs[d]["links"] if x[0] == f]
            kids_before = [x for x in g.sobs[s]["links"] if x[0] == f]
            if kids_after and kids_after[0][2] and (not kids_before or before[:1] + before[2:] != after[:1] + after[2:]):
                hit("announce.adopts-orphans")
            if kids_after and kids_after[0][1] == "-" and after[1] != 0:
                hit("announce.becomes-orphan")
        if n == "Kill":
            hit("kill.victims=%d" % min(len(o["killed"]), 3))
            if o["killed"] and len(g.sobs[d]["sess"]) + len(o["killed"]) == len(g.sobs[s]["sess"]) and any(
                    x[1] == "-" and [y for y in g.sobs[s]["links"] if y[0] == x[0] and y[1] in o["killed"]]
                    for x in g.sobs[d]["links"]):
                hit("kill.spares-avatar-child")
        if n == "Teardown" and len(g.sobs[d]["sess"]) < len(g.sobs[s]["sess"]):
            hit("teardown.unloads-objects" + ("" if act["r"] in src[1] else ".of-untracked-region"))
        if o["resolved"]:
            hit("request.resolved-by:" + n + ":" + act.get("kind", ""))
        if o["cancelled"]:
            hit("request.cancelled-by:" + n)
    return c


REQUIRED_SITUATIONS = [
    "announce.new", "announce.ignored", "announce.same-identity", "announce.region-change",
    "announce.region-change.to-regionless", "announce.region-change.from-regionless", "announce.local-id-change",
    "announce.reparent", "announce.adopts-orphans", "announce.becomes-orphan", "kill.victims=0", "kill.victims=1",
    "kill.victims=2", "kill.spares-avatar-child", "teardown.unloads-objects", "teardown.unloads-objects.of-untracked-region", "tag:track-adopts-stragglers", "tag:target-regionless",
    "tag:cachedHit-known-fullid", "tag:kill-untracked-parent-of-avatar", "tag:cancels-requests",
    "request.resolved-by:Announce:full", "request.resolved-by:Announce:compressed", "request.resolved-by:Announce:cachedHit",
    "request.resolved-by:Touch:terse", "request.resolved-by:Touch:cachedSame", "request.resolved-by:Props:",
    "request.cancelled-by:Announce", "request.cancelled-by:Kill", "request.cancelled-by:Teardown"]


def _b1(chk: Check, U, akinds, tkinds, reqlocals, label, depth=99, maxlen=60, pair_budget=0):
    global _G, _U
    g = _export(chk, _mbt_cfg(U, akinds, tkinds, reqlocals, depth), label)
    _G, _U = g, U
    walks = g.plan_walks(maxlen)
    covered = set(ei for wk in walks for ei in wk)
    if len(covered) != len(g.edges):
        raise common.MachineryError("B1 %s: tours cover %d of %d edges" % (label, len(covered), len(g.edges)))
    nchunks = common.NCPU * 4
    results = common.parallel_map(_replay_chunk, [c for c in (walks[i::nchunks] for i in range(nchunks)) if c])
    pairs, npairs, nloops = _selfloop_pairs(g, pair_budget)
    followed = sum(1 for wk in walks for a, b in zip(wk, wk[1:]) if g.edges[a][0] == g.edges[a][2])
    st = chk.cov.setdefault("b1_selfloops", {})
    st[label] = {"loop_edges": nloops, "loop_x_follower_pairs": npairs, "pairs_in_tours": followed,
                 "pairs_replayed_extra": len(pairs)}
    if pairs:
        results += common.parallel_map(_pairs_chunk, [c for c in (pairs[i::nchunks] for i in range(nchunks)) if c])
    skipped = 0
    for fails, steps, sk in results:
        skipped += sk
        chk.count(steps)
        for fl in fails:
            feat = dict(fl["features"], kind="b1")
            chk.violation("B1 %s: %s differs from specification after %s" % (label, feat["clause"], feat["act"]), feat, fl)
    chk.cov["traces_validated_against_impl"] += len(g.edges)
    chk.cov["b1_edges_replayed"] = chk.cov.get("b1_edges_replayed", 0) + len(g.edges) - skipped
    chk.cov["b1_states"] = chk.cov.get("b1_states", 0) + len(g.states)
    chk.cov["b1_walks"] = chk.cov.get("b1_walks", 0) + len(walks)
    if skipped:
        chk.cov["b1_steps_skipped_after_divergence"] = chk.cov.get("b1_steps_skipped_after_divergence", 0) + skipped
    acts: Dict[str, int] = {}
    for s, act, d, o, _t in g.edges:
        k = act["n"] + ":" + act.get("kind", act.get("ty", ""))
        acts[k] = acts.get(k, 0) + 1
        if s != d or o["killed"] or o["resolved"] or o["cancelled"]:
            chk.nontrivial(("edge", label, s, d))
    chk.cov.setdefault("b1_edges_by_action", {})[label] = acts
    sit = chk.cov.setdefault("b1_situations", {})
    for k, v in _situations(g).items():
        sit[k] = sit.get(k, 0) + v
    e = g.edges[min(len(g.edges) - 1, 4321)]
    chk.sample({"binding": "B1 edge replay", "history": [g.edges[p][1] for p in g.path_to(e[0])] + [e[1]],
                "expected_outputs": e[3], "expected_observation": g.sobs[e[2]]})
    _G = None


# ------------------------------------------------------------------------------------------
# Model check of the Algo layer against the Spec layer
# ------------------------------------------------------------------------------------------

class _McRun:
    """SceneGraph_MC under TLC as a child process that runs beside the replays (no Python involved)."""

    def __init__(self, chk: Check, U, depth, label, bugs=()):
        import subprocess
        import tempfile
        import time
        self.label = "SceneGraph_MC " + label
        cfg_text = ("SPECIFICATION MSpec\nCONSTANTS %s\nVIEW MView\nCONSTRAINT Bound\n"
                    % _consts(U, Depth=depth, Bugs=_tla_set(bugs))
                    + "".join("INVARIANT %s\n" % i for i in INVS) + "".join("PROPERTY %s\n" % i for i in PROPS))
        self.dir = tempfile.mkdtemp(prefix="mc-", dir=chk.scratch)
        cfg = os.path.join(self.dir, "SceneGraph_MC.cfg")
        with open(cfg, "w") as f:
            f.write(cfg_text)
        self.cmd = ["java", "-XX:+UseParallelGC", "-Xmx6g", "-Xss512m", "-DTLA-Library=" + common.SPECS,
                    "-cp", common.TLA_JAR + ":" + common.TLA_DEPS, "tlc2.TLC", "-workers", "auto",
                    "-metadir", os.path.join(self.dir, "meta"), "-noGenerateSpecTE", "-config", cfg, "-deadlock",
                    os.path.join(common.SPECS, "SceneGraph_MC.tla")]
        env = dict(os.environ)
        env.pop("JAVA_TOOL_OPTIONS", None)
        self.t0 = time.time()
        self.outf = open(os.path.join(self.dir, "out.txt"), "w+")
        self.p = subprocess.Popen(self.cmd, cwd=common.SPECS, env=env, stdout=self.outf, stderr=subprocess.STDOUT)

    def finish(self, chk: Check):
        import time
        try:
            rc = self.p.wait(timeout=3600)
        except Exception:
            self.p.kill()
            raise common.MachineryError("TLC timed out: " + self.label)
        self.outf.seek(0)
        out = self.outf.read()
        self.outf.close()
        import re
        m = re.search(r"Finished in (?:(\d+)min )?(\d+)s", out)
        wall = (int(m.group(1) or 0) * 60 + int(m.group(2))) if m else time.time() - self.t0
        res = common.TlcResult(" ".join(self.cmd), out, rc, wall)
        if "Parsing or semantic analysis failed" in out or "***Parse Error***" in out or "java.lang." in out \
                or "Error reading configuration" in out:
            raise common.MachineryError("TLC failed (%s):\n%s" % (self.label, out[-3000:]))
        chk.require_model_ok(res, self.label)
        return res

    def kill(self):
        if self.p.poll() is None:
            self.p.kill()


# ------------------------------------------------------------------------------------------
# B2: the driver plays the simulator; TLC judges
# ------------------------------------------------------------------------------------------

class Sim:
    """The simulator's own world (what it has announced and not taken back).  Only used to GENERATE
    histories inside the property's environment assumptions; SceneGraph_Trace asserts every guard again."""

    def __init__(self, U, rng: random.Random):
        self.U = U
        self.rng = rng
        self.obj: Dict[str, Optional[Tuple[str, int, int]]] = {f: None for f in U["full"]}  # f -> (r, l, p)
        self.tracked = set(U["init"])
        self.pending = set()

    def at(self, r, l):
        return [f for f, v in self.obj.items() if v and v[0] == r and v[1] == l]

    def _ok(self, f, l, p, r):
        if l == p:
            return False
        o = dict(self.obj)
        o[f] = (r, l, p)
        if any(g != f and v and v[0] == r and v[1] == l for g, v in o.items()):
            return False
        for g, v in o.items():          # no parent cycle anywhere
            seen, cur = set(), g
            while cur is not None and o[cur] and o[cur][2]:
                if cur in seen:
                    return False
                seen.add(cur)
                nxt = [h for h, hv in o.items() if hv and hv[0] == o[cur][0] and hv[1] == o[cur][2]]
                cur = nxt[0] if nxt else None
                if cur == g:
                    return False
        return True

    def victims(self, r, l):
        dead = set(self.at(r, l))
        for c, v in self.obj.items():
            if v and v[0] == r and v[2] == l and c not in self.U["avatars"] and c not in dead:
                dead |= self.victims(r, v[1])
        return dead

    def choose(self) -> Optional[dict]:
        rng, U = self.rng, self.U
        x = rng.random()
        regs = U.get("trackable", TRACKABLE) + U.get("unknown", UNKNOWN)   # new objects for untracked ones are ignored
        if x < 0.46:
            for _ in range(20):
                f = rng.choice(U["full"])
                cur = self.obj[f]
                kind = rng.choice(["full", "full", "compressed", "compressed", "cachedHit"])
                y = rng.random()
                if cur and y < 0.55:
                    r = cur[0]          # stay in the region: update / re-parent / new local ID
                else:
                    r = rng.choice(regs) if rng.random() < 0.8 or not self.tracked else rng.choice(sorted(self.tracked))
                if kind == "cachedHit" and r not in self.tracked:
                    kind = "full"
                if cur and cur[0] == r and rng.random() < 0.8:
                    l = cur[1]
                else:
                    l = rng.choice(U["locals"])
                p = rng.choice([0, 0] + U["locals"])
                if self._ok(f, l, p, r):
                    return {"n": "Announce", "kind": kind, "f": f, "l": l, "p": p, "r": r}
            return None
        if x < 0.60:
            if not self.tracked:
                return None
            r = rng.choice(sorted(self.tracked))
            return {"n": "Kill", "r": r, "l": rng.choice(U["locals"])}
        if x < 0.70:
            kind = rng.choice(["terse", "cachedSame", "cachedMiss"])
            r = rng.choice(regs)
            l = rng.choice(U["locals"])
            if kind == "cachedSame" and (r not in self.tracked or not self.at(r, l)):
                kind = "terse"
            return {"n": "Touch", "kind": kind, "r": r, "l": l}
        if x < 0.76:
            return {"n": "Props", "f": rng.choice(U["full"])}
        if x < 0.90:
            if not self.tracked:
                return None
            r = rng.choice(sorted(self.tracked))
            l = rng.choice(U["locals"])
            ty = rng.choice(["UPDATE", "PROPERTIES"])
            if (r, l, ty) in self.pending or len(self.pending) >= U["maxpending"]:
                return None
            return {"n": "Request", "r": r, "l": l, "ty": ty}
        if x < 0.95:
            un = [r for r in U.get("trackable", TRACKABLE) if r not in self.tracked]
            return {"n": "Track", "r": rng.choice(un)} if un else None
        return {"n": "Teardown", "r": rng.choice(U.get("trackable", TRACKABLE))}

    def apply(self, act):
        n = act["n"]
        if n == "Announce":
            f, l, p, r = act["f"], act["l"], act["p"], act["r"]
            cur = self.obj[f]
            if cur is None and r not in self.tracked:
                return
            if cur and cur[0] in self.tracked and (cur[0], cur[1]) != (r, l):
                self.pending = {k for k in self.pending if (k[0], k[1]) != (cur[0], cur[1])}
            self.obj[f] = (r, l, p)
            if r in self.tracked:
                self.pending.discard((r, l, "UPDATE"))
        elif n == "Touch":
            if act["r"] in self.tracked and act["kind"] != "cachedMiss" and self.at(act["r"], act["l"]):
                self.pending.discard((act["r"], act["l"], "UPDATE"))
        elif n == "Props":
            v = self.obj[act["f"]]
            if v and v[0] in self.tracked:
                self.pending.discard((v[0], v[1], "PROPERTIES"))
        elif n == "Kill":
            dead = self.victims(act["r"], act["l"])
            slots = {act["l"]} | {self.obj[f][1] for f in dead}
            for f in dead:
                self.obj[f] = None
            self.pending = {k for k in self.pending if not (k[0] == act["r"] and k[1] in slots)}
        elif n == "Track":
            self.tracked.add(act["r"])
        elif n == "Teardown":
            for f, v in self.obj.items():
                if v and v[0] == act["r"]:
                    self.obj[f] = None
            self.tracked.discard(act["r"])
            self.pending = {k for k in self.pending if k[0] != act["r"]}
        elif n == "Request":
            self.pending.add((act["r"], act["l"], act["ty"]))


CLAUSES = ["raised", "idx.session", "idx.region.local", "idx.region.full", "links", "childids", "events.killed",
           "futures.pending", "futures.resolved", "futures.cancelled"]
OBSKEY = {"idx.session": "sess", "idx.region.local": "regl", "idx.region.full": "regf", "links": "links",
          "childids": "childids", "events.killed": "killed", "futures.pending": "pending",
          "futures.resolved": "resolved", "futures.cancelled": "cancelled"}
ACTKEYS = (("kind", "kind"), ("f", "fid"), ("l", "loc"), ("p", "par"), ("r", "reg"), ("ty", "ty"))


def _act_of(ev):
    act = {"n": ev["ev"]}
    for k, nk in ACTKEYS:
        if nk in ev:
            act[k] = ev[nk]
    return act


def _event(act, obs, i):
    ev = {"ev": act["n"], "i": i}
    if obs is not None:
        ev["obs"] = obs
    for k, nk in ACTKEYS:
        if k in act:
            ev[nk] = act[k]
    return ev


async def _walks_async(jobs):
    traces = []
    for U, seed, length in jobs:
        rng = random.Random(seed)
        sim = Sim(U, rng)
        w = World(U)
        evs = []
        while len(evs) < length:
            act = sim.choose()
            if act is None:
                continue
            sim.apply(act)
            batch = [act]
            if act["n"] in ("Announce", "Kill", "Touch", "Props") and rng.random() < 0.3:
                # further blocks of the same message: handled back to back, the loop does not run in between
                for _ in range(rng.randrange(1, 4)):
                    for _try in range(8):
                        more = sim.choose()
                        if more is not None and World.batchable(act, more):
                            sim.apply(more)
                            batch.append(more)
                            break
            out = await w.step(batch)
            obs = w.observe()
            obs.update(out)
            del obs["raised_detail"]
            for blk in batch[:-1]:
                evs.append(_event(blk, None, len(evs)))
            evs.append(_event(batch[-1], obs, len(evs)))
        w.close()
        traces.append(evs)
    return traces


def _walks_chunk(jobs):
    _install_logging()
    return asyncio.run(_walks_async(jobs))


def _trace_cfg(U):
    return ("SPECIFICATION TraceSpec\nCONSTANTS %s\nPOSTCONDITION TraceAccepted\nCHECK_DEADLOCK FALSE\n" % _consts(U))


def _b2(chk: Check, U, n_walks, length, label, shards=0):
    shards = shards or max(1, min(common.NCPU, n_walks // 18))
    jobs = [(U, chk.rng.getrandbits(48), length) for _ in range(n_walks)]
    parts = common.parallel_map(_walks_chunk, common.chunked(jobs, common.NCPU))
    traces = [t for p in parts for t in p]
    _judge(chk, U, traces, label, shards)
    for i, t in enumerate(traces):
        kills = sum(1 for e in t if e["ev"] == "Kill" and e.get("obs", {}).get("killed"))
        if kills >= 2 and any(e["ev"] == "Teardown" for e in t):
            chk.nontrivial(("walk", label, i))
    chk.cov["b2_multi_block_messages"] = chk.cov.get("b2_multi_block_messages", 0) + sum(
        1 for t in traces for j, e in enumerate(t) if "obs" in e and j and "obs" not in t[j - 1])
    by = chk.cov.setdefault("b2_events_by_action", {})
    for t in traces:
        for e in t:
            k = e["ev"] + ":" + e.get("kind", e.get("ty", ""))
            by[k] = by.get(k, 0) + 1
    for k in ("Announce:full", "Announce:compressed", "Announce:cachedHit", "Touch:terse", "Touch:cachedSame",
              "Touch:cachedMiss", "Props:", "Kill:", "Track:", "Teardown:", "Request:UPDATE", "Request:PROPERTIES"):
        if not by.get(k):
            raise common.MachineryError("B2 %s: the random histories contain no %s event" % (label, k))
    chk.sample({"binding": "B2 trace (first events)", "events": common._clip(traces[0][:3])})


def _judge(chk: Check, U, traces, label, shards):
    """TLC validates the recorded traces; every failing trace becomes a violation with its first failing event."""
    acc, rej, results = common.validate_traces("SceneGraph_Trace", _trace_cfg(U), traces, chk.scratch,
                                               shards=shards, tag="sg")
    fails: Dict[int, List[dict]] = {}
    notes: Dict[int, List[dict]] = {}
    for r in results:
        chk.add_tlc(r, "SceneGraph_Trace " + label)
        if r.assert_failed:
            raise common.MachineryError("B2 driver left the environment assumptions:\n" + r.out[-1500:])
        for rec in r.printed():
            if isinstance(rec, dict) and "fail" in rec:
                fails.setdefault(rec["tid"], []).append(rec)
            elif isinstance(rec, dict) and "note" in rec:
                notes.setdefault(rec["tid"], []).append(rec)
    chk.cov["traces_validated_against_impl"] += len(traces)
    chk.cov["b2_events"] = chk.cov.get("b2_events", 0) + sum(len(t) for t in traces)
    chk.count(sum(len(t) for t in traces))
    for ti, j, ev in rej:
        chk.violation("B2 %s: trace rejected by SceneGraph_Trace at event %d (%s)" % (label, j, ev.get("ev")),
                      {"kind": "b2-reject", "event": ev.get("ev")}, {"trace_prefix": traces[ti][:j + 1][-8:]})
    for tid, fl in sorted(fails.items()):
        fl.sort(key=lambda r: (r["line"], CLAUSES.index(r["fail"]) if r["fail"] in CLAUSES else 99))
        first = [r for r in fl if r["line"] == fl[0]["line"]]
        at = first[0]["i"]
        ev = traces[tid][at]
        act = _act_of(ev)
        nblocks = 1
        while at - nblocks >= 0 and "obs" not in traces[tid][at - nblocks]:
            nblocks += 1
        bad = []
        for r in first:
            got = ev["obs"].get(OBSKEY.get(r["fail"], r["fail"]))
            exp = r["exp"]
            if r["fail"] == "raised":
                got = [ev["obs"]["raised"]]
            elif r["fail"] == "links":
                exp = _norm_links(exp)
            elif isinstance(exp, list):
                exp = _norm(exp)
            bad.append((r["fail"], exp, got))
        after = set(t for nrec in notes.get(tid, []) if nrec["i"] <= at - nblocks for t in nrec["note"])
        tags = set(first[0].get("tags", [])) | set(
            t for nrec in notes.get(tid, []) if at - nblocks < nrec["i"] < at for t in nrec["note"])
        feat = dict(classify(act, bad, tags, after), kind="b2", blocks=nblocks)
        chk.violation("B2 %s: %s differs from specification after %s" % (label, feat["clause"], feat["act"]), feat,
                      {"event_index": at, "failed": [list(b) for b in bad[:4]],
                       "history": [dict(_act_of(e), same_message_as_next=True) if "obs" not in e else _act_of(e)
                                   for e in traces[tid][:at + 1]]})
    return fails


async def _run_history(U, messages):
    w = World(U)
    evs = []
    for batch in messages:
        out = await w.step(batch)
        obs = w.observe()
        obs.update(out)
        del obs["raised_detail"]
        for blk in batch[:-1]:
            evs.append(_event(blk, None, len(evs)))
        evs.append(_event(batch[-1], obs, len(evs)))
    w.close()
    return evs


def replay(chk: Check, r: dict):
    """./check C14 --replay <file>: run the recorded history on the real code again and let TLC judge every step."""
    _install_logging()
    hist = (r.get("detail") or {}).get("history")
    if not hist:
        raise common.MachineryError("replay file has no history")
    messages, cur = [], []
    for a in hist:
        a = dict(a)
        more = a.pop("same_message_as_next", False)
        cur.append(a)
        if not more:
            messages.append(cur)
            cur = []
    if cur:
        messages.append(cur)
    evs = asyncio.run(_run_history(U5, messages))
    for e in evs:
        o = e.get("obs")
        print(_act_of(e), "->", {k: v for k, v in o.items() if v} if o else "(same message continues)")
    _judge(chk, U5, [evs], "replay", 1)


# ------------------------------------------------------------------------------------------

U2 = {"full": ["a", "b"], "avatars": ["b"], "locals": [1, 2, 3], "init": ["R1"], "maxpending": 0}
U2P = dict(U2, maxpending=1)
U2S = {"full": ["a", "b"], "avatars": ["b"], "locals": [1, 2], "init": ["R1"], "maxpending": 2,
       "trackable": ["R1"], "unknown": ["R3"]}
U3 = {"full": ["a", "b", "c"], "avatars": ["b"], "locals": [1, 2, 3], "init": ["R1"], "maxpending": 0}
U3D = {"full": ["a", "b", "c"], "avatars": ["b"], "locals": [1, 2, 3], "init": ["R1"], "maxpending": 3}
U5 = {"full": ["a", "b", "c", "d", "e"], "avatars": ["b", "e"], "locals": [1, 2, 3, 4], "init": ["R1"], "maxpending": 4}
AK = ["full", "compressed", "cachedHit"]
TK = ["terse", "cachedSame", "cachedMiss"]


def run(chk: Check):
    _install_logging()
    chk.cov["rule"] = ("B1: every edge of the exhaustively enumerated bounded Spec model replayed into real proxy "
                       "sessions along planned tours, full observation compared after every step; non-trivial = distinct "
                       "(source, target) state pairs of edges that change the abstract state or produce kill events / "
                       "request outcomes. B2: random simulator "
                       "histories executed on the real code and judged by TLC; non-trivial = walks with >= 2 effective "
                       "kills and a region teardown.")
    chk.assumptions += [
        "simulator never gives one local ID to two live objects of a region; parent links form no cycle (guards)",
        "every update message changes at least one property value (the code runs its hooks, which resolve requests, "
        "only then)",
        "the event loop runs between two messages (B1: one block per message; B2: also multi-block messages, whose "
        "blocks are handled back to back and observed after the last block)",
        "cascading kills spare avatars (the code's documented indra behaviour)",
        "an object announced for an untracked region stays in the session-wide index only, attributed to that region "
        "(pinned by tests/proxy/test_object_manager.py::test_object_moved_to_bad_region); unloading that region "
        "(mark_dead, tracked or not) removes it",
    ]
    U2L = dict(U2, locals=[1, 2])
    U3R = dict(U3, trackable=["R1"], unknown=[])
    if chk.tier == "quick":
        plan = [("mc", None, (U2, 99, "2obj")),
                ("mc", None, (U2S, 99, "2obj-2loc-requests")),
                ("b1", _b1, (dict(U2, unknown=[]), ["full"], TK, [], "2obj-R1-R2-full", 99, 60, 4000)),
                ("b1", _b1, (U2L, AK, TK, [], "2obj-2loc-all-kinds", 99, 60, 3000)),
                ("b1", _b1, (U2S, AK, TK, [1, 2], "2obj-2loc-requests", 99, 60, 3000)),
                ("b1", _b1, (U3R, AK, TK, [], "3obj-1region", 99, 60, 2000)),
                ("b2", _b2, (U3D, 36, 60, "3obj-dense")),
                ("b2", _b2, (U5, 108, 60, "5obj"))]
    else:
        U2R = dict(U2, trackable=["R1"], maxpending=2)
        plan = [("mc", None, (U2P, 99, "2obj-requests")),
                ("mc", None, (dict(U3, unknown=[]), 99, "3obj-R1-R2")),
                ("b1", _b1, (U2, AK, TK, [], "2obj-all", 99, 60, 40000)),
                ("b1", _b1, (U2R, AK, TK, [1, 2], "2obj-R1-R3-requests", 99, 60, 30000)),
                ("b1", _b1, (dict(U3, trackable=["R1"]), ["full"], ["terse"], [], "3obj-R1-R3-full", 99, 60, 30000)),
                ("b2", _b2, (U3D, 400, 60, "3obj-dense")),
                ("b2", _b2, (U5, 1000, 80, "5obj"))]
    only = [x for x in os.environ.get("C14_ONLY", "").split(",") if x]      # development aid: mc,b1,b2 or a label
    def label_of(st):
        return st[2][4] if st[0] == "b1" else st[2][-1]
    plan = [st for st in plan if not only or st[0] in only or label_of(st) in only]
    mcs = [_McRun(chk, *args) for kind, fn, args in plan if kind == "mc"]
    try:
        for kind, fn, args in plan:
            if kind != "mc":
                fn(chk, *args)
        for m in mcs:
            m.finish(chk)
    finally:
        for m in mcs:
            m.kill()
    if not only:
        missing = [k for k in REQUIRED_SITUATIONS if not chk.cov.get("b1_situations", {}).get(k)]
        if missing:
            raise common.MachineryError("the exported models never exercise: %s" % ", ".join(missing))
    chk.cov["exhaustive"] = True


# ---- growth beyond the listed property: the client-side parcel map (ParcelOverlay.tla)
_run_scene = run


def run(chk):
    _run_scene(chk)
    from . import growth_parceloverlay
    common.growth(chk, "ParcelOverlay", growth_parceloverlay.section)
