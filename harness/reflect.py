"""Reflection bridge between real serialization combinator objects and the tree records of
specs/Combinators.tla.

Stable API
    to_tree(spec_obj) -> dict          real combinator object graph -> tree record
    build(tree) -> spec_obj            tree record -> real combinator objects
    canon(value, tree=None, pod=None)  Python value (rich or plain-data) -> canonical JSON-able value
    to_py(tree, cvalue, pod=False)     canonical value -> Python value in rich / plain-data flavour
    reorder(pyvalue, k)                the same value with every mapping inside it in another key order
    subspecs(spec_obj)                 the spec objects nested in a spec object, innermost first

Tree records and canonical values are documented at the top of specs/Combinators.tla.  Fields the
TLA+ side ignores (Python-only decorations): template.dc / bitfield.dc (dataclass flavour),
typedbytes.lazy, adapter.name + adapter.ms (enum / flag member table), optflag.fm (flag members of an
IntFlag flag spec), enumswitch.ms, bitfield.fs[i].ad.

Everything here reads constructor state only (private attributes): a failure of this module is a
MachineryError of the framework (class Unreflectable for objects outside the modelled algebra), never
a property violation.
"""
from __future__ import annotations

import dataclasses
import functools
import json
import struct
import uuid as _uuid
from typing import Any, List, Optional

import lazy_object_proxy

import hippolyzer.lib.base.datatypes as dtypes
import hippolyzer.lib.base.serialization as se


class Unreflectable(Exception):
    """The object / value is outside the modelled combinator algebra."""


# ----------------------------------------------------------------------------------------
# helpers
# ----------------------------------------------------------------------------------------

_INT_FMT = {"B": (1, False), "b": (1, True), "H": (2, False), "h": (2, True),
            "I": (4, False), "i": (4, True), "Q": (8, False), "q": (8, True)}
_PRIMS = {(1, False): se.U8, (1, True): se.S8, (2, False): se.U16, (2, True): se.S16,
          (4, False): se.U32, (4, True): se.S32, (8, False): se.U64, (8, True): se.S64}


def int_tree(w: int, s: bool) -> dict:
    return {"k": "int", "w": w, "s": bool(s)}


U8T = int_tree(1, False)


def cint(n: int) -> dict:
    n = int(n)
    if -2 ** 31 <= n < 2 ** 31:
        return {"i": n}
    return {"w": list(n.to_bytes(9, "big", signed=True))}


def pint(cv: dict) -> int:
    if "i" in cv:
        return int(cv["i"])
    return int.from_bytes(bytes(cv["w"]), "big", signed=True)


NONE = {"none": True}

# binary-LLSD documents used as opaque leaf values: (bytes written as constants in the specification, Python value)
LLSD_DOCS = [
    (bytes([105, 0, 0, 0, 7]), 7),
    (bytes([91, 0, 0, 0, 2, 105, 0, 0, 0, 1, 115, 0, 0, 0, 1, 97, 93]), [1, "a"]),
    (bytes([48]), False),
    (bytes([115, 0, 0, 0, 2, 104, 105]), "hi"),
    (bytes([123, 0, 0, 0, 1, 107, 0, 0, 0, 1, 107, 49, 125]), {"k": True}),
]


def _llsd_same(a, b) -> bool:
    if type(a) is not type(b):
        return False
    if isinstance(a, list):
        return len(a) == len(b) and all(_llsd_same(x, y) for x, y in zip(a, b))
    if isinstance(a, dict):
        return list(a) == list(b) and all(_llsd_same(a[k], b[k]) for k in a)
    return a == b


def _key(x) -> str:
    return json.dumps(x, sort_keys=True, separators=(",", ":"))


class CtxField:
    """The family of context functions the model covers: a named field of the frame `up` levels up
    (ctx.field, ctx._.field, ...), or of the outermost frame (up = -1: ctx._root.field)."""

    def __init__(self, up: int, field: str):
        self.up = up
        self.field = field

    def __call__(self, ctx):
        if self.up < 0:
            return getattr(ctx._root, self.field)
        for _ in range(self.up):
            ctx = ctx._
        return getattr(ctx, self.field)


@functools.lru_cache(maxsize=None)
def _enum_cls(kind: str, members: tuple):
    base = dtypes.IntEnum if kind == "enum" else dtypes.IntFlag
    return base("VerifEnum" if kind == "enum" else "VerifFlag", dict(members))


def _members(ms) -> tuple:
    return tuple((m["n"], int(m["v"])) for m in ms)


def _ms_of(cls) -> list:
    return [{"n": name, "v": int(m.value)} for name, m in cls.__members__.items()]


def _default_enum_ms(ch) -> list:
    return [{"n": "K%d" % c["key"], "v": c["key"]} for c in ch]


# ----------------------------------------------------------------------------------------
# build: tree -> real objects
# ----------------------------------------------------------------------------------------

_DC_CACHE: dict = {}


def _dc_for(tree: dict):
    """Dataclass type for a template / bitfield tree with dc=True (cached: same tree, same class)."""
    k = _key(tree)
    if k in _DC_CACHE:
        return _DC_CACHE[k]
    fields = []
    if tree["k"] == "template":
        for f in tree["fs"]:
            fields.append((f["n"], Any, se.dataclass_field(build(f["t"]))))
    else:
        for f in tree["fs"]:
            fields.append((f["n"], int, se.bitfield_field(bits=f["bits"], adapter=_field_adapter(f))))
    cls = dataclasses.make_dataclass("VerifDC", fields)
    _DC_CACHE[k] = cls
    return cls


def _field_adapter(f: dict):
    ad = f.get("ad")
    if not ad:
        return None
    if ad["name"] == "IntEnum":
        return se.IntEnum(_enum_cls("enum", _members(ad["ms"])))
    if ad["name"] == "IntFlag":
        return se.IntFlag(_enum_cls("flag", _members(ad["ms"])))
    if ad["name"] == "Bool":
        return se.BoolAdapter()
    raise Unreflectable("bitfield member adapter %r" % (ad,))


def _terms(tree) -> tuple:
    return tuple(bytes([x]) for x in tree["terms"])


def build(tree: dict):
    k = tree["k"]
    if k == "int":
        return _PRIMS[(tree["w"], bool(tree["s"]))]
    if k == "float":
        return se.F32 if tree["w"] == 4 else se.F64
    if k == "uuid":
        return se.UUID
    if k == "coord":
        c = {(3, 4): se.Vector3, (4, 4): se.Vector4, (3, 8): se.Vector3D}.get((tree["n"], tree["w"]))
        if c is None:
            raise Unreflectable("coord %r" % (tree,))
        return c
    if k == "null":
        return se.Null
    if k == "llsd":
        return se.BinaryLLSD
    if k == "bytearray":
        return se.ByteArray(build(tree["p"]))
    if k == "bytesfixed":
        return se.BytesFixed(tree["n"])
    if k == "bytesgreedy":
        return se.BytesGreedy()
    if k == "bytesterm":
        return se.BytesTerminated(_terms(tree), write_terminator=tree["wt"], eof_terminates=tree["eof"])
    if k == "str":
        return se.Str(build(tree["p"]), null_term=tree["nt"])
    if k == "strfixed":
        return se.StrFixed(tree["n"])
    if k == "cstr":
        return se.CStr("utf8", _terms(tree), write_terminator=tree["wt"], eof_terminates=tree["eof"])
    if k == "tuple":
        return se.Tuple(*[build(c) for c in tree["cs"]])
    if k == "template":
        if tree.get("dc"):
            return se.Dataclass(_dc_for(tree))
        return se.Template({f["n"]: build(f["t"]) for f in tree["fs"]}, skip_missing=tree["skip"])
    if k == "coll":
        length = build(tree["p"]) if tree["m"] == "prefix" else (tree["n"] if tree["m"] == "fixed" else None)
        return se.Collection(length, build(tree["c"]))
    if k == "optprefix":
        return se.OptionalPrefixed(build(tree["c"]))
    if k == "optflag":
        if tree.get("fm"):
            fspec = se.IntFlag(_enum_cls("flag", _members(tree["fm"])), se.U32)
        else:
            fspec = se.U32
        return se.OptionalFlagged(tree["field"], fspec, tree["mask"], build(tree["c"]))
    if k == "ifpresent":
        return se.IfPresent(build(tree["c"]))
    if k == "lenswitch":
        return se.LengthSwitch({(None if c["key"] < 0 else c["key"]): build(c["t"]) for c in tree["ch"]})
    if k == "enumswitch":
        cls = _enum_cls("enum", _members(tree.get("ms") or _default_enum_ms(tree["ch"])))
        return se.EnumSwitch(se.IntEnum(cls, build(tree["e"])), {cls(c["key"]): build(c["t"]) for c in tree["ch"]})
    if k == "flagswitch":
        cls = _enum_cls("flag", _members(tree.get("ms") or [{"n": c["name"], "v": c["bit"]} for c in tree["ch"]]))
        return se.FlagSwitch(se.IntFlag(cls, build(tree["f"])), {cls[c["name"]]: build(c["t"]) for c in tree["ch"]})
    if k == "ctxswitch":
        opts = {c["key"]: build(c["t"]) for c in tree["ch"]}
        if tree["dflt"]:
            opts[se.MISSING] = build(tree["dflt"][0])
        return se.ContextSwitch(CtxField(tree["up"], tree["field"]), opts)
    if k == "bitfield":
        if tree.get("dc"):
            return se.BitfieldDataclass(_dc_for(tree), build(tree["p"]), shift=tree["shift"])
        schema = {}
        for f in tree["fs"]:
            ad = _field_adapter(f)
            schema[f["n"]] = se.BitfieldEntry(bits=f["bits"], adapter=ad) if ad is not None else f["bits"]
        return se.BitField(build(tree["p"]), schema, shift=tree["shift"])
    if k == "typedbytes":
        kw = dict(empty_is_none=tree["ein"], check_trailing_bytes=tree["ctb"], lazy=bool(tree.get("lazy")))
        inner = build(tree["c"])
        m = tree["m"]
        if m == "prefix":
            return se.TypedByteArray(build(tree["p"]), inner, **kw)
        if m == "fixed":
            return se.TypedBytesFixed(tree["n"], inner, **kw)
        if m == "greedy":
            return se.TypedBytesGreedy(inner, **kw)
        return se.TypedBytesTerminated(inner, _terms(tree), **kw)
    if k == "adapter":
        name = tree.get("name", "ident")
        child = build(tree["c"])
        if name == "ident":
            return se.ExprAdapter(child)
        if name == "IntEnum":
            return se.IntEnum(_enum_cls("enum", _members(tree["ms"])), child)
        if name == "IntFlag":
            return se.IntFlag(_enum_cls("flag", _members(tree["ms"])), child)
        if name == "forward":
            return se.ForwardSerializable(lambda: child)
        raise Unreflectable("cannot build adapter %r" % name)
    raise Unreflectable("unknown kind %r" % k)


# ----------------------------------------------------------------------------------------
# to_tree: real objects -> tree
# ----------------------------------------------------------------------------------------

def _is(obj, cls) -> bool:
    return isinstance(obj, cls) or (isinstance(obj, type) and issubclass(obj, cls))


def _bytes_mode(tmpl) -> dict:
    """Common fields (m, p, n, terms) of a bytes template."""
    if isinstance(tmpl, se.ByteArray):
        return {"m": "prefix", "p": to_tree(tmpl._len_spec), "n": 0, "terms": []}
    if isinstance(tmpl, se.BytesFixed):
        return {"m": "fixed", "p": U8T, "n": tmpl._size, "terms": []}
    if isinstance(tmpl, se.BytesGreedy):
        return {"m": "greedy", "p": U8T, "n": 0, "terms": []}
    if isinstance(tmpl, se.BytesTerminated):
        return {"m": "term", "p": U8T, "n": 0, "terms": _term_list(tmpl.terminators)}
    raise Unreflectable("bytes template %r" % (tmpl,))


def _term_list(terms) -> list:
    out = []
    for t in terms:
        if len(t) != 1:
            raise Unreflectable("multi-byte terminator %r" % (t,))
        out.append(t[0])
    return out


def to_tree(obj) -> dict:
    if isinstance(obj, se.ForwardSerializable):
        obj._ensure_evaled()
        return {"k": "adapter", "name": "forward", "c": to_tree(obj._wrapped)}
    if isinstance(obj, se.SerializablePrimitive):
        fmt = obj._struct_fmt
        if fmt in _INT_FMT:
            return int_tree(*_INT_FMT[fmt])
        if fmt in ("f", "d"):
            return {"k": "float", "w": 4 if fmt == "f" else 8}
        raise Unreflectable("primitive %r" % fmt)
    if _is(obj, se.UUID):
        return {"k": "uuid"}
    if _is(obj, se.Null):
        return {"k": "null"}
    if _is(obj, se.BinaryLLSD):
        return {"k": "llsd"}
    if _is(obj, se.EncodedTupleCoord):
        if isinstance(obj, type):
            raise Unreflectable("EncodedTupleCoord class without instance")
        return {"k": "adapter", "name": type(obj).__name__, "c": {"k": "tuple", "cs": [to_tree(s) for s in obj._elem_specs]}}
    if _is(obj, se.TupleCoord):
        el = to_tree(obj.ELEM_SPEC)
        if el["k"] != "float":
            raise Unreflectable("TupleCoord over %r" % (el,))
        return {"k": "coord", "n": obj.NUM_ELEMS, "w": el["w"]}
    if isinstance(obj, type):
        raise Unreflectable("class %r used as spec" % (obj,))
    if isinstance(obj, se.ByteArray):
        return {"k": "bytearray", "p": to_tree(obj._len_spec)}
    if isinstance(obj, se.BytesFixed):
        return {"k": "bytesfixed", "n": obj._size}
    if isinstance(obj, se.BytesGreedy):
        return {"k": "bytesgreedy"}
    if isinstance(obj, se.BytesTerminated):
        return {"k": "bytesterm", "terms": _term_list(obj.terminators), "wt": bool(obj.write_terminator),
                "eof": bool(obj.eof_terminates)}
    if isinstance(obj, se.Str):
        return {"k": "str", "p": to_tree(obj._bytes_tmpl._len_spec), "nt": bool(obj._null_term)}
    if isinstance(obj, se.StrFixed):
        return {"k": "strfixed", "n": obj._length}
    if isinstance(obj, se.CStr):
        if obj._encoding.lower().replace("-", "") != "utf8":
            raise Unreflectable("CStr encoding %r" % obj._encoding)
        b = obj._bytes_tmpl
        return {"k": "cstr", "terms": _term_list(b.terminators), "wt": bool(b.write_terminator), "eof": bool(b.eof_terminates)}
    if isinstance(obj, se.Tuple):
        return {"k": "tuple", "cs": [to_tree(c) for c in obj._prim_seq]}
    if isinstance(obj, se.Template):
        return {"k": "template", "fs": [{"n": n, "t": to_tree(t)} for n, t in obj._template_spec.items()],
                "skip": bool(obj._skip_missing)}
    if isinstance(obj, se.Dataclass):
        t = to_tree(obj.template)
        t["dc"] = True
        return t
    if isinstance(obj, se.Collection):
        if obj._len_spec is not None:
            return {"k": "coll", "m": "prefix", "p": to_tree(obj._len_spec), "n": 0, "c": to_tree(obj._entry_ser)}
        if obj._length:
            return {"k": "coll", "m": "fixed", "p": U8T, "n": obj._length, "c": to_tree(obj._entry_ser)}
        # a fixed length of 0 behaves as greedy in both directions
        return {"k": "coll", "m": "greedy", "p": U8T, "n": 0, "c": to_tree(obj._entry_ser)}
    if isinstance(obj, se.OptionalPrefixed):
        return {"k": "optprefix", "c": to_tree(obj._ser_spec)}
    if isinstance(obj, se.OptionalFlagged):
        t = {"k": "optflag", "field": obj._flag_field, "mask": int(obj._flag_val), "c": to_tree(obj._ser_spec)}
        if isinstance(obj._flag_spec, se.IntFlag):
            t["fm"] = _ms_of(obj._flag_spec.flag_cls)
        elif not isinstance(obj._flag_spec, se.SerializablePrimitive):
            raise Unreflectable("OptionalFlagged flag spec %r" % (obj._flag_spec,))
        return t
    if isinstance(obj, se.IfPresent):
        return {"k": "ifpresent", "c": to_tree(obj._ser_spec)}
    if isinstance(obj, se.LengthSwitch):
        return {"k": "lenswitch", "ch": [{"key": -1 if k is None else int(k), "t": to_tree(t)}
                                         for k, t in obj._choice_specs.items()]}
    if isinstance(obj, se.EnumSwitch):
        es = obj._enum_spec
        return {"k": "enumswitch", "e": to_tree(es._child_spec), "ms": _ms_of(es.enum_cls),
                "ch": [{"key": int(k), "t": to_tree(t)} for k, t in obj._choice_specs.items()]}
    if isinstance(obj, se.FlagSwitch):
        fs = obj._flag_spec
        return {"k": "flagswitch", "f": to_tree(fs._child_spec), "ms": _ms_of(fs.flag_cls),
                "ch": [{"bit": int(k), "name": k.name, "t": to_tree(t)} for k, t in obj._choice_specs.items()]}
    if isinstance(obj, se.ContextSwitch):
        if not isinstance(obj._fun, CtxField):
            raise Unreflectable("ContextSwitch over an arbitrary function")
        ch, dflt = [], []
        for k, t in obj._options.items():
            if k is se.MISSING:
                dflt = [to_tree(t)]
            else:
                ch.append({"key": int(k), "t": to_tree(t)})
        return {"k": "ctxswitch", "up": obj._fun.up, "field": obj._fun.field, "ch": ch, "dflt": dflt}
    if isinstance(obj, se.BitfieldDataclass):
        t = to_tree(obj._bitfield_spec)
        t["dc"] = True
        return t
    if isinstance(obj, se.BitField):
        fs = []
        for name, bits in obj._bitfield._schema.items():
            f = {"n": name, "bits": int(bits)}
            ad = obj._schema[name].adapter
            if isinstance(ad, se.IntEnum):
                f["ad"] = {"name": "IntEnum", "ms": _ms_of(ad.enum_cls)}
            elif isinstance(ad, se.IntFlag):
                f["ad"] = {"name": "IntFlag", "ms": _ms_of(ad.flag_cls)}
            elif isinstance(ad, se.BoolAdapter):
                f["ad"] = {"name": "Bool"}
            elif ad is not None and not isinstance(ad, se.IdentityAdapter):
                raise Unreflectable("bitfield member adapter %r" % (ad,))
            fs.append(f)
        return {"k": "bitfield", "p": to_tree(obj._child_spec), "fs": fs, "shift": bool(obj._bitfield.shift)}
    if isinstance(obj, se.TypedBytesBase):
        t = {"k": "typedbytes", **_bytes_mode(obj._bytes_tmpl), "c": to_tree(obj._spec),
             "ein": bool(obj._empty_is_none), "ctb": bool(obj._check_trailing_bytes)}
        if obj._lazy:
            t["lazy"] = True
        return t
    if isinstance(obj, se.IntEnum):
        return {"k": "adapter", "name": "IntEnum", "ms": _ms_of(obj.enum_cls), "c": to_tree(obj._child_spec)}
    if isinstance(obj, se.IntFlag):
        return {"k": "adapter", "name": "IntFlag", "ms": _ms_of(obj.flag_cls), "c": to_tree(obj._child_spec)}
    if isinstance(obj, se.FixedPoint):
        return {"k": "adapter", "name": "FixedPoint", "c": to_tree(obj._ser_spec)}
    if isinstance(obj, se.Adapter):
        if obj._child_spec is None:
            raise Unreflectable("adapter %s without child spec" % type(obj).__name__)
        name = type(obj).__name__
        if type(obj) is se.ExprAdapter and obj._decode_func is se.ExprAdapter._ID and obj._encode_func is se.ExprAdapter._ID:
            name = "ident"
        return {"k": "adapter", "name": name, "c": to_tree(obj._child_spec)}
    raise Unreflectable("no tree for %r" % (obj,))


def strip(tree):
    """The tree without Python-only decorations (what the TLA+ side looks at)."""
    if isinstance(tree, list):
        return [strip(x) for x in tree]
    if not isinstance(tree, dict):
        return tree
    drop = {"dc", "lazy", "ms", "fm", "ad"}
    if tree.get("k") == "adapter":
        drop = drop | {"name"}
    return {k: strip(v) for k, v in tree.items() if k not in drop}


# ----------------------------------------------------------------------------------------
# canon / to_py
# ----------------------------------------------------------------------------------------

def _unknown(value) -> dict:
    return {"?": "%s:%r" % (type(value).__name__, value)}


def _lookup(frames, up, field):
    if up < 0:                      # ctx._root: the outermost frame, defined only below at least one parent
        if len(frames) < 2:
            return None
        up = len(frames) - 1
    if len(frames) <= up:
        return None
    fr = frames[up]
    if "d" not in fr:
        return None
    for en in fr["d"]:
        if en["n"] == field:
            return en["v"]
    return None


def _ctx_option(tree, frames):
    sel = _lookup(frames, tree["up"], tree["field"])
    if sel is None or "i" not in sel:
        return None
    for c in tree["ch"]:
        if c["key"] == sel["i"]:
            return c["t"]
    return tree["dflt"][0] if tree["dflt"] else None


def _enum_to_int(cls, value):
    if isinstance(value, str):
        return int(cls[value])
    return int(value)


def _flags_to_int(cls, value):
    if isinstance(value, int):
        return int(value)
    n = 0
    for x in value:
        n |= int(cls[x]) if isinstance(x, str) else int(x)
    return n


def _wrong(value, pod) -> dict:
    return {"?": "not the %s form: %s:%r" % ("plain-data" if pod else "rich", type(value).__name__, value)}


def _enum_canon(cls, value, pod):
    """int of an enum-adapted value; in strict mode (pod is True / False) the value must be in that mode's form:
    plain data = member name (plain int only for undefined values), rich = member (plain int for undefined values)."""
    import enum as _enum
    defined = {int(m.value) for m in cls}
    if pod is None:
        return cint(_enum_to_int(cls, value))
    if pod:
        if isinstance(value, str):
            return cint(int(cls[value]))
        if type(value) is int and value not in defined:
            return cint(value)
        return _wrong(value, pod)
    if isinstance(value, _enum.Enum):
        return cint(int(value))
    if type(value) is int and value not in defined:
        return cint(value)
    return _wrong(value, pod)


def _flag_canon(cls, value, pod):
    import enum as _enum
    if pod is None:
        return cint(_flags_to_int(cls, value))
    if pod:
        if isinstance(value, (tuple, list)) and all(isinstance(x, str) or type(x) is int for x in value):
            return cint(_flags_to_int(cls, value))
        return _wrong(value, pod)
    if isinstance(value, _enum.Flag):
        return cint(int(value))
    return _wrong(value, pod)


def _generic_canon(value):
    if isinstance(value, lazy_object_proxy.Proxy):
        value = value.__wrapped__
    if value is None:
        return NONE
    if isinstance(value, bool):
        return cint(int(value))
    if isinstance(value, int):
        return cint(value)
    if isinstance(value, float):
        return {"f": list(struct.pack(">d", value))}
    if isinstance(value, (bytes, bytearray, memoryview)):
        return {"b": list(bytes(value))}
    if isinstance(value, str):
        return {"s": list(value.encode("utf8"))}
    if isinstance(value, _uuid.UUID):
        return {"u": list(value.bytes)}
    if isinstance(value, dtypes.TaggedUnion):
        return {"tag": _generic_canon(value.tag), "val": _generic_canon(value.value)}
    if isinstance(value, dtypes.TupleCoord):
        return {"l": [_generic_canon(float(x)) for x in value]}
    if dataclasses.is_dataclass(value) and not isinstance(value, type):
        return {"d": [{"n": f.name, "v": _generic_canon(getattr(value, f.name))} for f in dataclasses.fields(value)]}
    if isinstance(value, dict):
        return {"d": [{"n": getattr(k, "name", None) or str(k), "v": _generic_canon(v)} for k, v in value.items()]}
    if isinstance(value, (list, tuple)):
        return {"l": [_generic_canon(x) for x in value]}
    return _unknown(value)


def canon(value, tree: Optional[dict] = None, pod: Optional[bool] = None, _frames: tuple = ()):
    """Canonical JSON-able form of a Python value.  With a tree the conversion is tree-directed (exact);
    without one a best-effort structural conversion is used.  Rich and plain-data flavours map to the same
    canonical value.  With pod=True / pod=False the conversion is MODE-STRICT: every node whose two flavours
    differ (UUID, coordinates, tagged unions, enum / flag adapters and switch keys, dataclasses) must be in that
    mode's Python form all the way down (the mode is state every combinator passes down unchanged); pod=None
    accepts either form.  A value of an unexpected Python type or flavour becomes {"?": ...}, which never
    equals a value of the specification."""
    if tree is None:
        return _generic_canon(value)
    if isinstance(value, lazy_object_proxy.Proxy):
        value = value.__wrapped__      # forces a lazy typed-bytes read; an exception propagates to the caller
    k = tree["k"]
    if k == "int":
        if isinstance(value, int):
            return cint(value)
        return _unknown(value)
    if k == "float":
        if isinstance(value, float):
            return {"f": list(struct.pack(">f" if tree["w"] == 4 else ">d", value))}
        return _unknown(value)
    if k == "uuid":
        if isinstance(value, _uuid.UUID):
            return {"u": list(value.bytes)} if not pod else _wrong(value, pod)
        if isinstance(value, str):
            if pod is False:
                return _wrong(value, pod)
            try:
                return {"u": list(_uuid.UUID(value).bytes)}
            except ValueError:
                return _unknown(value)
        return _unknown(value)
    if k == "coord":
        if isinstance(value, (dtypes.TupleCoord, tuple, list)):
            if pod is not None and isinstance(value, dtypes.TupleCoord) == bool(pod):
                return _wrong(value, pod)
            vals = list(value)
            if len(vals) == tree["n"] and all(isinstance(x, float) for x in vals):
                fmt = ">f" if tree["w"] == 4 else ">d"
                return {"l": [{"f": list(struct.pack(fmt, x))} for x in vals]}
        return _unknown(value)
    if k == "null":
        return NONE if value is None else _unknown(value)
    if k == "llsd":
        for doc, pyv in LLSD_DOCS:
            if _llsd_same(value, pyv):
                return {"x": list(doc)}
        return _unknown(value)
    if k in ("bytearray", "bytesfixed", "bytesgreedy", "bytesterm"):
        if isinstance(value, (bytes, bytearray, memoryview)):
            return {"b": list(bytes(value))}
        return _unknown(value)
    if k in ("str", "strfixed", "cstr"):
        if isinstance(value, str):
            return {"s": list(value.encode("utf8"))}
        return _unknown(value)
    if k in ("tuple", "coll"):
        if not isinstance(value, (list, tuple)):
            return _unknown(value)
        out: List[Any] = []
        for j, x in enumerate(value):
            if k == "tuple":
                ct = tree["cs"][j] if j < len(tree["cs"]) else None
            else:
                ct = tree["c"]
            out.append(canon(x, ct, pod, ({"l": list(out)},) + _frames))
        return {"l": out}
    if k == "template":
        is_dc = dataclasses.is_dataclass(value) and not isinstance(value, type)
        if pod is not None and is_dc != bool(tree.get("dc") and not pod):
            return _wrong(value, pod)
        if is_dc:
            value = {f.name: getattr(value, f.name) for f in dataclasses.fields(value)}
        if not isinstance(value, dict):
            return _unknown(value)
        ents: List[dict] = []
        names = [f["n"] for f in tree["fs"]]
        for f in tree["fs"]:
            if f["n"] in value:
                ents.append({"n": f["n"], "v": canon(value[f["n"]], f["t"], pod, ({"d": list(ents)},) + _frames)})
        for extra in value:
            if extra not in names:
                ents.append({"n": str(extra), "v": _generic_canon(value[extra])})
        return {"d": ents}
    if k in ("optprefix", "optflag", "ifpresent"):
        return NONE if value is None else canon(value, tree["c"], pod, _frames)
    if k in ("lenswitch", "enumswitch"):
        if isinstance(value, dtypes.TaggedUnion):
            if pod:
                return _wrong(value, pod)
            tag, val = value.tag, value.value
        elif isinstance(value, (tuple, list)) and len(value) == 2:
            if pod is False:
                return _wrong(value, pod)
            tag, val = value
        else:
            return _unknown(value)
        if k == "enumswitch":
            cls = _enum_cls("enum", _members(tree.get("ms") or _default_enum_ms(tree["ch"])))
            try:
                ctag = _enum_canon(cls, tag, pod)
            except (KeyError, ValueError, TypeError):
                return _unknown(value)
            if "?" in ctag:
                return {"tag": ctag, "val": _generic_canon(val)}
            tag = pint(ctag)
        if not isinstance(tag, int):
            return _unknown(value)
        key = tag
        if k == "lenswitch" and not any(c["key"] == key for c in tree["ch"]):
            key = -1
        ct = next((c["t"] for c in tree["ch"] if c["key"] == key), None)
        return {"tag": cint(tag), "val": canon(val, ct, pod, _frames)}
    if k == "flagswitch":
        if not isinstance(value, dict):
            return _unknown(value)
        by_name = {}
        for kk, vv in value.items():
            if pod is not None and isinstance(kk, str) != bool(pod):
                return _wrong(value, pod)
            by_name[kk if isinstance(kk, str) else getattr(kk, "name", str(kk))] = vv
        ents = []
        for c in tree["ch"]:
            if c["name"] in by_name:
                ents.append({"n": c["name"], "v": canon(by_name.pop(c["name"]), c["t"], pod, _frames)})
        for extra, vv in by_name.items():
            ents.append({"n": str(extra), "v": _generic_canon(vv)})
        return {"d": ents}
    if k == "ctxswitch":
        ct = _ctx_option(tree, _frames)
        return canon(value, ct, pod, _frames)
    if k == "bitfield":
        is_dc = dataclasses.is_dataclass(value) and not isinstance(value, type)
        if pod is not None and is_dc != bool(tree.get("dc") and not pod):
            return _wrong(value, pod)
        if is_dc:
            value = {f.name: getattr(value, f.name) for f in dataclasses.fields(value)}
        if not isinstance(value, dict):
            return _unknown(value)
        ents = []
        for f in tree["fs"]:
            if f["n"] in value:
                x = value[f["n"]]
                ad = f.get("ad")
                cx = None
                try:
                    if ad and ad["name"] == "IntEnum":
                        cx = _enum_canon(_enum_cls("enum", _members(ad["ms"])), x, pod)
                    elif ad and ad["name"] == "IntFlag":
                        cx = _flag_canon(_enum_cls("flag", _members(ad["ms"])), x, pod)
                    elif ad and ad["name"] == "Bool" and isinstance(x, bool):
                        x = int(x)
                except (KeyError, ValueError, TypeError):
                    pass
                if cx is None:
                    cx = cint(x) if isinstance(x, int) else _unknown(x)
                ents.append({"n": f["n"], "v": cx})
        for extra in value:
            if extra not in [f["n"] for f in tree["fs"]]:
                ents.append({"n": str(extra), "v": _generic_canon(value[extra])})
        return {"d": ents}
    if k == "typedbytes":
        return NONE if value is None else canon(value, tree["c"], pod, _frames)
    if k == "adapter":
        name = tree.get("name", "ident")
        try:
            if name == "IntEnum":
                return _enum_canon(_enum_cls("enum", _members(tree["ms"])), value, pod)
            if name == "IntFlag":
                return _flag_canon(_enum_cls("flag", _members(tree["ms"])), value, pod)
        except (KeyError, ValueError, TypeError):
            return _unknown(value)
        if name in ("ident", "forward"):
            return canon(value, tree["c"], pod, _frames)
        raise Unreflectable("value map of adapter %r is not modelled" % name)
    raise Unreflectable("unknown kind %r" % k)


def to_py(tree: dict, cv: dict, pod: bool = False, _frames: tuple = ()):
    """Python value (rich objects, or plain data when pod) for a canonical value of the tree's shape.
    Raises Unreflectable when the canonical value does not have the tree's shape."""
    k = tree["k"]
    try:
        if "none" in cv and k in ("null", "optprefix", "optflag", "ifpresent", "typedbytes"):
            return None
        if k == "llsd":
            import copy
            return copy.deepcopy(next(pyv for doc, pyv in LLSD_DOCS if list(doc) == cv["x"]))
        if k == "int":
            return pint(cv)
        if k == "float":
            return struct.unpack(">f" if tree["w"] == 4 else ">d", bytes(cv["f"]))[0]
        if k == "uuid":
            u = dtypes.UUID(bytes=bytes(cv["u"]))
            return str(u) if pod else u
        if k == "coord":
            fmt = ">f" if tree["w"] == 4 else ">d"
            vals = tuple(struct.unpack(fmt, bytes(x["f"]))[0] for x in cv["l"])
            if pod:
                return vals
            cls = {3: dtypes.Vector3, 4: dtypes.Vector4}[tree["n"]]
            return cls(*vals)
        if k in ("bytearray", "bytesfixed", "bytesgreedy", "bytesterm"):
            return bytes(cv["b"])
        if k in ("str", "strfixed", "cstr"):
            return bytes(cv["s"]).decode("utf8")
        if k == "tuple":
            out = []
            for j, x in enumerate(cv["l"]):
                ct = tree["cs"][j] if j < len(tree["cs"]) else U8T
                out.append(to_py(ct, x, pod, ({"l": cv["l"][:j]},) + _frames))
            return out if pod else tuple(out)
        if k == "coll":
            return [to_py(tree["c"], x, pod, ({"l": cv["l"][:j]},) + _frames) for j, x in enumerate(cv["l"])]
        if k == "template":
            types = {f["n"]: f["t"] for f in tree["fs"]}
            d = {}
            for j, en in enumerate(cv["d"]):
                d[en["n"]] = to_py(types[en["n"]], en["v"], pod, ({"d": cv["d"][:j]},) + _frames)
            if tree.get("dc") and not pod:
                return _dc_for(tree)(**d)
            return d
        if k in ("optprefix", "optflag", "ifpresent", "typedbytes"):
            return to_py(tree["c"], cv, pod, _frames)
        if k in ("lenswitch", "enumswitch"):
            tag = pint(cv["tag"])
            key = tag
            if k == "lenswitch" and not any(c["key"] == key for c in tree["ch"]):
                key = -1
            ct = next(c["t"] for c in tree["ch"] if c["key"] == key)
            val = to_py(ct, cv["val"], pod, _frames)
            if k == "enumswitch":
                cls = _enum_cls("enum", _members(tree.get("ms") or _default_enum_ms(tree["ch"])))
                tag = cls(tag).name if pod else cls(tag)
            return (tag, val) if pod else dtypes.TaggedUnion(tag, val)
        if k == "flagswitch":
            cls = _enum_cls("flag", _members(tree.get("ms") or [{"n": c["name"], "v": c["bit"]} for c in tree["ch"]]))
            types = {c["name"]: c["t"] for c in tree["ch"]}
            return {(en["n"] if pod else cls[en["n"]]): to_py(types[en["n"]], en["v"], pod, _frames) for en in cv["d"]}
        if k == "ctxswitch":
            ct = _ctx_option(tree, _frames)
            if ct is None:
                raise Unreflectable("context does not resolve")
            return to_py(ct, cv, pod, _frames)
        if k == "bitfield":
            d = {}
            ads = {f["n"]: f.get("ad") for f in tree["fs"]}
            for en in cv["d"]:
                x = pint(en["v"])
                ad = ads.get(en["n"])
                if ad and ad["name"] == "IntEnum":
                    x = _enum_py(_enum_cls("enum", _members(ad["ms"])), x, pod)
                elif ad and ad["name"] == "IntFlag":
                    x = _flag_py(_enum_cls("flag", _members(ad["ms"])), x, pod)
                elif ad and ad["name"] == "Bool":
                    x = bool(x)
                d[en["n"]] = x
            if tree.get("dc") and not pod:
                return _dc_for(tree)(**d)
            return d
        if k == "adapter":
            name = tree.get("name", "ident")
            if name == "IntEnum":
                return _enum_py(_enum_cls("enum", _members(tree["ms"])), pint(cv), pod)
            if name == "IntFlag":
                return _flag_py(_enum_cls("flag", _members(tree["ms"])), pint(cv), pod)
            if name in ("ident", "forward"):
                return to_py(tree["c"], cv, pod, _frames)
            raise Unreflectable("value map of adapter %r is not modelled" % name)
    except (KeyError, IndexError, TypeError, StopIteration, ValueError, struct.error, UnicodeDecodeError) as e:
        raise Unreflectable("value %s does not fit tree kind %s (%s: %s)" % (_key(cv)[:120], k, type(e).__name__, e))
    raise Unreflectable("value %s does not fit tree kind %s" % (_key(cv)[:120], k))


def _enum_py(cls, n: int, pod: bool):
    try:
        m = cls(n)
    except ValueError:
        return n
    return m.name if pod else m


def _flag_py(cls, n: int, pod: bool):
    if n < 0:
        return n            # no flag object for a negative word (out of every unsigned range): hand the integer over
    if not pod:
        return cls(n)
    names = []
    left = n
    for name, m in cls.__members__.items():
        if m.value and (n & m.value) == m.value:
            names.append(name)
            left &= ~m.value
    return tuple(names) + ((left,) if left else ())


# ----------------------------------------------------------------------------------------
# key orders of map-like values
# ----------------------------------------------------------------------------------------

def _perm(n: int, k):
    """Index order number k for n keys: "rev" = reversed, an int = k-th permutation (lexicographic, wrapping)."""
    import itertools
    import math
    if k == "rev":
        return list(range(n - 1, -1, -1))
    if n <= 1:
        return list(range(n))
    if n <= 6:
        return list(next(itertools.islice(itertools.permutations(range(n)), k % math.factorial(n), None)))
    # long mappings: rotate by k
    return [(j + k) % n for j in range(n)]


def reorder(value, k):
    """The same Python value with every mapping inside it rebuilt in another key (insertion) order.
    A map-like value (template / dataclass dict input, FlagSwitch value, bitfield dict) is an unordered
    mapping: every insertion order denotes the same canonical value."""
    if isinstance(value, dict):
        items = [(kk, reorder(vv, k)) for kk, vv in value.items()]
        return type(value)((items[j][0], items[j][1]) for j in _perm(len(items), k))
    if isinstance(value, dtypes.TaggedUnion):
        return dtypes.TaggedUnion(value.tag, reorder(value.value, k))
    if isinstance(value, tuple) and type(value) is tuple:
        return tuple(reorder(x, k) for x in value)
    if isinstance(value, list):
        return [reorder(x, k) for x in value]
    if dataclasses.is_dataclass(value) and not isinstance(value, type):
        return dataclasses.replace(value, **{f.name: reorder(getattr(value, f.name), k) for f in dataclasses.fields(value)})
    return value


def key_orders(value) -> list:
    """Key orders of all mappings inside a value (to tell apart re-orderings that changed nothing)."""
    out = []
    if isinstance(value, dict):
        out.append([str(k) for k in value])
        for v in value.values():
            out += key_orders(v)
    elif isinstance(value, dtypes.TaggedUnion):
        out += key_orders(value.value)
    elif isinstance(value, (list, tuple)):
        for v in value:
            out += key_orders(v)
    elif dataclasses.is_dataclass(value) and not isinstance(value, type):
        for f in dataclasses.fields(value):
            out += key_orders(getattr(value, f.name))
    return out


# ----------------------------------------------------------------------------------------
# the spec objects nested in a spec object
# ----------------------------------------------------------------------------------------

_CHILD_ATTRS = ("_template_spec", "_prim_seq", "_entry_ser", "_len_spec", "_ser_spec", "_choice_specs", "_options",
                "_child_spec", "_spec", "_bytes_tmpl", "_enum_spec", "_flag_spec", "template", "_wrapped_spec", "_wrapped",
                "_bitfield_spec", "_elem_specs")


def subspecs(obj, _seen=None) -> list:
    """Every spec object nested in `obj` (not `obj` itself), innermost first, each once."""
    seen = _seen if _seen is not None else {id(obj)}
    out = []

    def visit(x):
        if isinstance(x, dict):
            for v in x.values():
                visit(v)
        elif isinstance(x, (list, tuple)):
            for v in x:
                visit(v)
        elif (isinstance(x, se.SerializableBase) or (isinstance(x, type) and issubclass(x, se.SerializableBase))) \
                and id(x) not in seen:
            seen.add(id(x))
            out.extend(subspecs(x, seen))
            out.append(x)

    if isinstance(obj, type):
        return out
    for a in _CHILD_ATTRS:
        try:
            v = object.__getattribute__(obj, a)
        except AttributeError:
            continue
        visit(v)
    return out
