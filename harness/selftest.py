"""./check --selftest : show that the binding bites.

For two bindings it takes executions of the REAL code that the specification accepts and then
 (a) corrupts one recorded value, (b) removes one recorded event, (c) swaps two events,
and requires TLC to reject / name a failing clause for every tampered trace; and for a B1 binding it corrupts
one value of the specification's expected observation and requires the replay to report the edge.
Exit 0 iff every tampering is noticed and the untampered material is accepted.  (The other half of the
demonstration -- realistic changes of the implementation are reported by the owning check -- is
`tools/sweep_seeds.sh` over /verif/seeded/.)"""
from __future__ import annotations

import copy
import json
import sys

from . import common


def _fresh(pid):
    chk = common.Check(pid, "quick", 0)
    chk.known = []
    return chk


def _c04_traces():
    from . import c04
    chk = _fresh("C04")
    traces = c04._random_walks(chk, 6, 40, 3, 3)
    cfg = ("SPECIFICATION TraceSpec\nCONSTANTS W = 3 MinEp = 1 MaxEp = 100000 MaxInj = 100000 Reorder = 100000 BuggyInverse = FALSE\n"
           "POSTCONDITION TraceAccepted\nCHECK_DEADLOCK FALSE\n")
    return "InjectionTracker_Trace", cfg, traces


def _tamper_c04(traces):
    out = []
    t = copy.deepcopy(traces[0])
    i = next(j for j, e in enumerate(t) if e["ev"] == "Send")
    t[i]["w"] += 1
    out.append(("recorded wire ID of a Send increased by one", t))
    t = copy.deepcopy(traces[1])
    i = next(j for j, e in enumerate(t) if e["ev"] == "Inject")
    del t[i]
    out.append(("one Inject event removed", t))
    t = copy.deepcopy(traces[2])
    i = next(j for j, e in enumerate(t) if e["ev"] == "Q" and e["orig"])
    t[i]["orig"][0][1] += 1
    out.append(("one get_original_id answer increased by one", t))
    return out


def _c03_traces():
    from . import c03
    if not hasattr(c03, "_selftest_traces"):
        return None
    return c03._selftest_traces()


def _run_b2(name, module, cfg, traces, tampered):
    ok = True
    chk = _fresh("C04")
    fails = common.check_traces(chk, module, cfg, traces, "selftest-accept")
    n_bad = len(chk.violations)
    print("%s: %d untampered traces -> %d reported (must be 0)" % (name, len(traces), n_bad))
    ok &= n_bad == 0
    for what, t in tampered:
        chk = _fresh("C04")
        try:
            common.check_traces(chk, module, cfg, [t], "selftest-tamper")
            noticed = bool(chk.violations)
            how = chk.violations[0]["what"] if noticed else "ACCEPTED"
        except common.MachineryError as e:
            # an environment assertion of the trace spec is also a refusal to accept the trace
            noticed, how = True, "refused: " + str(e).splitlines()[0][:100]
        print("%s: %-50s -> %s" % (name, what, how))
        ok &= noticed
    return ok


def _run_b1_c04():
    """Corrupt the specification's expected observation of one edge: the replay must report exactly that edge."""
    import os
    from . import c04
    chk = _fresh("C04")
    consts = dict(W=2, MinEp=1, MaxEp=3, MaxInj=2, Reorder=1, Depth=4)
    cfg = os.path.join(chk.scratch, "mbt-selftest.cfg")
    c04._cfg(cfg, "MSpec", consts)
    res = common.run_tlc(os.path.join(common.SPECS, "InjectionTracker_MBT.tla"), cfg, workers=1, scratch=chk.scratch)
    g = common.Graph(res.printed())
    c04._G, c04._W = g, 2
    ids = g.reachable_edges()
    q, bad = c04._replay_chunk(ids)
    print("B1 InjectionTracker: %d edges replayed untampered -> %d mismatches (must be 0)" % (len(ids), len(bad)))
    ok = not bad
    victim = next(i for i in ids if g.edges[i]["obs"]["eff"])
    g.edges[victim]["obs"]["eff"][0][1] += 1
    q, bad = c04._replay_chunk(ids)
    print("B1 InjectionTracker: expected translation of one edge increased by one -> %d mismatch(es) (must be 1)" % len(bad))
    ok &= len(bad) == 1
    chk.finish_quietly = True
    return ok


def main(argv):
    ok = True
    module, cfg, traces = _c04_traces()
    ok &= _run_b2("B2 InjectionTracker_Trace", module, cfg, traces, _tamper_c04(traces))
    ok &= _run_b1_c04()
    print("selftest %s" % ("passed" if ok else "FAILED"))
    return 0 if ok else 1


if __name__ == "__main__":
    sys.exit(main(sys.argv[1:]))
