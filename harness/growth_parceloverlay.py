"""Growth: the parcel map a client keeps of a region (ParcelOverlay.tla).

B1: every edge of the bounded models (and the merge pairs) is replayed into the REAL manager
(hippolyzer.lib.client.parcel_manager.ParcelManager, or the proxy's ProxyParcelManager) standing on a fake
region with a real MessageHandler and a recording circuit, on a private virtual-time event loop.  The
parcel indices of every overlay, the requests on the wire, what every user call returns and what
get_parcel_at() says for every cell are compared with what TLC printed for that edge.

The grid is scaled down to the model's N x N (and, in models that say chunks = 2, NUM_CHUNKS to 2) through a
SUBCLASS that overrides the documented class constants; nothing at module level is patched.  For the 4 x 4
models a sample of the edges is replayed a second time into the unmodified class at the real 64 x 64 size,
every model cell blown up to a 16 x 16 block (a model chunk then travels as 4 / chunks real messages).

The specification carries a `Bugs` constant: {"P1", "P2"} reproduces two behaviours of the pinned tree that
the design does not intend (see ParcelOverlay.tla), {} is the intended design.  section() runs the export with
Bugs = AS_IS, so that the unchanged tree shows no divergence, and model-checks the intended design next to it.

An implementation that does not return is interrupted by a CPU-time watchdog and reported as an observation.
"""
from __future__ import annotations

import asyncio

from . import common
from .common import Check, Graph

REGION = 256
WEST_LINE, SOUTH_LINE, TYPE_BITS = 0x40, 0x80, 0x02      # ParcelGridFlags; the low bits carry an ownership type
TIMEOUT = 10.0       # seconds the manager waits for a ParcelProperties (documented in request_parcel_properties)
STEP_DT = 0.25       # virtual seconds that pass before every event (histories stay far below TIMEOUT)
# where inside a cell a user's position lies (fractions of the cell's edge; the cell owns its south-west corner)
OFFSETS = ((0.25, 0.25), (0.0, 0.0), (0.99, 0.5), (0.5, 0.99))


class _VLoop(asyncio.SelectorEventLoop):
    """asyncio loop whose clock only moves when the driver says so."""

    def __init__(self):
        super().__init__()
        self.vt = 1000.0

    def time(self):
        return self.vt


async def _spin(k):
    for _ in range(k):
        await asyncio.sleep(0)


_CLASSES = {}


def _manager_class(kind: str, edge: int, chunks: int):
    key = (kind, edge, chunks)
    if key in _CLASSES:
        return _CLASSES[key]
    if kind == "proxy":
        from hippolyzer.lib.proxy.parcel_manager import ProxyParcelManager as base
    else:
        from hippolyzer.lib.client.parcel_manager import ParcelManager as base
    ns = {}
    if edge != base.GRIDS_PER_EDGE:
        ns.update(GRIDS_PER_EDGE=edge, GRID_STEP=REGION // edge, REGION_SIZE=REGION, NUM_CHUNKS=chunks)

    def __init__(self, region, log):
        self.verif_log = log
        base.__init__(self, region)

    def add_overlay_chunk(self, chunk, chunk_num):
        # the ParcelOverlay handler's exceptions are swallowed by Event.notify: observe them (and the result) here
        try:
            r = base.add_overlay_chunk(self, chunk, chunk_num)
        except Exception as e:  # noqa
            self.verif_log.append(("raise", "chunk %s: %s" % (type(e).__name__, str(e)[:120])))
            raise
        self.verif_log.append(("done", r))
        return r
    ns.update(__init__=__init__, add_overlay_chunk=add_overlay_chunk)
    if hasattr(base, "_handle_parcel_properties"):
        def _handle_parcel_properties(self, msg):
            try:
                return base._handle_parcel_properties(self, msg)
            except Exception as e:  # noqa
                self.verif_log.append(("raise", "props %s: %s" % (type(e).__name__, str(e)[:120])))
                raise
        ns["_handle_parcel_properties"] = _handle_parcel_properties
    cls = type("Verif" + base.__name__, (base,), ns)
    _CLASSES[key] = cls
    return cls


class Impl:
    """One real manager.  `n` = edge of the model's grid, `chunks` = messages per overlay in the model,
    `edge` = edge of the implementation's grid: n (class constants overridden in a subclass), or the real 64 (nothing
    overridden; a model chunk then travels as 4 / chunks real messages, back to back)."""

    def __init__(self, init_state: dict, n: int, chunks: int, edge: int):
        from hippolyzer.lib.base.datatypes import UUID
        from hippolyzer.lib.base.message.circuit import Circuit
        from hippolyzer.lib.base.message.message_handler import MessageHandler
        from hippolyzer.lib.client.state import BaseClientRegion
        self.n, self.edge, self.f, self.chunks = n, edge, edge // n, chunks
        self.cell_m = REGION / n
        self.loop = _VLoop()
        asyncio.set_event_loop(self.loop)
        self.tasks = []
        self.log = []
        self.steps = 0
        outer = self

        class RecCircuit(Circuit):
            def __init__(self):
                super().__init__(("127.0.0.1", 1), ("127.0.0.1", 2), None)

            def _send_prepared_message(self, message, transport=None):
                outer.log.append(("sent", message))

        class Sess:
            id = UUID(int=1)
            agent_id = UUID(int=3)

        class Region(BaseClientRegion):
            def __init__(self):
                super().__init__()
                self.handle = None
                self.circuit_addr = ("127.0.0.1", 2)
                self.message_handler = MessageHandler(take_by_default=False)
                self.circuit = RecCircuit()
                self._sess = Sess()

            def session(self):
                return self._sess

            def update_caps(self, caps):
                pass

        self.region = Region()
        self.pm = _manager_class(init_state["kind"], edge, chunks)(self.region, self.log)
        self.split = self.pm.NUM_CHUNKS // chunks       # real messages per model chunk
        if self.pm.NUM_CHUNKS != chunks * self.split:
            raise common.MachineryError("cannot map %d model chunks onto NUM_CHUNKS = %r" % (chunks, self.pm.NUM_CHUNKS))
        if init_state["ov"]:
            # the behaviour starts after a first complete overlay: deliver it in order
            per = len(init_state["ov"]) // chunks
            for i in range(chunks):
                self._chunk(i, init_state["ov"][i * per:(i + 1) * per])
            self.pump()
            self.log.clear()

    # ---- plumbing ------------------------------------------------------------------------
    def pump(self):
        """Run the loop until nothing is left to do at the present (virtual) time."""
        self.loop.run_until_complete(_spin(12))

    def _chunk_bytes(self, d):
        """Bytes of a chunk whose model content is d (border values of consecutive model cells), every cell blown up f x f."""
        n, f = self.n, self.f
        if f == 1:
            return bytes(TYPE_BITS | (WEST_LINE if b & 1 else 0) | (SOUTH_LINE if b & 2 else 0) for b in d)
        if len(d) % n:
            raise common.MachineryError("real-size replay needs chunks made of whole grid rows")
        out = bytearray()
        for r in range(len(d) // n):
            row = d[r * n:(r + 1) * n]
            for yy in range(f):
                for x in range(n):
                    for xx in range(f):
                        out.append(TYPE_BITS | (WEST_LINE if (row[x] & 1 and xx == 0) else 0)
                                   | (SOUTH_LINE if (row[x] & 2 and yy == 0) else 0))
        return bytes(out)

    def _chunk(self, i, d):
        from hippolyzer.lib.base.message.message import Block, Message
        data = self._chunk_bytes(d)
        per = len(data) // self.split
        if per * self.split != len(data):
            raise common.MachineryError("chunk does not split into %d messages" % self.split)
        for k in range(self.split):
            self.region.message_handler.handle(
                Message("ParcelOverlay", Block("ParcelData", SequenceID=i * self.split + k, Data=data[k * per:(k + 1) * per])))

    def _pos(self, c, k=0):
        from hippolyzer.lib.base.datatypes import Vector2
        ox, oy = OFFSETS[k % len(OFFSETS)]
        return Vector2((c % self.n + ox) * self.cell_m, (c // self.n + oy) * self.cell_m)

    def _cell_of(self, x, y):
        return int(y // self.cell_m) * self.n + int(x // self.cell_m)

    def _bitmap(self, cells):
        import numpy as np
        bm = np.zeros((64, 64), dtype=np.uint8)      # the wire format is fixed
        for c in cells:
            y, x = c // self.n, c % self.n
            bm[y * self.f:(y + 1) * self.f, x * self.f:(x + 1) * self.f] = 1
        return np.packbits(bm.flatten(), bitorder="little").tobytes()

    @staticmethod
    def _now(coro):
        """Result of a coroutine that is expected to finish without waiting for anything."""
        try:
            coro.send(None)
        except StopIteration as e:
            return e.value
        coro.close()
        raise RuntimeError("waits for something")

    @staticmethod
    def _pid(p):
        if p is None:
            return 0
        lid = getattr(p, "local_id", None)
        return lid if isinstance(lid, int) and getattr(p, "name", None) == "p%d" % lid else -1

    # ---- one event -----------------------------------------------------------------------
    def step(self, act: dict, observe: bool = True) -> dict:
        from hippolyzer.lib.base.datatypes import UUID
        from hippolyzer.lib.base.message.message import Block, Message
        self.loop.vt += STEP_DT
        self.steps += 1
        n = act["n"]
        raised = None
        coro = None
        if n == "Chunk":
            st, r = common.impl_call(self._chunk, act["i"], act["d"])
            if st != "ok":
                raised = r
        elif n == "ReqProps":
            coro = self.pm.request_parcel_properties(self._pos(act["c"], self.steps))
        elif n == "GetAt":
            coro = self.pm.get_parcel_at(self._pos(act["c"], self.steps), act["req"])
        elif n == "ReqAll":
            coro = self.pm.request_all_parcels()
        elif n == "ReqDirty":
            coro = self.pm.request_dirty_parcels()
        elif n == "Props":
            msg = Message("ParcelProperties", Block(
                "ParcelData", LocalID=act["lid"], SequenceID=act["s"], Name="p%d" % act["lid"], GroupID=UUID.ZERO,
                ParcelFlags=0, Bitmap=self._bitmap(act["bm"])))
            st, r = common.impl_call(self.region.message_handler.handle, msg)
            if st != "ok":
                raised = r
        elif n == "Timeout":
            self.loop.vt += TIMEOUT - STEP_DT
        else:
            raise common.MachineryError("unknown action %r" % (act,))
        if coro is not None:
            self.tasks.append(self.loop.create_task(coro))
        self.pump()
        if not observe:
            self.log.clear()
            return {}
        return self.observe(n, raised)

    def observe(self, n, raised) -> dict:
        got = {"reqs": []}
        for kind, v in self.log:
            if kind == "sent":
                if v.name == "ParcelPropertiesRequest":
                    b = v["ParcelData"][0]
                    ok = b["West"] == b["East"] and b["South"] == b["North"] and 0 <= b["West"] < REGION and 0 <= b["South"] < REGION
                    got["reqs"].append([b["SequenceID"], self._cell_of(b["West"], b["South"]) if ok else -1])
                else:
                    got["reqs"].append(["other", v.name])
            elif kind == "done" and n == "Chunk":
                got["done"] = bool(v)        # of the last message the chunk travelled in
            elif kind == "raise":
                raised = raised or v
        self.log.clear()
        got["raised"] = raised
        pm = self.pm
        got["complete"] = pm.overlay_complete.is_set()
        got["downloaded"] = pm.parcels_downloaded.is_set()
        got["parcels"] = [self._pid(p) for p in pm.parcels]
        import numpy as np
        f = self.f
        arr = np.asarray(pm.parcel_indices)
        idx = [int(v) for v in arr[::f, ::f].flatten()]
        if f > 1 and not (np.kron(arr[::f, ::f], np.ones((f, f), dtype=arr.dtype)) == arr).all():
            idx = ["blocks-not-uniform"] + idx
        got["idx"] = idx
        look = []
        for c in range(self.n * self.n):
            st, r = common.impl_call(self._now, pm.get_parcel_at(self._pos(c, c), False))
            look.append(self._pid(r) if st == "ok" else r)
        got["lookup"] = look
        calls = []
        for t in self.tasks:
            if not t.done():
                calls.append(["p", []])
            elif t.cancelled():
                calls.append(["ex:Cancelled", []])
            elif t.exception() is not None:
                calls.append(["ex:" + type(t.exception()).__name__, []])
            else:
                r = t.result()
                calls.append(["ok", [self._pid(p) for p in r] if isinstance(r, tuple) else [self._pid(r)]])
        got["calls"] = calls
        return got

    def close(self):
        try:
            for t in self.tasks:
                if not t.done():
                    t.cancel()
            for t in asyncio.all_tasks(self.loop):
                t.cancel()
            self.pump()
            for t in self.tasks:
                if t.done() and not t.cancelled():
                    t.exception()
        finally:
            asyncio.set_event_loop(None)
            self.loop.close()


def _warm():
    """Import what the replays need before the pool forks."""
    import numpy  # noqa
    from hippolyzer.lib.proxy.parcel_manager import ProxyParcelManager  # noqa
    from hippolyzer.lib.base.message.circuit import Circuit  # noqa
    from hippolyzer.lib.client.state import BaseClientRegion  # noqa


def expected(e: dict) -> dict:
    o, s = e["obs"]["o"], e["obs"]["s"]
    exp = {"reqs": [list(r) for r in o.get("reqs", [])], "raised": None,
           "complete": s["complete"], "downloaded": s["downloaded"], "parcels": list(s["parcels"]),
           "idx": list(s["idx"]), "lookup": list(s["lookup"]),
           "calls": [[{"wo": "p", "wr": "p", "ok": "ok", "ex": "ex:TimeoutError"}[c["st"]], list(c["res"])] for c in s["calls"]]}
    if e["act"]["n"] == "Chunk":
        exp["done"] = o["done"]
    return exp


_GS = []       # [(Graph, model)] of the section; set before the pool forks


def _root(g: Graph, s: str) -> dict:
    while g.parent.get(s) is not None:
        s = g.edges[g.parent[s]]["_s"]
    return g.states[s]


class _Stuck(KeyboardInterrupt):
    """Raised by the watchdog inside implementation code that does not return (asyncio lets only
    KeyboardInterrupt/SystemExit travel through callbacks and tasks)."""


STUCK_AFTER = 3.0     # CPU seconds for one replayed history (they take milliseconds; 64 x 64 ones tens of milliseconds)


_FIRED = [False]


def _watchdog(seconds):
    """Interrupts implementation code every `seconds` of CPU time until switched off (0).  Event.notify swallows every
    exception of a handler, the watchdog's too: the flag tells the driver that it fired."""
    import signal

    def on_alarm(signum, frame):
        _FIRED[0] = True
        raise _Stuck()
    # CPU time of this process, not wall time: a loaded machine must not look like a hanging implementation
    if seconds:
        _FIRED[0] = False
        signal.signal(signal.SIGVTALRM, on_alarm)
        signal.setitimer(signal.ITIMER_VIRTUAL, seconds, seconds)
    else:
        signal.setitimer(signal.ITIMER_VIRTUAL, 0)
        signal.signal(signal.SIGVTALRM, signal.SIG_IGN)


def _replay(items):
    """items: (model number, edge of the implementation's grid, edge number | (incoming edge number, edge number))."""
    res = []
    for n_item, (mi, edge_size, item) in enumerate(items):
        g, m = _GS[mi]
        stuck = False
        pre = []
        if isinstance(item, tuple):
            pre, ei = [g.edges[item[0]]], item[1]
        else:
            ei = item
        e = g.edges[ei]
        start = pre[0]["_s"] if pre else e["_s"]
        root = _root(g, start)
        hist = []
        impl = None
        exp = expected(e)
        try:
            _watchdog(STUCK_AFTER)
            try:
                impl = Impl(root, m["n"], m.get("chunks", 4), edge_size)
                for pe in g.path_to(start) + pre:
                    hist.append(pe["act"])
                    impl.step(pe["act"], observe=False)
                    if _FIRED[0]:
                        raise _Stuck()
                hist.append(e["act"])
                got = impl.step(e["act"])
                if _FIRED[0]:
                    raise _Stuck()
            except _Stuck:
                stuck = True
                got = {"raised": "does not return (%.0f s of CPU) in event %d of the history; %d further histories of this batch not replayed"
                                 % (STUCK_AFTER, len(hist), len(items) - n_item - 1)}
            if got != exp:
                res.append({"model": mi, "history": hist, "start": {k: root[k] for k in ("kind", "ov")}, "grid": edge_size,
                            "expected": exp, "observed": got,
                            "differs": sorted(k for k in set(exp) | set(got) if exp.get(k) != got.get(k))})
        finally:
            try:
                _watchdog(STUCK_AFTER)
                if impl is not None:
                    impl.close()
            except _Stuck:
                pass
            finally:
                _watchdog(0)
        if stuck:
            break
    return res


def _count_sites(sites: dict, e: dict):
    """Where in the bounded models the antecedents of the properties are true (no vacuity)."""
    a, o, src, dst = e["act"], e["obs"]["o"], e["src"], e["dst"]
    if a["n"] == "Chunk" and o["done"]:
        sites["overlay_completed"] += 1
        if src["ov"] and src["ov"] != dst["ov"]:
            sites["overlay_changed"] += 1
            sites["parcel_count_changed"] += len(src["parcels"]) != len(dst["parcels"])
        if src["ov"] and src["ov"] == dst["ov"]:
            sites["overlay_resent_unchanged"] += 1
        sites["parked_calls_woken"] += bool(o["reqs"])
    elif a["n"] == "Props":
        sites["answer_matched" if o["matched"] else "answer_unmatched"] += 1
        sites["answer_rebinds"] += any(x and x != y for x, y in zip(src["parcels"], dst["parcels"]))
        for c0, c1 in zip(src["calls"], dst["calls"]):
            if c0["all"] and c0["st"] == "wr" and c1["st"] == "ok":
                sites["download_finished"] += 1
                sites["download_finished_stale"] += not c0["fresh"]
    elif a["n"] == "Timeout":
        sites["timeouts"] += 1
    elif a["n"] == "ReqDirty" and not src["dirty"]:
        sites["cached_dirty_call"] += 1


INVS = ["NothingBeforeComplete", "RequestsWellFormed", "DownloadedMeansKnown", "CleanMeansKnown"]
PROPS = ["Segmentation", "ParsedOnlyWhenComplete", "CompleteInstallsChunks", "AnswersMatchRequests", "AnswerCoversItsParcel"]
ACTIONS = ["Chunk", "ReqProps", "GetAt", "ReqAll", "ReqDirty", "Props", "Timeout"]
# Behaviours of the pinned tree which the design does not intend (ParcelOverlay.tla, `Bugs`):
#  P1  every complete overlay counts as changed (bytes compared with a 2-d memoryview: never equal)
#  P2  a request_all_parcels() that finishes declares the map downloaded/clean although the overlay changed meanwhile
AS_IS = ("P1", "P2")


def _tla_set(xs):
    return "{" + ", ".join('"%s"' % x if isinstance(x, str) else str(x) for x in xs) + "}"


def _cfg(m: dict, bugs, spec="MSpec") -> str:
    return ("SPECIFICATION %s\nCONSTANTS N = %d NumChunks = %d Layouts <- %s Probes = %s Bitmaps <- %s Kinds = %s Starts = %s InOrder = %s "
            "Bugs = %s MaxCalls = %d MaxProps = %d Depth = %d\n%s%s"
            % (spec, m["n"], m.get("chunks", 4), m["layouts"], _tla_set(m["probes"]), m["bitmaps"], _tla_set(m["kinds"]),
               _tla_set(m["starts"]), "TRUE" if m["in_order"] else "FALSE", _tla_set(bugs), m["calls"], m["props"], m["steps"] + 1,
               "".join("INVARIANT %s\n" % i for i in INVS), "".join("PROPERTY %s\n" % p for p in PROPS)))


# The bounded models (steps = longest history; TLC's Depth = steps + 1).
#  assembly      nothing received yet; chunks in any order, repeated, replaced; calls parked until the overlay is complete
#  wake          the same with chunks in order (bounding device): several parked calls, and the answers to what they ask
#  segmentation  every mix of rows of five 4 x 4 layouts, then request_all_parcels(): the flood fill (also at real size)
#  answers-*     starts after a first complete overlay; calls, answers in any order, unknown/duplicate/future sequence
#                ids, timeouts, overlay changes under outstanding requests.  chunks = 2: NUM_CHUNKS scaled down as well,
#                so that an overlay change costs two steps
#  reshape       2 x 2 layouts whose mixes have 1, 2, 2 (another shape) and 3 parcels: what is kept / dropped on a change
# real = n: that many edges are replayed once more into the unmodified class at the real 64 x 64 size.
# design = False: no separate model-checking run of the intended design (Bugs = {}) for this model.
MODELS = {
    "quick": [
        dict(name="assembly", n=2, layouts="L2a", probes=[1], bitmaps="B2a", kinds=["client"], starts=[0], in_order=False,
             calls=1, props=1, steps=5, design=False),
        dict(name="wake", n=2, layouts="L2a", probes=[1], bitmaps="B2a", kinds=["client"], starts=[0], in_order=True,
             calls=2, props=1, steps=7, design=False),
        dict(name="segmentation", n=4, layouts="L4b", probes=[], bitmaps="B4a", kinds=["client"], starts=[0], in_order=True,
             calls=1, props=0, steps=5, real=48, design=False),
        dict(name="answers-proxy", n=4, chunks=2, layouts="L4a", probes=[6], bitmaps="B4c", kinds=["proxy"], starts=[2], in_order=True,
             calls=2, props=2, steps=4, real=24, design=False),
        dict(name="answers-client", n=4, chunks=2, layouts="L4a", probes=[6], bitmaps="B4a", kinds=["client"], starts=[1], in_order=True,
             calls=2, props=2, steps=5, real=24),
    ],
    "thorough": [
        dict(name="assembly", n=2, layouts="L2b", probes=[1], bitmaps="B2b", kinds=["client"], starts=[0], in_order=False,
             calls=2, props=1, steps=5),
        dict(name="assembly-proxy", n=2, layouts="L2a", probes=[1], bitmaps="B2b", kinds=["proxy"], starts=[0], in_order=False,
             calls=1, props=2, steps=6),
        dict(name="wake", n=2, layouts="L2a", probes=[1], bitmaps="B2a", kinds=["client"], starts=[0], in_order=True,
             calls=3, props=2, steps=8),
        dict(name="segmentation", n=4, layouts="L4b", probes=[], bitmaps="B4a", kinds=["client"], starts=[0], in_order=True,
             calls=1, props=0, steps=5, real=300, design=False),
        dict(name="answers-proxy", n=4, chunks=2, layouts="L4a", probes=[6], bitmaps="B4b", kinds=["proxy"], starts=[1, 2], in_order=True,
             calls=2, props=2, steps=5, real=150),
        dict(name="answers-client", n=4, layouts="L4a", probes=[6], bitmaps="B4a", kinds=["client"], starts=[1, 2], in_order=True,
             calls=2, props=2, steps=7, real=150),
        dict(name="reshape", n=2, layouts="L2d", probes=[1], bitmaps="B2a", kinds=["client"], starts=[1], in_order=True,
             calls=2, props=3, steps=7),
    ],
}


def _run_models(chk: Check, models, bugs):
    """All TLC runs of the section side by side (one JVM, one worker each): the export of every model with `bugs`, and --
    when `bugs` is not empty -- a plain model-checking run of the intended design (Bugs = {}), so that the invariants
    the as-is behaviours are excused from are checked somewhere.  Returns the graphs in the order of `models`."""
    import concurrent.futures
    import os
    jobs = []
    for k, m in enumerate(models):
        jobs.append((k, "export", _cfg(m, bugs)))
        if bugs and m.get("design", True):
            jobs.append((k, "design", _cfg(m, (), spec="BSpec")))
    mod = os.path.join(common.SPECS, "ParcelOverlay_MBT.tla")

    def run(job):
        k, what, text = job
        path = os.path.join(chk.scratch, "parceloverlay-%d-%s.cfg" % (k, what))
        with open(path, "w") as f:
            f.write(text)
        res = common.run_tlc(mod, path, workers=1, scratch=chk.scratch, timeout=1800, heap="4g")
        # the graph is built here: small models are parsed while TLC still works on the large ones
        return res, (Graph(res.printed()) if what == "export" and res.ok else None)
    # the large models first
    order = sorted(range(len(jobs)), key=lambda j: -(models[jobs[j][0]]["steps"] * models[jobs[j][0]]["n"]))
    with concurrent.futures.ThreadPoolExecutor(max_workers=max(1, len(jobs))) as ex:
        done = dict(zip(order, ex.map(run, [jobs[j] for j in order])))
    graphs = {}
    for j, (k, what, _) in enumerate(jobs):
        res, g = done[j]
        m = models[k]
        label = "ParcelOverlay %s n%d s%d" % (m["name"], m["n"], m["steps"])
        if not res.ok:
            raise common.MachineryError("%s (%s, Bugs = %s) failed:\n%s" % (label, what, _tla_set(bugs if what == "export" else ()),
                                                                          (res.counterexample() or res.out)[-3000:]))
        chk.add_tlc(res, label + (" (export)" if what == "export" else " (intended design, model checking only)"))
        chk.cov["tlc_runs"][-1]["invariants"] = INVS + PROPS
        if what == "export":
            graphs[k] = g
    return [graphs[k] for k in range(len(models))]


def section(chk: Check, size: str = None, cap_pairs: int = None, bugs=AS_IS, models=None):
    """size: "quick" | "thorough" (default: the tier of the check), or pass `models`, a list like MODELS[...].
    `bugs`: the as-is behaviours the specification is to model (default: those of the pinned tree, so that the unchanged
    tree shows no divergence); bugs=() compares the implementation with the intended design."""
    global _GS
    size = size or chk.tier
    models = models or MODELS[size]
    if cap_pairs is None:
        cap_pairs = 800 if size == "quick" else 3000      # merge pairs per model
    per_action = {a: 0 for a in ACTIONS}
    sites = {k: 0 for k in ("overlay_completed", "overlay_changed", "overlay_resent_unchanged", "parcel_count_changed",
                            "answer_matched", "answer_unmatched", "answer_rebinds", "download_finished", "download_finished_stale",
                            "parked_calls_woken", "timeouts", "cached_dirty_call")}
    _warm()
    graphs = _run_models(chk, models, tuple(bugs))
    _GS = list(zip(graphs, models))
    ids, heavy_ids = [], []
    for mi, (g, m) in enumerate(_GS):
        edges = g.reachable_edges()
        ids += [(mi, m["n"], i) for i in edges] + [(mi, m["n"], p) for p in g.merge_pairs(cap_pairs)]
        if m.get("real"):
            # the unmodified class at the real grid size: edges that segment, ask, bind or look up
            heavy = [i for i in edges if g.edges[i]["act"]["n"] != "Chunk" or g.edges[i]["obs"]["o"]["done"]]
            stride = max(1, len(heavy) // m["real"])
            heavy_ids += [(mi, 64, i) for i in heavy[::stride][:m["real"]]]
        for i in edges:
            e = g.edges[i]
            per_action[e["act"]["n"]] += 1
            _count_sites(sites, e)
            if e["src"]["ov"] != e["dst"]["ov"] or e["src"]["parcels"] != e["dst"]["parcels"] or e["obs"]["o"].get("reqs"):
                chk.nontrivial(("parceloverlay", m["name"], e["_s"], common.skey(e["act"])))
        pick = [e for e in g.edges if e["act"]["n"] == "Props" and e["obs"]["o"]["matched"] and e["src"]["parcels"] != e["dst"]["parcels"]]
        if pick:
            e = pick[len(pick) // 2]
            chk.sample({"binding": "B1 parcel map (%s)" % m["name"], "start": {k: _root(g, e["_s"])[k] for k in ("kind", "ov")},
                        "path": [p["act"] for p in g.path_to(e["_s"])] + [e["act"]], "expected": expected(e)})
    missing = [a for a, k in per_action.items() if not k]
    if missing:
        raise common.MachineryError("ParcelOverlay: actions never fire in the bounded models: %s" % missing)
    # dealt round-robin, the expensive real-size replays first
    ids = heavy_ids + ids
    k = common.NCPU * 4
    results = common.parallel_map(_replay, [ids[j::k] for j in range(k) if ids[j::k]] or [[]])
    for bads in results:
        for b in bads:
            chk.divergence("ParcelOverlay", "B1 parcel map: %s differs from ParcelOverlay specification" % ",".join(b["differs"]),
                           {"kind": "b1-parceloverlay", "model": models[b["model"]]["name"], "differs": b["differs"],
                            "last": b["history"][-1]["n"], "grid": b["grid"]}, b)
    chk.count(len(ids))
    chk.cov["traces_validated_against_impl"] += len(ids)
    chk.cov["parceloverlay_edges"] = len(ids)
    chk.cov["parceloverlay_real_size_edges"] = len(heavy_ids)
    chk.cov["parceloverlay_actions"] = per_action
    chk.cov["parceloverlay_sites"] = sites
    chk.assumptions += [
        "ParcelOverlay (growth): grid (and, where a model says chunks = 2, NUM_CHUNKS) scaled down through a subclass overriding "
        "the class constants; a sample of the 4 x 4 edges is replayed at the real 64 x 64 size with the unmodified class "
        "(16 x 16 blocks per model cell)",
        "ParcelOverlay (growth): virtual asyncio clock; %.2f s pass before every event, Timeout = %.0f s after the last request; "
        "request_all_parcels() is taken to ask about the first cell (wire order) of each parcel; calls resumed by the same "
        "overlay get their sequence ids in the order asyncio resumes them" % (STEP_DT, TIMEOUT),
        "ParcelOverlay (growth): specification run with Bugs = %s (as-is behaviours of the pinned tree; {} = intended design)" % _tla_set(bugs),
    ]
