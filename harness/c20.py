"""C20 — inventory, asset and transfer codecs round-trip.

Transfer clause (Transfer.tla, Transfer_MBT, Transfer_Trace):
  B3  the pieces TLC computes for a payload are what the real sender `Xfer(data=..)` produces
      (real 1150-byte chunk size, lengths around every boundary);
  B1  every arrival sequence (reordering, duplication, foreign packets) of the bounded model is
      delivered as real wire messages to the real XferManager / TransferManager receivers and
      done()/reassemble_chunks() are compared with TLC's observation after every packet;
  B2  production-size transfers with shuffled/duplicated arrivals, validated by TLC.
Inventory clause (SchemaText.tla, SchemaText_MBT): B3 rows over reflected field tables (see _inventory).
Animation / mesh clauses (AssetLayout.tla, AssetLayout_Trace): B2 layout records (see _assets).
"""
from __future__ import annotations

import asyncio
import dataclasses
import os

from . import common
from .common import Check, Graph, MachineryError

# ----------------------------------------------------------------------------------------
# Transfer clause
# ----------------------------------------------------------------------------------------

_TI = None


def _timports():
    global _TI
    if _TI is None:
        from hippolyzer.lib.base.datatypes import UUID
        from hippolyzer.lib.base.message.message import Message, Block
        from hippolyzer.lib.base.message.message_handler import MessageHandler
        from hippolyzer.lib.base.message.circuit import Circuit, ConnectionHolder
        from hippolyzer.lib.base.message.udpserializer import UDPMessageSerializer
        from hippolyzer.lib.base.message.udpdeserializer import UDPMessageDeserializer
        from hippolyzer.lib.base.network.transport import AbstractUDPTransport, Direction
        from hippolyzer.lib.base import xfer_manager, transfer_manager, templates

        class RecTransport(AbstractUDPTransport):
            def __init__(self):
                self.sent = []

            def send_packet(self, packet):
                self.sent.append(packet)

            def close(self):
                pass

        class Holder(ConnectionHolder):
            def __init__(self):
                self.circuit = Circuit(("127.0.0.1", 1), ("127.0.0.1", 2), RecTransport())
                self.message_handler = MessageHandler()

        _TI = dict(UUID=UUID, Message=Message, Block=Block, Holder=Holder, Direction=Direction,
                   ser=UDPMessageSerializer(), de=UDPMessageDeserializer(), xm=xfer_manager, tm=transfer_manager,
                   t=templates)
    return _TI


async def _pump(n=6):
    for _ in range(n):
        await asyncio.sleep(0)


class Receiver:
    """A real receiver (XferManager or TransferManager) behind a real MessageHandler; packets
    reach it as deserialized wire messages.  Created inside a running loop."""
    XFER_ID = 0x1234
    OTHER_XFER_ID = 0x1235

    def __init__(self, proto):
        im = _timports()
        self.im = im
        self.proto = proto
        self.holder = im["Holder"]()
        self.seq = 0
        UUID = im["UUID"]
        self.tid, self.other_tid = UUID(int=0x77), UUID(int=0x78)
        t = im["t"]
        if proto in ("xfer", "xferTurbo"):
            self.mgr = im["xm"].XferManager(self.holder)
            # "xferTurbo": the receiver acknowledges pieces ahead of their arrival
            self.obj = self.mgr.request(xfer_id=self.XFER_ID, vfile_id=UUID(int=5), vfile_type=t.AssetType.BODYPART,
                                        turbo=(proto == "xferTurbo"))
        else:
            self.mgr = im["tm"].TransferManager(self.holder, UUID(int=1), UUID(int=2))
            self.obj = self.mgr.request(source_type=t.TransferSourceType.SIM_ESTATE, transfer_id=self.tid,
                                        params=t.TransferRequestParamsSimEstate(EstateAssetType=t.EstateAssetType.COVENANT))

    def _wire(self, msg):
        self.seq += 1
        msg.packet_id = self.seq
        m = self.im["de"].deserialize(self.im["ser"].serialize(msg))
        m.direction = self.im["Direction"].IN
        return m

    async def start(self, n):
        await _pump()
        if self.proto == "transfer":
            t, Message, Block = self.im["t"], self.im["Message"], self.im["Block"]
            params = t.TransferRequestParamsSimEstate(EstateAssetType=t.EstateAssetType.COVENANT,
                                                      AgentID=self.im["UUID"](int=1), SessionID=self.im["UUID"](int=2))
            self.holder.message_handler.handle(self._wire(Message(
                "TransferInfo", Block("TransferInfo", TransferID=self.tid, ChannelType=t.TransferChannelType.MISC,
                                      TargetType_=t.TransferTargetType.UNKNOWN, Status=t.TransferStatus.OK, Size=n,
                                      Params_=dataclasses.asdict(params)))))
            await _pump()

    def _packet(self, i, eof, data, foreign=False):
        t, Message, Block = self.im["t"], self.im["Message"], self.im["Block"]
        if self.proto in ("xfer", "xferTurbo"):
            return Message("SendXferPacket",
                           Block("XferID", ID=self.OTHER_XFER_ID if foreign else self.XFER_ID,
                                 Packet_=t.XferPacket(PacketID=i, IsEOF=bool(eof))),
                           Block("DataPacket", Data=data))
        return Message("TransferPacket",
                       Block("TransferData", TransferID=self.other_tid if foreign else self.tid,
                             ChannelType=t.TransferChannelType.MISC, Packet=i,
                             Status=t.TransferStatus.DONE if eof else t.TransferStatus.OK, Data=data))

    async def arrive(self, i, eof, data, foreign=False):
        st, r = common.impl_call(self.holder.message_handler.handle, self._wire(self._packet(i, eof, bytes(data), foreign)))
        await _pump()
        return st, r

    def observe(self):
        done = bool(self.obj.done()) and not self.obj.cancelled()
        st, asm = common.impl_call(lambda: bytes(self.obj.reassemble_chunks()))
        return done, (asm if st == "ok" else None)

    async def timed_out(self):
        """The pump gives up after 5 s of REAL time without a packet; on a starved machine that is a property of the
        run, not of the code: such a replay is repeated."""
        if not self.obj.done() or self.obj.cancelled():
            return False
        try:
            await self.obj
        except (asyncio.TimeoutError, TimeoutError):
            return True
        except Exception:  # noqa
            return False
        return False


async def _cancel_tasks():
    cur = asyncio.current_task()
    for t in asyncio.all_tasks():
        if t is not cur:
            t.cancel()
    await _pump(3)


_TG: Graph = None
_TINITS = None


async def _t_replay_async(edge_ids):
    g = _TG
    out = []
    steps = 0
    todo = [(item, 0) for item in edge_ids]
    while todo:
        item, attempt = todo.pop()
        # an item is an edge e, or (f, e) with f a non-tree edge into src(e): another arrival order that merges into
        # the same abstract state; replayed as path_to(src f) + f + e
        loop, ei = item if isinstance(item, tuple) else (None, item)
        e = g.edges[ei]
        path = (g.path_to(g.edges[loop]["_s"]) + [g.edges[loop]]) if loop is not None else g.path_to(e["_s"])
        init = _TINITS[common.skey((path[0] if path else e)["src"])]
        pieces = init["pieces"]
        rcv = Receiver(init["init"]["proto"])
        await rcv.start(init["init"]["n"])
        hist = []
        raised = None
        for pe in path + [e]:
            a = pe["act"]
            hist.append(a)
            if a["n"] == "Arrive":
                st, r = await rcv.arrive(a["i"], a["eof"], pieces[a["i"]])
            else:
                st, r = await rcv.arrive(len(pieces) - 1, True, b"\x55" * 6, foreign=True)
            if st != "ok":
                raised = r
            steps += 1
        if await rcv.timed_out():
            await _cancel_tasks()
            if attempt >= 3:
                raise MachineryError("transfer replay keeps hitting the 5 s real-time timeout of the pump (machine starved)")
            todo.append((item, attempt + 1))
            continue
        done, asm = rcv.observe()
        obs = e["obs"]
        bad = []
        if raised:
            bad.append(("exception escaped the handler", None, raised))
        if done != obs["done"]:
            bad.append(("completed although a piece is missing" if done else "not completed although every piece arrived",
                        obs["done"], done))
        if obs["done"] and done and (asm is None or list(asm) != obs["asm"]):
            bad.append(("complete but reassembly differs from the payload", obs["asm"], None if asm is None else list(asm)))
        await _cancel_tasks()
        if bad:
            out.append({"proto": init["init"]["proto"], "n": init["init"]["n"], "C": init["init"]["C"],
                        "history": hist, "mismatches": bad})
    return steps, out


def _t_replay_chunk(edge_ids):
    return asyncio.run(_t_replay_async(edge_ids))


def _t_cfg(spec, xl, tl, cs, extra, export, invs=True):
    s = "SPECIFICATION %s\nCONSTANTS Extra = %d Export = %s Moves = %s\n" % (
        spec, max(extra, 0), "TRUE" if export else "FALSE", "TRUE" if extra >= 0 else "FALSE")
    s += "CONSTANTS XferLens = {%s} TransferLens = {%s} ChunkSizes = {%s}\n" % (
        ",".join(map(str, xl)), ",".join(map(str, tl)), ",".join(map(str, cs)))
    if invs:
        for i in ("ChunkingLaw", "PrefixLaw", "DoneIffComplete", "ReassemblesToPayload", "NeverTooLong"):
            s += "INVARIANT %s\n" % i
    return s


class _Agg:
    def __init__(self):
        self.by = {}

    def add(self, key, size, features, detail):
        cur = self.by.get(key)
        if cur is None:
            self.by[key] = [1, size, features, detail]
        else:
            cur[0] += 1
            if size < cur[1]:
                cur[1], cur[3] = size, detail

    def report(self, chk, prefix):
        for key in sorted(self.by):
            n, _, features, detail = self.by[key]
            d = dict(detail)
            d["failing_cases_with_this_clause"] = n
            chk.violation("%s: %s" % (prefix, " / ".join(map(str, key))), features, d)


def _transfer_sender_table(chk: Check, lens):
    """B3: pieces of the real sender at the real chunk size against TLC's Chunks(Wire(..))."""
    im = _timports()
    real_c = im["xm"].MAX_CHUNK_SIZE
    recs = common.export_records(chk, "Transfer_MBT", _t_cfg("MSpec", lens, [], [real_c], -1, True, invs=False),
                                 "Transfer sender table C=%d" % real_c)
    rows = [r for r in recs if "init" in r]
    if len(rows) != 2 * len(lens):
        raise MachineryError("sender table has %d rows, expected %d" % (len(rows), len(lens)))
    agg = _Agg()

    async def build(payload):
        return im["xm"].Xfer(data=payload)
    for r in rows:
        n = r["init"]["n"]
        payload = bytes(r["payload"])
        chk.count()
        st, x = common.impl_call(lambda: asyncio.run(build(payload)))
        if st != "ok":
            agg.add(("sender raised",), n, {"kind": "b3", "part": "xfer-sender", "clause": "sender raised"}, {"n": n, "exc": x})
            continue
        got = [list(x.chunks[k]) for k in sorted(x.chunks)]
        if sorted(x.chunks) != list(range(len(x.chunks))) or got != r["pieces"]:
            agg.add(("sender pieces differ from Chunks(Wire(payload))",), n,
                    {"kind": "b3", "part": "xfer-sender", "clause": "pieces"},
                    {"n": n, "spec_piece_lengths": [len(p) for p in r["pieces"]], "impl_piece_lengths": [len(p) for p in got],
                     "spec_head": r["pieces"][0][:8], "impl_head": got[0][:8] if got else None})
        chk.nontrivial(("sender", n))
    agg.report(chk, "B3 xfer sender")
    chk.cov["traces_validated_against_impl"] += len(rows)
    chk.sample({"binding": "B3 sender table", "n": rows[-1]["init"]["n"], "piece_lengths": [len(p) for p in rows[-1]["pieces"]],
                "head": rows[-1]["pieces"][0][:8]})


def _transfer_b1(chk: Check, xl, tl, cs, extra, label):
    global _TG, _TINITS
    common.model_check(chk, "Transfer_MBT", _t_cfg("Spec", xl, tl, cs, extra, False), "Transfer " + label)
    recs = common.export_records(chk, "Transfer_MBT", _t_cfg("MSpec", xl, tl, cs, extra, True, invs=False), "Transfer_MBT " + label)
    g = Graph(recs)
    _TG = g
    _TINITS = {common.skey(r["init"]): r for r in recs if "init" in r}
    ids = g.reachable_edges()
    if len(ids) != len(g.edges):
        raise MachineryError("unreachable edges in Transfer export")
    # `arrivals` is part of the state, so there are no self-loops, but different arrival orders merge into one state:
    # every edge is also replayed behind the other orders
    pairs = g.merge_pairs(8000 if chk.tier == "quick" else 80000)
    chk.cov["b1_merge_pairs_replayed"] = chk.cov.get("b1_merge_pairs_replayed", 0) + len(pairs)
    chk.notes.append("B1 transfer %s: %d edges + %d (merging edge, next edge) pairs of %d" % (label, len(ids), len(pairs), len(g.merge_pairs(10 ** 9))))
    ids = ids + pairs
    chunks = [ids[i::common.NCPU * 2] for i in range(common.NCPU * 2)]
    results = common.parallel_map(_t_replay_chunk, [c for c in chunks if c])
    chk.count(sum(r[0] for r in results))
    chk.cov["traces_validated_against_impl"] += len(ids)
    chk.cov["b1_edges_replayed"] = chk.cov.get("b1_edges_replayed", 0) + len(ids)
    agg = _Agg()
    for _, bads in results:
        for b in bads:
            for m in b["mismatches"]:
                agg.add((b["proto"], m[0]), len(b["history"]) * 1000 + b["n"],
                        {"kind": "b1", "part": "transfer", "proto": b["proto"], "clause": m[0]},
                        {"proto": b["proto"], "payload_len": b["n"], "chunk_size": b["C"], "arrivals": b["history"],
                         "expected": m[1], "got": m[2]})
    agg.report(chk, "B1 transfer " + label)
    for e in g.edges:
        s, d = e["src"], e["dst"]
        if e["act"]["n"] == "Arrive" and (e["act"]["i"] in s["got"] or (s["got"] and e["act"]["i"] < max(s["got"]))):
            chk.nontrivial(("tedge", label, e["_s"], common.skey(e["act"])))
    e = g.edges[len(g.edges) // 2]
    chk.sample({"binding": "B1 transfer", "shape": e["src"], "arrivals": [p["act"] for p in g.path_to(e["_s"])] + [e["act"]],
                "expected": e["obs"]})


async def _t_walks_async(args):
    seed, jobs = args
    import random
    rng = random.Random(seed)
    im = _timports()
    traces = []
    for proto, n, payload in jobs:
        evs = []
        if proto in ("xfer", "xferTurbo"):
            c = im["xm"].MAX_CHUNK_SIZE
            st, x = common.impl_call(lambda: im["xm"].Xfer(data=payload))
            if st != "ok":
                traces.append([{"ev": "Start", "proto": proto, "n": n, "C": c, "ids": [], "pieces": [], "eofs": [], "head": []}])
                continue
            # whatever the sender produced is an observation: nothing below relies on it being well-formed
            st, got = common.impl_call(lambda: [(int(k), bytes(x.chunks[k])) for k in sorted(x.chunks)])
            if st != "ok":
                traces.append([{"ev": "Start", "proto": proto, "n": n, "C": c, "ids": [], "pieces": [], "eofs": [], "head": []}])
                continue
            ids, pieces = [k for k, _ in got], [b for _, b in got]
        else:
            c = 1000
            pieces = [payload[i:i + c] for i in range(0, len(payload), c)] or [b""]
            ids = list(range(len(pieces)))
        eofs = [1 if i == len(pieces) - 1 else 0 for i in range(len(pieces))]
        evs.append({"ev": "Start", "proto": proto, "n": n, "C": c, "ids": ids, "pieces": [len(p) for p in pieces], "eofs": eofs,
                    "head": list(pieces[0][:16]) if pieces else []})
        if not pieces or ids != list(range(len(pieces))):
            # the Start record alone convicts the sender (piece count / numbering); there is nothing sensible to deliver
            traces.append(evs)
            continue
        order = list(range(len(pieces)))
        mode = rng.randrange(4)
        if mode == 0:
            rng.shuffle(order)
        elif mode == 1:
            order.reverse()
        elif mode == 2 and len(order) > 1:
            order = [order[-1]] + order[:-1]
        # duplicates and foreign packets sprinkled in
        seq = []
        for i in order:
            seq.append(i)
            if rng.random() < 0.3:
                seq.append(rng.choice(order))
            if rng.random() < 0.15:
                seq.append(-1)
        seq += [rng.choice(order)]
        start = evs
        for attempt in range(4):
            evs = list(start)
            rcv = Receiver(proto)
            await rcv.start(n)
            starved = False
            for i in seq:
                if i < 0:
                    await rcv.arrive(len(pieces) - 1, True, b"\x55" * 9, foreign=True)
                    ev = {"ev": "Foreign"}
                else:
                    await rcv.arrive(i, eofs[i], pieces[i])
                    ev = {"ev": "Arrive", "i": i}
                if await rcv.timed_out():
                    starved = True
                    break
                done, asm = rcv.observe()
                ev["done"] = done
                ev["asm_is_payload"] = asm == payload
                evs.append(ev)
            await _cancel_tasks()
            if not starved:
                break
        else:
            raise MachineryError("transfer walk keeps hitting the 5 s real-time timeout of the pump (machine starved)")
        traces.append(evs)
    return traces


def _t_walks_chunk(args):
    return asyncio.run(_t_walks_async(args))


def _payload_bytes(n):
    # the inputs of the traces; the trace spec checks the head of piece 0 against Payload(n)
    return bytes(((i * 7 + (i // 251) * 3) % 251) + 1 for i in range(1, n + 1))


def _transfer_b2(chk: Check, reps):
    im = _timports()
    c = im["xm"].MAX_CHUNK_SIZE
    xl = sorted({0, 1, c - 5, c - 4, c - 3, 2 * c - 5, 2 * c - 4, 2 * c - 3, 3 * c - 4, 5000, 4 * c - 4 + 1})
    tl = sorted({0, 1, 999, 1000, 1001, 1999, 2000, 2001, 3000, 5000})
    jobs = []
    for _ in range(reps):
        jobs += [("xfer", n, _payload_bytes(n)) for n in xl] + [("xferTurbo", n, _payload_bytes(n)) for n in xl] + \
            [("transfer", n, _payload_bytes(n)) for n in tl]
    parts = common.chunked(jobs, common.NCPU)
    traces = [t for r in common.parallel_map(_t_walks_chunk, [(chk.rng.randrange(1 << 30), p) for p in parts]) for t in r]
    cfg = "SPECIFICATION TraceSpec\nPOSTCONDITION TraceAccepted\nCHECK_DEADLOCK FALSE\n"
    acc, rej, results = common.validate_traces("Transfer_Trace", cfg, traces, chk.scratch, shards=4, tag="c20t")
    agg = _Agg()
    for r in results:
        chk.add_tlc(r, "Transfer_Trace")
        if r.assert_failed:
            raise MachineryError("transfer driver violated an environment assumption:\n" + r.out[-1500:])
        seen = set()
        for rec in r.printed():
            if isinstance(rec, dict) and "fail" in rec and (rec["tid"], rec["fail"]) not in seen:
                seen.add((rec["tid"], rec["fail"]))
                t = traces[rec["tid"]]
                agg.add((t[0]["proto"], rec["fail"]), len(t),
                        {"kind": "b2", "part": "transfer", "proto": t[0]["proto"], "clause": rec["fail"]},
                        {"trace": common._clip(t[:30])})
    for ti, j, ev in rej:
        agg.add((traces[ti][0]["proto"], "trace rejected"), j,
                {"kind": "b2-reject", "part": "transfer", "proto": traces[ti][0]["proto"]}, {"trace": common._clip(traces[ti][:j + 1])})
    agg.report(chk, "B2 transfer")
    chk.cov["traces_validated_against_impl"] += len(traces)
    chk.count(sum(len(t) for t in traces))
    for i, t in enumerate(traces):
        if len(t[0]["pieces"]) >= 2:
            chk.nontrivial(("twalk", i))
    chk.sample({"binding": "B2 transfer trace", "events": traces[len(traces) // 2][:5]})


def _transfer(chk: Check):
    im = _timports()
    c = im["xm"].MAX_CHUNK_SIZE
    quick = chk.tier == "quick"
    _transfer_sender_table(chk, sorted({0, 1, c - 5, c - 4, c - 3, 2 * c - 5, 2 * c - 4, 2 * c - 3, 3 * c - 4, 5000}))
    if quick:
        _transfer_b1(chk, [0, 1, 3, 4, 5, 7, 8, 9, 11, 12], [0, 1, 3, 4, 5, 8, 9, 12, 13, 16], [4, 5], 2, "C4,5 N<=4 +2")
    else:
        _transfer_b1(chk, list(range(0, 14)), list(range(0, 18)), [4, 5], 3, "C4,5 N<=5 +3")
        _transfer_b1(chk, [0, 2, 3, 4, 10, 11, 17], [0, 1, 6, 7, 8, 14, 21], [7], 3, "C7 N<=3 +3")
        _transfer_b1(chk, [], [0, 3, 6, 9, 12, 15, 18], [3], 2, "transfer only C3 N<=6 +2")   # xfer needs C >= its 4-byte prefix
    _transfer_b2(chk, 2 if quick else 30)



# ----------------------------------------------------------------------------------------
# Inventory clause (SchemaText.tla): reflected field tables -> TLC rows -> real code
# ----------------------------------------------------------------------------------------

def _inv_classes():
    from hippolyzer.lib.base import inventory as inv
    classes = {}
    for name in dir(inv):
        c = getattr(inv, name)
        if isinstance(c, type) and issubclass(c, inv.InventoryBase) and isinstance(getattr(c, "SCHEMA_NAME", None), str) \
                and dataclasses.is_dataclass(c):
            classes[c.SCHEMA_NAME] = c
    return classes


def _kind_of(spec):
    import inspect
    from hippolyzer.lib.base import inventory as inv, legacy_schema as ls
    cls = spec if inspect.isclass(spec) else spec.__class__
    exact = {ls.SchemaUUID: "uuid", ls.SchemaHexInt: "hexint", ls.SchemaInt: "int", ls.SchemaMultilineStr: "mstr",
             ls.SchemaStr: "str", ls.SchemaDate: "date", ls.SchemaLLSD: "llsd", inv.SchemaFlagField: "flag",
             inv.SchemaEnumField: "enum"}
    if cls in exact:
        return exact[cls], ""
    if issubclass(cls, ls.SchemaBase) and isinstance(getattr(cls, "SCHEMA_NAME", None), str):
        return "block", cls.SCHEMA_NAME
    raise MachineryError("unknown schema field spec %r: extend the reflection bridge" % (spec,))


def reflect_schema():
    """The field tables and lookup names of the real code, as data for SchemaText.tla."""
    from hippolyzer.lib.base import templates
    classes = _inv_classes()
    schemas = {}
    for sname, cls in classes.items():
        fields = []
        for f in dataclasses.fields(cls):
            spec = f.metadata.get("spec")
            if not spec:
                continue
            kind, sub = _kind_of(spec)
            has_default = f.default is not dataclasses.MISSING
            fields.append({"name": f.name, "kind": kind, "sub": sub,
                           "opt": bool(has_default and f.default is None),
                           "dflt": bool(has_default and f.default is not None),
                           "llsd_only": bool(f.metadata.get("llsd_only")), "include_none": bool(f.metadata.get("include_none")),
                           "llsd_name": f.metadata.get("llsd_name") or ""})
        schemas[sname] = {"id": getattr(cls, "ID_ATTR", "") or "", "fields": fields}
    enums = []
    for ename in ("AssetType", "InventoryType", "FolderType", "SaleType"):
        e = getattr(templates, ename)
        for m in e:
            st, name = common.impl_call(m.to_lookup_name)
            enums.append({"enum": ename, "member": m.name, "lookup": [ord(c) for c in name] if st == "ok" else []})
    top = [n for n in ("inv_category", "inv_object", "inv_item") if n in schemas]
    if len(top) != 3:
        raise MachineryError("inventory node classes not found: %r" % (sorted(schemas),))
    return {"schemas": schemas, "enums": enums, "top": top}


class _ValueGen:
    """Values inside the domain of the legacy text format: strings without TAB/CR/LF/'|' and without leading
    white space; U32 masks and flags; whole-second dates; enum members whose lookup name is unambiguous."""
    ALPHA = "abcXYZ 09_-.,:;!?()[]{}<>&'\"/\\=+*#@%~ é中\U0001F600"

    def __init__(self, rng, collisions):
        self.rng = rng
        self.bad_members = {(e, m) for e, a, b in collisions for m in (a, b)}
        self.enum_pos = {}

    def string(self):
        r = self.rng
        n = r.choice([0, 1, 3, 8, 20])
        s = "".join(r.choice(self.ALPHA) for _ in range(n))
        return s.lstrip()

    def u32(self):
        r = self.rng
        return r.choice([0, 1, 0x7fffffff, 0x80000000, 0xffffffff, r.getrandbits(32)])

    def uuid(self):
        from hippolyzer.lib.base.datatypes import UUID
        return UUID(int=self.rng.getrandbits(128))

    def enum(self, ecls, exclude=()):
        members = [m for m in ecls if (ecls.__name__, m.name) not in self.bad_members and m not in exclude]
        i = self.enum_pos.get(ecls, 0)
        self.enum_pos[ecls] = i + 1
        return members[i % len(members)]

    def llsd(self):
        r = self.rng
        c = r.randrange(5)
        if c == 0:
            return {}
        if c == 1:
            return {"a": 1, "b": self.string()}
        if c == 2:
            return {"k": [1, 2, {"x": True}], "s": self.string(), "n": -5}
        if c == 3:
            return [self.string(), 2]
        return {"u": self.uuid(), "r": 1.5}

    def date(self):
        import datetime
        return datetime.datetime(1970, 1, 1) + datetime.timedelta(seconds=self.rng.choice([0, 1, 1577934245, 2 ** 31 - 1, self.rng.randrange(2 ** 31)]))


def _build_node(schemas, classes, sname, present, prefix, gen: _ValueGen, fl, link):
    """A real dataclass instance of schema `sname` whose optional fields are set exactly on the paths in `present`."""
    from hippolyzer.lib.base import templates
    from hippolyzer.lib.base.datatypes import UUID
    cls = classes[sname]
    spec_of = {f.name: f.metadata.get("spec") for f in dataclasses.fields(cls)}
    kw = {}
    for f in schemas[sname]["fields"]:
        path = f["name"] if not prefix else prefix + "." + f["name"]
        if (f["opt"] or f["dflt"]) and path not in present:
            continue
        k = f["kind"]
        if k == "block":
            v = _build_node(schemas, classes, f["sub"], present, path, gen, fl, link)
        elif k == "uuid":
            v = gen.uuid()
        elif k in ("hexint", "flag"):
            v = gen.u32()
        elif k == "int":
            v = gen.rng.choice([0, 1, 7, 1000, 2 ** 31 - 1])
        elif k in ("mstr", "str"):
            v = gen.string()
        elif k == "enum":
            ecls = spec_of[f["name"]]._enum_cls
            if sname == "inv_item" and f["name"] == "type":
                v = templates.AssetType.LINK if link else gen.enum(ecls, exclude=(templates.AssetType.LINK,) if fl == "ais" else ())
            elif sname == "inv_category" and f["name"] == "type" and fl == "ais":
                v = templates.AssetType.CATEGORY
            else:
                v = gen.enum(ecls)
        elif k == "date":
            v = gen.date()
        elif k == "llsd":
            v = gen.llsd()
        else:
            raise MachineryError("kind %r" % k)
        kw[f["name"]] = v
    if link and sname == "permissions":
        # what InventoryItem.from_llsd(ais) fills in for a link item (AIS cannot carry them)
        kw.update(base_mask=0xFFFFFFFF, owner_mask=0xFFFFFFFF, group_mask=0xFFFFFFFF, everyone_mask=0, next_owner_mask=0xFFFFFFFF,
                  creator_id=UUID.ZERO, owner_id=UUID.ZERO, last_owner_id=UUID.ZERO, group_id=UUID.ZERO)
    if link and sname == "sale_info":
        kw.update(sale_type=templates.SaleType.NOT, sale_price=0)
    return cls(**kw)


def _tokenize(text):
    toks = []
    for line in text.split("\n"):
        line = line.strip()
        if not line:
            continue
        parts = line.split(None, 1)
        key, rest = parts[0], (parts[1] if len(parts) > 1 else None)
        if rest is None:
            c = "none"
        elif rest == "<llsd><undef /></llsd>":
            c = "undef"
        elif rest.endswith("|"):
            c = "term"
        else:
            c = "plain"
        toks.append({"k": key, "c": c})
    return toks


def _key_classes(d, prefix=""):
    from hippolyzer.lib.base.datatypes import UUID
    out = []
    for k, v in d.items():
        path = k if not prefix else prefix + "." + k
        if isinstance(v, dict) and not prefix and k in ("permissions", "sale_info"):
            out.append([path, "map"])
            out += _key_classes(v, path)
            continue
        if isinstance(v, UUID):
            c = "uuid"
        elif isinstance(v, bool):
            c = "bool"
        elif isinstance(v, int):
            c = "int" if type(v) is int else "int-enum"
        elif isinstance(v, str):
            c = "str"
        elif isinstance(v, (bytes, bytearray)):
            c = "bin"
        elif isinstance(v, dict):
            c = "map"
        else:
            c = type(v).__name__
        out.append([path, c])
    return out


def _same_keys(spec_keys, impl_keys):
    spec = {k: c for k, c in spec_keys}
    impl = {k: c for k, c in impl_keys}
    if set(spec) != set(impl) or len(impl) != len(impl_keys):
        return False
    for k, c in spec.items():
        if c == "any":
            continue
        if c == "map" and impl[k] == "map":
            continue
        if impl[k] != c:
            return False
    return True


_IROWS = None
_ISCHEMA = None
_ICOLL = None


def _inv_replay_chunk(args):
    seed, idxs = args
    import random
    import time
    import warnings
    warnings.simplefilter("ignore")
    from hippolyzer.lib.base.inventory import InventoryModel
    # dates of the schema are UTC: a zone with an offset shows any use of local time
    old_tz = os.environ.get("TZ")
    os.environ["TZ"] = "America/New_York"
    time.tzset()
    try:
        return _inv_replay_rows(seed, idxs, InventoryModel)
    finally:
        if old_tz is None:
            os.environ.pop("TZ", None)
        else:
            os.environ["TZ"] = old_tz
        time.tzset()


def _inv_replay_rows(seed, idxs, InventoryModel):
    import random
    rng = random.Random(seed)
    gen = _ValueGen(rng, _ICOLL)
    classes = _inv_classes()
    schemas = _ISCHEMA["schemas"]
    bad = []
    n = 0
    for i in idxs:
        row = _IROWS[i]
        for rep in range(2):
            n += 1
            present = set(row["p"])
            st, node = common.impl_call(_build_node, schemas, classes, row["s"], present, "", gen, row["fl"], row["link"])
            if st != "ok":
                raise MachineryError("cannot build a %s node: %s" % (row["s"], node))
            ctx = {"schema": row["s"], "flavour": row["fl"], "link": row["link"], "present": sorted(present)}

            def fail(clause, **detail):
                d = dict(ctx)
                d.update(detail)
                d["node"] = repr(node)[:1500]
                bad.append((clause, len(present), d))
            model = InventoryModel()
            model.add(node)
            if row["fl"] == "text":
                st, text = common.impl_call(model.to_str)
                if st != "ok":
                    fail("serialiser raised", exc=text)
                    continue
                toks = _tokenize(text)
                if toks != row["lines"]:
                    fail("text structure differs from Lines(node)", spec=[[t["k"], t["c"]] for t in row["lines"]],
                         impl=[[t["k"], t["c"]] for t in toks])
                st, back = common.impl_call(InventoryModel.from_str, text)
                if st != "ok":
                    fail("parser raised", exc=back, text=text)
                    continue
                if row["rt"] and not (back == model and node.node_id in back.nodes and back.nodes[node.node_id] == node):
                    fail("text round trip yields a different model", text=text, parsed=repr(list(back.nodes.values()))[:1500])
            else:
                fl = row["fl"]
                st, d = common.impl_call(node.to_llsd, fl)
                if st != "ok":
                    fail("serialiser raised", exc=d)
                    continue
                kc = _key_classes(d)
                if not _same_keys(row["keys"], kc):
                    fail("llsd keys differ from Keys(node)", spec=sorted(row["keys"]), impl=sorted(kc))
                st, back = common.impl_call(type(node).from_llsd, d, fl)
                if st != "ok":
                    fail("parser raised", exc=back, llsd=repr(d)[:1500])
                    continue
                if row["rt"] and not back == node:
                    fail("llsd round trip yields a different node", llsd=repr(d)[:1500], parsed=repr(back)[:1500])
                # the same through the model-level entry points
                st, lst = common.impl_call(model.to_llsd, fl)
                if st != "ok":
                    fail("serialiser raised", exc=lst)
                    continue
                if len(lst) != 1 or row["idkey"] not in lst[0]:
                    fail("model llsd lacks the id key", idkey=row["idkey"], llsd=repr(lst)[:1500])
                st, mback = common.impl_call(InventoryModel.from_llsd, lst, fl)
                if st != "ok":
                    fail("parser raised", exc=mback, llsd=repr(lst)[:1500])
                    continue
                if row["rt"] and not mback == model:
                    fail("model-level llsd round trip yields a different model", idkey=row["idkey"],
                         parsed=repr(list(mback.nodes.values()))[:1500], llsd=repr(lst)[:1500])
    return n, bad


def _inventory(chk: Check):
    global _IROWS, _ISCHEMA, _ICOLL
    import json
    schema = reflect_schema()
    sf = os.path.join(chk.scratch, "schema.json")
    with open(sf, "w") as f:
        json.dump(schema, f)
    env = {"SCHEMA_FILE": sf}
    mod = os.path.join(common.SPECS, "SchemaText_MBT.tla")

    def tlc(cfg_text, label, workers):
        cfg = os.path.join(chk.scratch, "st-%d.cfg" % len(chk.cov["tlc_runs"]))
        with open(cfg, "w") as f:
            f.write(cfg_text)
        return common.run_tlc(mod, cfg, workers=workers, scratch=chk.scratch, env=env, heap="8g")
    # lookup-name tables
    res = tlc("SPECIFICATION ESpec\n", "enums", 1)
    chk.add_tlc(res, "SchemaText enums")
    erows = [r for r in res.printed() if isinstance(r, dict) and r.get("row") == "enums"]
    if not res.ok or len(erows) != 1 or erows[0]["n"] != len(schema["enums"]):
        raise MachineryError("SchemaText ESpec failed:\n" + res.out[-2000:])
    agg = _Agg()
    from hippolyzer.lib.base import templates
    for e, a, b in erows[0]["collisions"]:
        ecls = getattr(templates, e)
        shared = ecls[a].to_lookup_name()
        agg.add(("lookup name shared", e, a, b), 0,
                {"kind": "b3", "part": "inventory", "clause": "lookup name shared by two members", "enum": e, "members": sorted([a, b])},
                {"enum": e, "members": [a, b], "shared_lookup_name": shared,
                 "real_from_lookup_name": repr(common.impl_call(ecls.from_lookup_name, shared)),
                 "why": "to_lookup_name() maps both members to the same word, so from_lookup_name() "
                 "cannot return both: a node carrying one of them does not survive the text / legacy-LLSD round trip"})
    for e, m in erows[0]["notwords"]:
        agg.add(("lookup name is not a word", e, m), 0,
                {"kind": "b3", "part": "inventory", "clause": "lookup name is not a word", "enum": e, "member": m}, {"enum": e, "member": m})
    _ICOLL = erows[0]["collisions"]
    # every member against the real functions
    for rec in schema["enums"]:
        ecls = getattr(templates, rec["enum"])
        m = ecls[rec["member"]]
        chk.count()
        name = "".join(map(chr, rec["lookup"]))
        st, back = common.impl_call(ecls.from_lookup_name, name)
        collides = any(rec["enum"] == e and rec["member"] in (a, b) for e, a, b in _ICOLL)
        if not collides and not (st == "ok" and back is m):
            agg.add(("from_lookup_name(to_lookup_name(m)) != m", rec["enum"], rec["member"]), 0,
                    {"kind": "b3", "part": "inventory", "clause": "lookup round trip", "enum": rec["enum"], "member": rec["member"]},
                    {"lookup": name, "got": repr(back)})
        chk.nontrivial(("enum", rec["enum"], rec["member"]))
    # laws on every row + export
    laws = "INVARIANT TextLaw\nINVARIANT LLSDLaw\nINVARIANT DataOK\n"
    res = tlc("SPECIFICATION MSpec\n" + laws, "rows", 1)
    chk.require_model_ok(res, "SchemaText laws on all presence sets x flavours (+ export)")
    if not res.ok:
        return
    rows = [r for r in res.printed() if isinstance(r, dict) and r.get("row") == "node"]
    if len(rows) < 100:
        raise MachineryError("SchemaText export printed only %d rows" % len(rows))
    _IROWS, _ISCHEMA = rows, schema
    if chk.tier == "quick":
        # every row of categories/objects, every text row, a third of the LLSD item rows (all link rows)
        sel = [i for i, r in enumerate(rows) if r["s"] != "inv_item" or r["fl"] == "text" or r["link"] or i % 3 == 0]
    else:
        sel = list(range(len(rows)))
    parts = [sel[i::common.NCPU * 2] for i in range(common.NCPU * 2)]
    results = common.parallel_map(_inv_replay_chunk, [(chk.rng.randrange(1 << 30), p) for p in parts if p])
    for n, bad in results:
        chk.count(n)
        for clause, size, d in bad:
            agg.add((d["schema"], d["flavour"], clause), size,
                    {"kind": "b3", "part": "inventory", "schema": d["schema"], "flavour": d["flavour"], "link": d["link"], "clause": clause}, d)
    agg.report(chk, "B3 inventory")
    chk.cov["traces_validated_against_impl"] += len(sel)
    chk.cov["inventory_rows"] = {"exported": len(rows), "replayed": len(sel)}
    for i in sel:
        r = rows[i]
        if len(r["p"]) >= 1:
            chk.nontrivial(("invrow", r["s"], r["fl"], r["link"], tuple(r["p"])))
    chk.sample({"binding": "B3 inventory row", "row": {k: (v if k != "lines" else [[t["k"], t["c"]] for t in v]) for k, v in rows[len(rows) // 2].items()}})


# ----------------------------------------------------------------------------------------
# Animation and mesh clauses (AssetLayout.tla): generated models, layout recomputed by TLC,
# round-trip equalities recorded
# ----------------------------------------------------------------------------------------

_EXACT_QUATS = [(0.5, 0.5, 0.5, 0.5), (1.0, 0.0, 0.0, 0.0), (0.0, 1.0, 0.0, 0.0), (0.0, 0.0, 1.0, 0.0), (0.0, 0.0, 0.0, 1.0),
                (-0.5, 0.5, -0.5, 0.5), (0.0, -1.0, 0.0, 0.0)]
# exactly representable in the quantised (1, 0) layout: unit axes / end points of the ranges
_ANCHOR_QUATS = [(1.0, 0.0, 0.0, 0.0), (0.0, 1.0, 0.0, 0.0), (0.0, 0.0, -1.0, 0.0), (0.0, 0.0, 0.0, 1.0)]
_ANCHOR_POS = [(-5.0, 5.0, -5.0), (5.0, 5.0, 5.0), (0.0, 0.0, 0.0), (5.0, 0.0, -5.0)]


def _gen_animation(rng, ver):
    """Version (0, 1) stores raw F32: every float is a binary fraction, the whole model must survive.
    Version (1, 0) quantises: the joint "mExact" only uses values the quantised layout represents exactly
    (range end points, zero, unit quaternions); the other joints use arbitrary floats."""
    from hippolyzer.lib.base import llanim
    from hippolyzer.lib.base.datatypes import Vector3, Quaternion
    from hippolyzer.lib.base.multidict import OrderedMultiDict
    dur = rng.choice([0.5, 1.0, 2.5, 10.0, 60.0])
    # every scalar field over its full wire domain, not just the values a viewer would write
    s32 = lambda: rng.choice([0, 1, 2, -1, 6, 0x7fffffff, -0x80000000, rng.randrange(-2 ** 31, 2 ** 31)])  # noqa
    f32 = lambda: rng.choice([0.0, 0.25, 1.0, -1.0, 1.5, 3.4028234663852886e+38, -3.4028234663852886e+38,  # noqa
                              1.401298464324817e-45, 1.1754943508222875e-38])
    raw = tuple(ver) == (0, 1)

    def frac(lo, hi):
        return rng.randrange(int(lo * 64), int(hi * 64) + 1) / 64.0
    joints = OrderedMultiDict()
    for _ in range(rng.choice([0, 1, 1, 2, 3])):
        if raw:
            rk = [llanim.RotKeyframe(time=frac(0, dur), rot=Quaternion(*rng.choice(_EXACT_QUATS))) for _ in range(rng.randrange(0, 4))]
            pk = [llanim.PosKeyframe(time=frac(0, dur), pos=Vector3(frac(-5, 5), frac(-5, 5), frac(-5, 5))) for _ in range(rng.randrange(0, 4))]
        else:
            rk = [llanim.RotKeyframe(time=rng.random() * dur, rot=Quaternion(*[rng.uniform(-0.5, 0.5) for _ in range(3)]))
                  for _ in range(rng.randrange(0, 4))]
            pk = [llanim.PosKeyframe(time=rng.random() * dur, pos=Vector3(*[rng.uniform(-4.9, 4.9) for _ in range(3)]))
                  for _ in range(rng.randrange(0, 4))]
        # duplicate joint names are legal (multidict)
        joints.add(rng.choice(["mPelvis", "mTorso", "m", "mAnkleLeft"]), llanim.Joint(priority=s32(), rot_keyframes=rk, pos_keyframes=pk))
    if not raw:
        joints.add("mExact", llanim.Joint(
            priority=s32(),
            rot_keyframes=[llanim.RotKeyframe(time=rng.choice([0.0, dur]), rot=Quaternion(*rng.choice(_ANCHOR_QUATS))) for _ in range(rng.randrange(1, 4))],
            pos_keyframes=[llanim.PosKeyframe(time=rng.choice([0.0, dur]), pos=Vector3(*rng.choice(_ANCHOR_POS))) for _ in range(rng.randrange(1, 4))]))
    cons = [llanim.Constraint(chain_length=rng.choice([0, 1, 255, rng.randrange(256)]), type=llanim.ConstraintType(rng.randrange(2)),
                              source_volume=rng.choice(["mA", "", "0123456789abcde"]), source_offset=Vector3(1, 2, 3),
                              target_volume=rng.choice(["mTarget", "GROUND"]), target_offset=Vector3(f32(), 0.5, f32()), target_dir=Vector3(0, 0, 1),
                              ease_in_start=f32(), ease_in_stop=f32(), ease_out_start=f32(), ease_out_stop=f32())
            for _ in range(rng.choice([0, 0, 1, 2, 3]))]
    return llanim.Animation(major_version=ver[0], minor_version=ver[1], base_priority=s32(), duration=dur,
                            emote_name=rng.choice(["", "smile", "express_anger"]), loop_in_point=f32(), loop_out_point=rng.choice([dur, f32()]),
                            loop=s32(), ease_in_duration=f32(), ease_out_duration=f32(),
                            hand_pose=llanim.HandPose(rng.randrange(14)), joints=joints, constraints=cons)


def _anim_event(rng, ver):
    from hippolyzer.lib.base.llanim import Animation
    a0 = _gen_animation(rng, ver)
    ev = {"ev": "Anim", "ver": list(ver), "emote": len(a0.emote_name.encode("utf8")),
          "joints": [{"name": len(k.encode("utf8")), "rot": len(j.rot_keyframes), "pos": len(j.pos_keyframes)} for k, j in a0.joints.items(multi=True)],
          "ncons": len(a0.constraints), "size": -1, "bytes": [], "rt_model": False, "rt_bytes": False, "rt_exact": False,
          # header scalars of the GENERATED model: TLC looks for them in its serialisation
          "prio": int(a0.base_priority), "loop": int(a0.loop), "hand": int(a0.hand_pose),
          "jprio": [int(j.priority) for _, j in a0.joints.items(multi=True)]}

    def go():
        # the generated floats are not representable in the quantised layout: the model under test for full equality is
        # the one the parser produced from them (a model the format can express)
        b0 = a0.to_bytes()
        a1 = Animation.from_bytes(b0)
        b1 = a1.to_bytes()
        a2 = Animation.from_bytes(b1)
        return b0, a1, b1, a2, a2.to_bytes()
    st, r = common.impl_call(go)
    if st != "ok":
        ev["raised"] = r
        return ev
    b0, a1, b1, a2, b2 = r
    ev["size"] = len(b0)
    if len(b0) <= 380:
        ev["bytes"] = list(b0)
    ev["rt_model"] = bool(a2 == a1)
    # bytes -> model -> bytes, on the serialisation of the generated model and on that of the parsed one
    ev["rt_bytes"] = bool(b1 == b0 and b2 == b1)
    if tuple(ver) == (0, 1):
        ev["rt_exact"] = bool(a1 == a0)
    else:
        import dataclasses as dc
        strip = lambda a: dc.replace(a, joints=None)  # noqa
        ev["rt_exact"] = bool(strip(a1) == strip(a0) and a1.joints.getlist("mExact") == a0.joints.getlist("mExact")
                              and [j.priority for _, j in a1.joints.items(multi=True)] == ev["jprio"]
                              and [k for k, _ in a1.joints.items(multi=True)] == [k for k, _ in a0.joints.items(multi=True)])
    return ev


def _gen_mesh(rng):
    from copy import deepcopy
    from hippolyzer.lib.base.mesh import MeshAsset
    from hippolyzer.lib.base.datatypes import Vector3, Vector2, UUID
    m = MeshAsset.make_triangle()

    def lod(nverts, weights):
        # vertex 0 only uses values the quantised arrays represent exactly (range end points)
        d = {
            "Normal": [Vector3(*rng.choice([(-1.0, 1.0, -1.0), (1.0, -1.0, 1.0)]))] +
                      [Vector3(rng.uniform(-1, 1), rng.uniform(-1, 1), rng.uniform(-1, 1)) for _ in range(nverts - 1)],
            "PositionDomain": {"Max": [0.5, 0.5, 0.25], "Min": [-0.5, -0.5, -0.25]},
            "Position": [Vector3(*rng.choice([(0.0, 1.0, 0.0), (1.0, 1.0, 0.0)]))] +
                        [Vector3(rng.random(), rng.random(), rng.random()) for _ in range(nverts - 1)],
            "TexCoord0Domain": {"Max": [1.0, 1.0], "Min": [0.0, 0.0]},
            "TexCoord0": [Vector2(*rng.choice([(1.0, 0.0), (0.0, 1.0)]))] + [Vector2(rng.random(), rng.random()) for _ in range(nverts - 1)],
            "TriangleList": [[rng.randrange(nverts), rng.randrange(nverts), rng.randrange(nverts)] for _ in range(max(1, nverts - 2))],
        }
        if weights:
            d["Weights"] = [[(rng.randrange(0, 8), rng.random()) for _ in range(rng.randrange(1, 5))] for _ in range(nverts)]
        return d
    weights = rng.random() < 0.4
    for name in ("lowest_lod", "low_lod", "medium_lod", "high_lod", "physics_mesh"):
        if name == "high_lod" or rng.random() < 0.5:
            m.segments[name] = [lod(rng.randrange(3, 9), weights) for _ in range(rng.randrange(1, 4))]
            m.header[name] = {"offset": 0, "size": 0}
        else:
            m.segments.pop(name, None)
            m.header.pop(name, None)
    if rng.random() < 0.5:
        m.segments["physics_convex"]["HullList"] = [3]
        m.segments["physics_convex"]["Positions"] = [Vector3(rng.uniform(-1, 1), rng.uniform(-1, 1), rng.uniform(-1, 1)) for _ in range(3)]
    if weights:
        m.segments["skin"] = {"joint_names": ["mPelvis", "mTorso"], "bind_shape_matrix": [1.0] * 16,
                              "inverse_bind_matrix": [[0.5] * 16, [0.25] * 16], "pelvis_offset": 0.0}
        m.header["skin"] = {"offset": 0, "size": 0}
    if rng.random() < 0.5:
        m.header["creator"] = UUID(int=rng.getrandbits(128))
    # header keys in arbitrary order: placement must not depend on it
    keys = list(m.header)
    rng.shuffle(keys)
    m.header = {k: m.header[k] for k in keys}
    return m


def _mesh_event(rng):
    import hippolyzer.lib.base.serialization as se
    from hippolyzer.lib.base.mesh import LLMeshSerializer
    m0 = _gen_mesh(rng)
    ev = {"ev": "Mesh", "segs": [], "body": -1, "rt_model": False, "rt_bytes": False, "rt_exact": False}

    def go():
        ser = LLMeshSerializer()

        def dump(m):
            w = se.BufferWriter("!")
            w.write(ser, m)
            return w.copy_buffer()

        def load(b):
            r = se.BufferReader("!", b)
            m = r.read(ser)
            return m
        m1 = load(dump(m0))
        b1 = dump(m1)
        m2 = load(b1)
        # length of the header LLSD: parse it alone
        r = se.BufferReader("!", b1)
        hdr = r.read(se.BinaryLLSD)
        return m1, b1, m2, dump(m2), hdr, len(b1) - r.tell()
    st, r = common.impl_call(go)
    if st != "ok":
        ev["raised"] = r
        return ev
    m1, b1, m2, b2, hdr, body = r
    ev["segs"] = [{"name": k, "offset": v["offset"], "size": v["size"]} for k, v in hdr.items()
                  if isinstance(v, dict) and "offset" in v and "size" in v]
    ev["body"] = body
    ev["rt_model"] = bool(m2 == m1)
    ev["rt_bytes"] = bool(b2 == b1)
    ev["nseg"] = len(m1.segments)

    def anchors(m):
        out = []
        for name in sorted(m.segments):
            seg = m.segments[name]
            if isinstance(seg, list):
                for mat in seg:
                    out.append((name, tuple(mat["Normal"][0]), tuple(mat["Position"][0]), tuple(mat["TexCoord0"][0]),
                                [list(t) for t in mat["TriangleList"]], len(mat["Normal"]), len(mat["Position"]), len(mat["TexCoord0"]),
                                [[int(w[0]) for w in ws] for ws in mat.get("Weights", [])]))
            else:
                out.append((name, sorted(k for k in seg)))
        return out
    st, same = common.impl_call(lambda: anchors(m1) == anchors(m0) and sorted(m1.header) == sorted(m0.header))
    ev["rt_exact"] = bool(st == "ok" and same)
    return ev


def _asset_chunk(args):
    seed, n_anim, n_mesh = args
    import random
    import warnings
    warnings.simplefilter("ignore")
    rng = random.Random(seed)
    evs = []
    for i in range(n_anim):
        evs.append(_anim_event(rng, (1, 0) if i % 2 == 0 else (0, 1)))
    for _ in range(n_mesh):
        evs.append(_mesh_event(rng))
    return evs


def _assets(chk: Check):
    quick = chk.tier == "quick"
    n_anim, n_mesh = (40, 12) if quick else (600, 150)
    jobs = [(chk.rng.randrange(1 << 30), n_anim, n_mesh) for _ in range(common.NCPU)]
    chunks = common.parallel_map(_asset_chunk, jobs)
    agg = _Agg()
    traces = []
    for evs in chunks:
        good = []
        for ev in evs:
            chk.count()
            if "raised" in ev:
                part = "animation" if ev["ev"] == "Anim" else "mesh"
                agg.add((part, "codec raised"), 0, {"kind": "b2", "part": part, "clause": "codec raised"}, ev)
                continue
            ev.pop("nseg", None)
            good.append(ev)
        for i in range(0, len(good), 20):
            traces.append(good[i:i + 20])
    cfg = ('SPECIFICATION TraceSpec\nCONSTANTS Segs = {"x"} MaxEdits = 0 PreferRaw = FALSE\n'
           "POSTCONDITION TraceAccepted\nCHECK_DEADLOCK FALSE\n")
    acc, rej, results = common.validate_traces("AssetLayout_Trace", cfg, traces, chk.scratch, shards=4, tag="c20a")
    for r in results:
        chk.add_tlc(r, "AssetLayout_Trace")
        if r.assert_failed:
            raise MachineryError("asset driver violated an environment assumption:\n" + r.out[-1500:])
        for rec in r.printed():
            if isinstance(rec, dict) and "fail" in rec:
                t = traces[rec["tid"]]
                part = "animation" if rec["fail"].startswith("anim") else "mesh"
                agg.add((part, rec["fail"]), 0, {"kind": "b2", "part": part, "clause": rec["fail"]},
                        {"trace_with_the_failing_record": [{k: (v if k != "bytes" else v[:40]) for k, v in e.items()} for e in t[:20]]})
    for ti, j, ev in rej:
        agg.add(("asset trace rejected",), j, {"kind": "b2-reject", "part": "assets"}, {"event": {k: v for k, v in ev.items() if k != "bytes"}})
    agg.report(chk, "B2 assets")
    chk.cov["traces_validated_against_impl"] += len(traces)
    for t in traces:
        for e in t:
            if e["ev"] == "Anim" and e["joints"] and any(j["rot"] + j["pos"] for j in e["joints"]):
                chk.nontrivial(("anim", tuple(e["ver"]), e["emote"], tuple((j["name"], j["rot"], j["pos"]) for j in e["joints"]), e["ncons"]))
            if e["ev"] == "Mesh" and len(e["segs"]) >= 3:
                chk.nontrivial(("mesh", tuple((s["name"], s["size"]) for s in e["segs"])))
    chk.sample({"binding": "B2 asset records", "events": [{k: (v if k != "bytes" else v[:16]) for k, v in e.items()} for e in traces[0][:2]]})



# ----------------------------------------------------------------------------------------
# Mesh object life cycle (AssetLayout.tla, AssetLayout_MBT): built / parsed / parsed with raw
# segments; edit, drop the parsed form, serialise, re-parse.  B1: every edge replayed.
# ----------------------------------------------------------------------------------------

_LIFE_SEGS = ("high_lod", "physics_mesh", "physics_convex")
# contents that the quantised arrays represent exactly, one per version
_LIFE_POS = [(0.0, 0.0, 0.0), (1.0, 1.0, 1.0), (1.0, 0.0, 1.0), (0.0, 1.0, 1.0)]
_LIFE_BV = [(-1.0, 1.0, -1.0), (1.0, 1.0, 1.0), (1.0, -1.0, 1.0), (-1.0, -1.0, 1.0)]


def _life_content(seg, v):
    from hippolyzer.lib.base.datatypes import Vector3
    if seg == "physics_convex":
        return {"BoundingVerts": Vector3(*_LIFE_BV[v])}
    return {"TriangleList": [v, v + 1, v + 2], "Position": Vector3(*_LIFE_POS[v])}


def _life_apply(model, seg, v):
    c = _life_content(seg, v)
    if seg == "physics_convex":
        model.segments[seg]["BoundingVerts"][0] = c["BoundingVerts"]
    else:
        model.segments[seg][0]["TriangleList"][0] = c["TriangleList"]
        model.segments[seg][0]["Position"][0] = c["Position"]


def _life_version(segments, seg):
    """Projection: which version does this segment hold (-2: none of them / mixed)."""
    try:
        if seg == "physics_convex":
            t = tuple(segments[seg]["BoundingVerts"][0])
            return _LIFE_BV.index(t) if t in _LIFE_BV else -2
        tri = list(segments[seg][0]["TriangleList"][0])
        v = tri[0]
        if tri != [v, v + 1, v + 2] or not 0 <= v < len(_LIFE_POS) or tuple(segments[seg][0]["Position"][0]) != _LIFE_POS[v]:
            return -2
        return v
    except Exception:  # noqa
        return -2


def _life_build():
    from hippolyzer.lib.base.mesh import MeshAsset
    from hippolyzer.lib.base.datatypes import Vector3, Vector2
    m = MeshAsset()
    m.header = {"version": 1}

    def lod():
        return {"Normal": [Vector3(-1.0, 1.0, -1.0), Vector3(1.0, -1.0, 1.0), Vector3(1.0, 1.0, -1.0)],
                "PositionDomain": {"Max": [0.5, 0.5, 0.25], "Min": [-0.5, -0.5, -0.25]},
                "Position": [Vector3(0.0, 0.0, 0.0), Vector3(1.0, 0.0, 0.0), Vector3(0.0, 1.0, 0.0)],
                "TexCoord0Domain": {"Max": [1.0, 1.0], "Min": [0.0, 0.0]},
                "TexCoord0": [Vector2(0.0, 0.0), Vector2(1.0, 0.0), Vector2(0.0, 1.0)],
                "TriangleList": [[0, 1, 2], [2, 1, 0]]}
    m.segments["high_lod"] = [lod(), lod()]
    m.segments["physics_mesh"] = [lod()]
    m.segments["physics_convex"] = {"BoundingVerts": [Vector3(-1.0, 1.0, -1.0), Vector3(-1.0, -1.0, -1.0), Vector3(1.0, -1.0, -1.0)],
                                    "Max": [0.5, 0.5, 0.0], "Min": [-0.5, -0.5, 0.0]}
    for k in _LIFE_SEGS:
        m.header[k] = {"offset": 0, "size": 0}
    return m


_LG: Graph = None


def _life_replay_chunk(edge_ids):
    import hippolyzer.lib.base.serialization as se
    from hippolyzer.lib.base.mesh import LLMeshSerializer
    g = _LG
    out = []
    steps = 0

    def dump(m):
        w = se.BufferWriter("!")
        w.write(LLMeshSerializer(), m)
        return w.copy_buffer()

    def load(b, keep_raw):
        return se.BufferReader("!", b).read(LLMeshSerializer(include_raw_segments=keep_raw))
    for item in edge_ids:
        # (f, e): f is a non-tree edge into src(e) -- another history merging into the same abstract state (serialising
        # twice / re-parsing the same bytes again are the self-loop case); replayed as path_to(src f) + f + e
        loop, ei = item if isinstance(item, tuple) else (None, item)
        e = g.edges[ei]
        pre = (g.path_to(g.edges[loop]["_s"]) + [g.edges[loop]]) if loop is not None else g.path_to(e["_s"])
        hist = [pe["act"] for pe in pre] + [e["act"]]
        model, data, cur = _life_build(), None, {s: 0 for s in _LIFE_SEGS}
        bad = []
        for a in hist:
            steps += 1
            if a["n"] == "Edit":
                cur[a["s"]] = _life_version(model.segments, a["s"]) + 1
                st, r = common.impl_call(_life_apply, model, a["s"], cur[a["s"]])
            elif a["n"] == "Drop":
                st, r = common.impl_call(model.segments.pop, a["s"])
            elif a["n"] == "Serialize":
                st, r = common.impl_call(dump, model)
                if st == "ok":
                    data = r
            else:
                st, r = common.impl_call(load, data, a["raw"])
                if st == "ok":
                    model = r
            if st != "ok":
                bad.append(("codec raised", a, r))
                break
        obs = e["obs"]
        if not bad:
            for s in _LIFE_SEGS:
                if s in obs["dropped"]:
                    if s in model.segments or s not in model.raw_segments:
                        bad.append(("dropped segment: object state", s, sorted(model.segments)))
                elif _life_version(model.segments, s) != obs["cur"][s]:
                    bad.append(("current model holds another version", [s, obs["cur"][s]], _life_version(model.segments, s)))
            if sorted(model.raw_segments) != sorted(obs["rawHas"]):
                bad.append(("raw copies kept", sorted(obs["rawHas"]), sorted(model.raw_segments)))
            if all(v >= 0 for v in obs["wire"].values()):
                st, back = common.impl_call(load, data, False)
                if st != "ok":
                    bad.append(("codec raised", "parse of the serialisation", back))
                else:
                    for s in _LIFE_SEGS:
                        got = _life_version(back.segments, s)
                        if got != obs["wire"][s]:
                            bad.append(("serialisation does not hold the current model (edit lost)", [s, obs["wire"][s]], got))
                    if e["act"]["n"] == "Serialize":
                        # the law itself, on the real objects: parse(serialise(m)) = m (dropped segments have no parsed form in m)
                        same = all(back.segments.get(s) == model.segments.get(s) for s in _LIFE_SEGS if s not in obs["dropped"])
                        if not same:
                            bad.append(("parse(serialise(m)) differs from m", True, False))
        if bad:
            out.append({"history": hist, "mismatches": [[c, x, y if isinstance(y, (int, str, list, bool)) else repr(y)[:300]] for c, x, y in bad[:6]]})
    return steps, out


def _mesh_life(chk: Check):
    global _LG
    depth = 6 if chk.tier == "quick" else 8
    consts = 'CONSTANTS Segs = {"high_lod", "physics_mesh", "physics_convex"} MaxEdits = 2 PreferRaw = FALSE Depth = %d\nCONSTRAINT Bound\n' % depth
    common.model_check(chk, "AssetLayout_MBT", "SPECIFICATION Spec\n" + consts + "INVARIANT Faithful\nINVARIANT RawIsACopy\n",
                       "AssetLayout mesh life cycle d%d" % depth)
    recs = common.export_records(chk, "AssetLayout_MBT", "SPECIFICATION MSpec\n" + consts, "AssetLayout_MBT d%d" % depth)
    g = Graph(recs)
    _LG = g
    ids = g.reachable_edges()
    pairs = g.merge_pairs(12000 if chk.tier == "quick" else 120000)
    chk.cov["b1_merge_pairs_replayed"] = chk.cov.get("b1_merge_pairs_replayed", 0) + len(pairs)
    chk.notes.append("B1 mesh life cycle: %d edges + %d (merging edge, next edge) pairs of %d" % (len(ids), len(pairs), len(g.merge_pairs(10 ** 9))))
    ids = ids + pairs
    results = common.parallel_map(_life_replay_chunk, [c for c in (ids[i::common.NCPU * 2] for i in range(common.NCPU * 2)) if c])
    chk.count(sum(r[0] for r in results))
    chk.cov["traces_validated_against_impl"] += len(ids)
    chk.cov["b1_edges_replayed"] = chk.cov.get("b1_edges_replayed", 0) + len(ids)
    agg = _Agg()
    for _, bads in results:
        for b in bads:
            for c, x, y in b["mismatches"]:
                agg.add(("mesh life cycle", c), len(b["history"]),
                        {"kind": "b1", "part": "mesh-life", "clause": c}, {"history": b["history"], "expected": x, "got": y})
    agg.report(chk, "B1")
    for e in g.edges:
        if e["act"]["n"] == "Serialize" and (e["src"]["cur"] != e["src"]["raw"] and e["src"]["mode"] == "parsedRaw"):
            chk.nontrivial(("life", e["_s"]))
    e = g.edges[len(g.edges) * 2 // 3]
    chk.sample({"binding": "B1 mesh life cycle", "history": [p["act"] for p in g.path_to(e["_s"])] + [e["act"]], "expected": e["obs"]})



# ----------------------------------------------------------------------------------------
# Mesh vertex weights (AssetLayout.tla WeightsBytes/ParseWeights, AssetLayout_Weights): B3 table
# ----------------------------------------------------------------------------------------

def _mesh_weights(chk: Check):
    """Every sequence of <= 4 vertices with 0/1/3/4 influences each (low and high joint indices, raw weights whose bytes
    look like terminators): bytes computed by TLC; the real serialiser must write them, the real parser must read the
    model back from them, and the whole mesh must carry them through LLMeshSerializer."""
    import hippolyzer.lib.base.serialization as se
    from hippolyzer.lib.base.mesh import LLMeshSerializer
    cfg = os.path.join(chk.scratch, "weights.cfg")
    with open(cfg, "w") as f:
        f.write('SPECIFICATION WSpec\nCONSTANTS Segs = {"x"} MaxEdits = 0 PreferRaw = FALSE Counts = {0,1,3,4} MaxVerts = 4\n'
                "INVARIANT RoundTrip\nINVARIANT Length\n")
    res = common.run_tlc(os.path.join(common.SPECS, "AssetLayout_Weights.tla"), cfg, workers=1, scratch=chk.scratch)
    chk.require_model_ok(res, "AssetLayout_Weights (format laws + table)")
    if not res.ok:
        return
    rows = [r for r in res.printed() if isinstance(r, dict) and r.get("row") == "weights"]
    if len(rows) != 680:
        raise MachineryError("weights table has %d rows" % len(rows))
    templ = LLMeshSerializer.SEGMENT_TEMPLATES.get("high_lod")
    if templ is None or not hasattr(templ, "serialize") or not hasattr(templ, "deserialize"):
        raise MachineryError("LLMeshSerializer.SEGMENT_TEMPLATES['high_lod'] is gone: adapt the weights bridge")

    def norm(ws):
        return [[(int(w[0]), float(w[1])) for w in v] for v in ws]
    agg = _Agg()
    for r in rows:
        chk.count()
        model = [[(j, w16 / 0xFFff) for j, w16 in v] for v in r["verts"]]
        want = bytes(r["bytes"])
        shape = {"counts": r["counts"], "high_joints": r["hi"]}

        def fail(clause, **d):
            d.update(shape)
            agg.add(("mesh weights", clause), len(r["counts"]) * 10 + sum(r["counts"]),
                    {"kind": "b3", "part": "mesh-weights", "clause": clause}, d)
        st, got = common.impl_call(lambda: bytes(templ.serialize({"Weights": [list(v) for v in model]})["Weights"]))
        if st != "ok":
            fail("serialiser raised", exc=got)
        elif got != want:
            fail("serialised weights differ from WeightsBytes(model)", spec=list(want), impl=list(got))
        st, back = common.impl_call(lambda: norm(templ.deserialize({"Weights": want})["Weights"]))
        if st != "ok":
            fail("parser raised", exc=back, bytes=list(want))
        elif back != norm(model):
            fail("parse(WeightsBytes(model)) differs from the model", bytes=list(want), model=norm(model), parsed=back)
        # the same through a whole mesh asset
        def through_mesh():
            m = _life_build()
            m.segments["high_lod"][0]["Weights"] = [list(v) for v in model]
            w = se.BufferWriter("!")
            w.write(LLMeshSerializer(), m)
            m2 = se.BufferReader("!", w.copy_buffer()).read(LLMeshSerializer())
            return norm(m2.segments["high_lod"][0]["Weights"])
        st, back = common.impl_call(through_mesh)
        if st != "ok":
            fail("mesh codec raised", exc=back)
        elif back != norm(model):
            fail("weights change through parse(serialise(mesh))", model=norm(model), parsed=back)
        if 4 in r["counts"] and 0 in r["counts"]:
            chk.nontrivial(("weights", tuple(r["counts"]), r["hi"]))
    agg.report(chk, "B3")
    chk.cov["traces_validated_against_impl"] += len(rows)
    chk.sample({"binding": "B3 mesh weights row", "row": rows[199]})


def run(chk: Check):
    chk.cov["rule"] = ("transfer: B3 sender pieces at the real chunk size for payload lengths around every boundary; B1 every "
                       "arrival sequence with duplicates/foreign packets of the bounded model (scaled chunk size) delivered as "
                       "real wire messages to the real receivers, done()/reassemble_chunks() compared after every packet; "
                       "B2 production-size shuffled transfers validated by TLC. inventory: B3 one row per (schema, set of "
                       "optional fields carrying a value, flavour text/legacy/ais, link) -- TLC checks the round-trip laws on "
                       "the reflected field tables and prints token lines / key sets; each row is replayed with generated "
                       "values through to_str/from_str, to_llsd/from_llsd at node and model level; every enum member through "
                       "its lookup name. animation/mesh: generated models, layout (sizes, count positions, segment placement) "
                       "recomputed by TLC, round-trip equalities recorded; mesh object life cycle (built/parsed/parsed with raw segments; "
                       "edit, drop parsed form, serialise, re-parse): every edge of the bounded model replayed into real MeshAsset/"
                       "LLMeshSerializer objects; vertex weights: every sequence of <= 4 vertices with 0/1/3/4 influences, bytes computed by "
                       "TLC, compared with the real serialiser, parsed back by the real parser and carried through a whole mesh. non-trivial = duplicate/out-of-order arrivals, "
                       "multi-piece walks, rows with at least one optional field, animations with key frames, meshes with "
                       ">= 3 segments.")
    chk.assumptions += [
        "transfer: packets reach the receivers through MessageHandler.handle() as deserialized wire messages; the event loop "
        "is pumped between packets (the pump task's 5 s timeout never fires)",
        "transfer: the sender end-marks exactly the last piece and never sends a piece beyond it",
        "transfer B2: equality reassemble_chunks() == payload is a recorded observation; the payload bytes are Payload(n) of the spec",
        "inventory: field tables (order, kind, optional, llsd_only, include_none, llsd_name, nesting) and lookup names are "
        "reflected from the code; their meaning (Lines/Parse/Keys/FromKeys, AIS renames and link rules) is the spec's",
        "inventory: values stay inside the legacy format's domain: strings without TAB/CR/LF/'|' and without leading blanks, "
        "U32 masks/flags, whole-second dates, metadata of str/int/bool/real/uuid/list/map; llsd_only fields (category version, "
        "permissions.is_owner_group) cannot travel in the text (TextLaw says exactly that) and are expected to round-trip only in LLSD",
        "inventory AIS: a category has type CATEGORY; a link item has an asset id, type LINK and the permissions / sale info that "
        "from_llsd fills in (AIS does not carry them)",
        "inventory: equality is the models' own __eq__ (trusted observation); replay runs under TZ=America/New_York",
        "animation/mesh: float contents are opaque to TLC; the model under test is the parser's image of a generated model, plus "
        "an exactly representable part (binary fractions for version (0,1); range end points/unit quaternions/zero for version "
        "(1,0) and for mesh vertex 0) that must survive the first serialise-parse unchanged; zlib/LLSD bodies are opaque",
    ]
    _transfer(chk)
    _inventory(chk)
    _assets(chk)
    _mesh_life(chk)
    _mesh_weights(chk)
    chk.cov["exhaustive"] = True


# ---- growth beyond the listed property: the client/proxy inventory cache under message histories (InventoryCache.tla)
_run_codecs = run


def run(chk):
    _run_codecs(chk)
    from . import growth_inventorycache
    if chk.tier == "quick":
        common.growth(chk, "InventoryCache", growth_inventorycache.section, 3, 1, 2, 2, names=("a",), max_pairs=1500)
    else:
        common.growth(chk, "InventoryCache", growth_inventorycache.section, 3, 2, 2, 2, names=("a",),
                      variants=("client", "proxy", "proxyNF", "nocache"), max_pairs=6000)
