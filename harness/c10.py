"""C10 — quantised floats / fixed-point fields are bit-exact inverses on the wire domain (Quant.tla).

Binding (B3, spec->code): TLC walks every (instance, raw) state of Quant.tla, checks the property's
clauses in exact integer arithmetic and prints one table row per state; every row is replayed into the
real adapter (decode, re-encode, ends, zero, order) and compared with the row.  The instances are found
by reflection (every live QuantizedFloatBase / FixedPoint / QuantizedNumPyArray object created by importing
templates, llanim and mesh), never listed by hand.
"""
from __future__ import annotations

import gc
import json
import math
import os
import re
import struct
import types
from fractions import Fraction

from . import common
from .common import Check, MachineryError, run_tlc, impl_call, SPECS

INVS = ["TypeOK", "RoundTrip", "Monotone", "EndLo", "EndHi", "ClosedRange", "InRange", "ZeroRepresentable"]
MAX_PER_KIND = 12          # violations reported per (instance, clause)
INT32 = 2 ** 31 - 1


# ----------------------------------------------------------------------------------------
# reflection bridge: real objects -> instance records of Quant.tla
# ----------------------------------------------------------------------------------------

def _rational(x: float):
    """The declared bound as (Fraction, unit); it must be the nearest double of a small rational
    (unit "1") or of a small rational multiple of pi (unit "pi")."""
    f = Fraction(x).limit_denominator(1 << 20)
    if float(f) == x:
        return f, "1"
    r = Fraction(x / math.pi).limit_denominator(4096)
    if math.pi * r.numerator / r.denominator == x:
        return r, "pi"
    raise MachineryError("declared bound %r is neither a small rational nor a small multiple of pi" % (x,))


def _fmt(f: Fraction, unit: str) -> str:
    s = str(f.numerator) if f.denominator == 1 else "%d/%d" % (f.numerator, f.denominator)
    return s + ("pi" if unit == "pi" and f != 0 else "")


def _wire(prim) -> str:
    lo, hi = prim.min_val, prim.max_val
    return ("S" if lo < 0 else "U") + str((hi - lo).bit_length())


def _grid(raw_min, raw_max, lower: Fraction, upper: Fraction, steps: int):
    step = (upper - lower) / steps
    d = 1
    for f in (lower, upper, step):
        d = d * f.denominator // math.gcd(d, f.denominator)
    rec = {"rawMin": raw_min, "rawMax": raw_max, "lo": int(lower * d), "hi": int(upper * d),
           "A": int(lower * d), "B": int(step * d), "D": d}
    big = max(abs(rec["A"]) + rec["B"] * (raw_max - raw_min + 1), abs(rec["hi"]), d) * 4
    if big > INT32:
        raise Unfit("instance does not fit TLC's 32-bit integers: %r" % rec)
    return rec


class Unfit(Exception):
    pass


def discover():
    """-> (list of (record for TLC, python handle dict), one entry per distinct representation;
    list of descriptions of instances whose numbers do not fit TLC's integers)."""
    import hippolyzer.lib.base.serialization as se
    import hippolyzer.lib.base.templates  # noqa: F401  (creates the instances)
    import hippolyzer.lib.base.llanim as llanim
    import hippolyzer.lib.base.mesh  # noqa: F401
    for o in gc.get_objects():
        if isinstance(o, se.ForwardSerializable):
            o._ensure_evaled()
    found = {}
    unfit = []
    for o in gc.get_objects():
        try:
            if isinstance(o, llanim.QuantizedTime):
                prim = o._child_spec
                steps = round(1.0 / o.step_mag)
                if 1.0 / steps != o.step_mag:
                    raise MachineryError("step_mag %r is not 1/n" % o.step_mag)
                rec = _grid(prim.min_val, prim.max_val, Fraction(0), Fraction(1), steps)
                rec.update(kind="time", unit="dur", zm=bool(o.zero_median), closed=type(o) is llanim.QuantizedTime,
                           id="%s:%s[0,dur]/%d" % (type(o).__name__, _wire(prim), steps))
                h = {"obj": o, "lower": 0.0, "upper": None}
            elif isinstance(o, se.QuantizedFloatBase):
                if not hasattr(o, "lower") or not hasattr(o, "upper"):
                    raise MachineryError("unknown quantised-float class %r (no static range): teach c10.discover about it" % type(o))
                prim = o._child_spec
                steps = round(1.0 / o.step_mag)
                if 1.0 / steps != o.step_mag:
                    raise MachineryError("step_mag %r is not 1/n" % o.step_mag)
                (lf, lu), (uf, uu) = _rational(o.lower), _rational(o.upper)
                unit = uu if lf == 0 else lu
                if (lf != 0 and lu != unit) or (uf != 0 and uu != unit):
                    raise MachineryError("bounds of %r are in different units" % (o,))
                rec = _grid(prim.min_val, prim.max_val, lf, uf, steps)
                rec.update(kind="qfloat", unit=unit, zm=bool(o.zero_median), closed=type(o) is se.QuantizedFloat,
                           id="%s:%s[%s,%s]/%d%s" % (type(o).__name__, _wire(prim), _fmt(lf, unit), _fmt(uf, unit), steps,
                                                      "zm" if o.zero_median else ""))
                h = {"obj": o, "lower": o.lower, "upper": o.upper}
            elif isinstance(o, se.FixedPoint):
                prim = o._ser_spec
                frac = o._frac_bits
                lower, upper = Fraction(o._min_val), Fraction(o._max_val)
                # value(raw) = raw / 2^frac - (max if signed)
                if o._signed and o._min_val != -o._max_val:
                    raise MachineryError("FixedPoint with asymmetric signed range")
                rec = _grid(prim.min_val, prim.max_val, lower, upper, int((upper - lower) * (1 << frac)))
                rec.update(kind="fixed", unit="1", zm=False, closed=False,
                           id="FixedPoint:%s%s[%d,%d]/2^%d" % (_wire(prim), "s" if o._signed else "", o._min_val, o._max_val, frac))
                h = {"obj": o, "lower": float(o._min_val), "upper": float(o._max_val), "prim": prim}
            elif isinstance(o, se.QuantizedNumPyArray):
                bits = o.dtype.itemsize * 8
                steps = round(1.0 / o.step_mag)
                if 1.0 / steps != o.step_mag or o.dtype.kind != "u":
                    raise MachineryError("QuantizedNumPyArray: unexpected step/dtype")
                (lf, lu), (uf, uu) = _rational(o.lower), _rational(o.upper)
                if "pi" in (lu, uu):
                    raise MachineryError("numpy instance in pi units")
                rec = _grid(0, 2 ** bits - 1, lf, uf, steps)
                rec.update(kind="numpy", unit="1", zm=False, closed=type(o) is se.QuantizedNumPyArray,
                           id="QuantizedNumPyArray:U%d[%s,%s]/%d" % (bits, _fmt(lf, "1"), _fmt(uf, "1"), steps))
                h = {"obj": o, "lower": o.lower, "upper": o.upper}
            else:
                continue
        except MachineryError:
            raise
        except Unfit as e:
            if str(e) not in unfit:
                unfit.append(str(e))
            continue
        except ReferenceError:
            continue
        except Exception as e:  # reflection bridge broke
            raise MachineryError("cannot reflect %r: %s: %s" % (type(o), type(e).__name__, e))
        key = json.dumps(rec, sort_keys=True)
        if key not in found:
            h["n_objects"] = 0
            h["objects"] = []
            found[key] = (rec, h)
        found[key][1]["n_objects"] += 1
        found[key][1]["objects"].append(o)
    insts = sorted(found.values(), key=lambda p: p[0]["id"])
    ids = [r["id"] for r, _ in insts]
    if len(set(ids)) != len(ids):
        raise MachineryError("instance ids are not unique: %r" % ids)
    kinds = {r["kind"] for r, _ in insts}
    if len(insts) < 10 or kinds != {"qfloat", "fixed", "numpy", "time"}:
        raise MachineryError("reflection found only %d instances of kinds %s" % (len(insts), sorted(kinds)))
    insts = sorted(insts + handwritten(), key=lambda p: p[0]["id"])
    return insts, unfit


# Quantisers written by hand outside the serialization combinators cannot be found through a class: they are
# declared here (what they are on the wire, and how the real code is entered), and source_candidates() lists every
# function of hippolyzer/lib/base that multiplies or divides by a quantiser-looking constant so that an
# undeclared one shows up in the evidence.
def _vertex_weights():
    import hippolyzer.lib.base.mesh as mesh
    import hippolyzer.lib.base.serialization as se
    cls = mesh.VertexWeights

    def dec(r):
        got = se.BufferReader("<", struct.pack("<BHB", 3, r, cls.INFLUENCE_TERM)).read(cls)
        if len(got) != 1 or got[0][0] != 3:
            raise ValueError("expected one influence of joint 3, got %r" % (got,))
        return got[0][1]

    def enc(x):
        w = se.BufferWriter("<")
        w.write(cls, [(3, x)])
        joint, raw, term = struct.unpack("<BHB", w.copy_buffer())
        if joint != 3 or term != cls.INFLUENCE_TERM:
            raise ValueError("unexpected framing")
        return raw
    return dec, enc


HANDWRITTEN = [
    {"id": "VertexWeights:U16[0,1]/65535 (mesh.py, skin weights)", "wire": (0, 65535), "lower": 0.0, "upper": 1.0, "steps": 65535,
     "codec": _vertex_weights, "source": {"mesh:VertexWeights.serialize", "mesh:VertexWeights.deserialize"}},
]


# multiplications / divisions by such constants that were read and are not float quantisation
REVIEWED_NOT_QUANTISERS = {
    "objects:gridxy_to_handle": "integer region grid coordinates times 256 metres",
    "udpdeserializer:UDPMessageDeserializer.zero_code_expand": "a run of 255 zero bytes",
}


def handwritten():
    out = []
    for hw in HANDWRITTEN:
        try:
            rec = _grid(hw["wire"][0], hw["wire"][1], Fraction(hw["lower"]), Fraction(hw["upper"]), hw["steps"])
            hw["codec"]()
        except Exception as e:
            raise MachineryError("hand-written quantiser %s cannot be reached: %s: %s" % (hw["id"], type(e).__name__, e))
        rec.update(kind="hand", unit="1", zm=False, closed=True, id=hw["id"])
        out.append((rec, {"obj": None, "codec": hw["codec"], "lower": hw["lower"], "upper": hw["upper"], "n_objects": 1, "objects": []}))
    return out


def source_candidates():
    """Functions of hippolyzer/lib/base (outside serialization.py) that multiply / divide by 255, 32767, 65535 ...:
    -> (declared in HANDWRITTEN, not declared)."""
    import ast
    consts = {255, 256, 32767, 32768, 65535, 65536}
    root = os.path.join(common.REPO, "hippolyzer", "lib", "base")
    hits = set()
    for dp, _, fns in sorted(os.walk(root)):
        for fn in sorted(fns):
            if not fn.endswith(".py") or fn == "serialization.py":
                continue
            try:
                tree = ast.parse(open(os.path.join(dp, fn), "rb").read())
            except Exception:
                continue

            def visit(node, qual):
                for child in ast.iter_child_nodes(node):
                    if isinstance(child, (ast.ClassDef, ast.FunctionDef, ast.AsyncFunctionDef)):
                        visit(child, qual + [child.name])
                        continue
                    for sub in ast.walk(child):
                        if isinstance(sub, ast.BinOp) and isinstance(sub.op, (ast.Mult, ast.Div)):
                            for side in (sub.left, sub.right):
                                if isinstance(side, ast.Constant) and isinstance(side.value, (int, float)) and \
                                        not isinstance(side.value, bool) and side.value in consts:
                                    hits.add("%s:%s" % (fn[:-3], ".".join(qual) or "<module>"))
                        if isinstance(sub, ast.Assign) and isinstance(sub.value, ast.BinOp) and isinstance(sub.value.op, ast.Div) and \
                                isinstance(sub.value.right, (ast.Constant, ast.Name)) and qual:
                            r = sub.value.right
                            if (isinstance(r, ast.Constant) and r.value in consts) or (isinstance(r, ast.Name) and ("MAX" in r.id or "STEP" in r.id)):
                                hits.add("%s:%s" % (fn[:-3], ".".join(qual)))
            visit(tree, [])
    declared = set().union(*[hw["source"] for hw in HANDWRITTEN])
    known = {h for h in hits if any(h == d or d.startswith(h + ".") or h.startswith(d.rsplit(".", 1)[0]) for d in declared)}
    return sorted(known), sorted(h for h in hits - known if h not in REVIEWED_NOT_QUANTISERS)


def discover_composites(insts):
    """Every live spec object that reads/writes several quantised components as ONE field: quantised /
    fixed-point tuple coords, the vectorised arrays through their byte child, and any Adapter whose child
    (through further adapters) is one of those or a scalar quantiser.  -> list of (record, handle)."""
    import hippolyzer.lib.base.serialization as se
    obj_inst = {}
    index = {}
    for n, (rec, h) in enumerate(insts):
        index[rec["id"]] = n + 1
        for o in h["objects"]:
            obj_inst[id(o)] = rec

    def parts(spec, chain):
        """-> (component scalar records, greedy?) of a spec, or None"""
        if isinstance(spec, se.ForwardSerializable):
            spec._ensure_evaled()
            spec = spec._wrapped
        chain.append(type(spec).__name__ if not isinstance(spec, type) else spec.__name__)
        if isinstance(spec, se.EncodedTupleCoord):
            recs = [obj_inst.get(id(x)) for x in spec._elem_specs]
            return (recs, False) if recs and all(r is not None for r in recs) else None
        if isinstance(spec, se.QuantizedNumPyArray):
            child = spec._child_spec
            if id(spec) in obj_inst and isinstance(child, se.NumPyArray) and isinstance(child._child_spec, se.BytesGreedy):
                return [obj_inst[id(spec)]] * int(child.elems), True
            return None
        if isinstance(spec, (se.QuantizedFloatBase, se.FixedPoint)):
            r = obj_inst.get(id(spec))
            return ([r], False) if r is not None and r["kind"] != "time" else None
        if isinstance(spec, se.Adapter):
            return parts(spec._child_spec, chain)
        return None

    found = {}
    for o in gc.get_objects():
        try:
            if isinstance(o, (se.QuantizedFloatBase, se.FixedPoint)):
                continue            # scalars: every raw is walked by the scalar machine
            if not isinstance(o, (se.EncodedTupleCoord, se.QuantizedNumPyArray, se.Adapter)):
                continue
            chain = []
            p = parts(o, chain)
        except ReferenceError:
            continue
        except Exception as e:
            raise MachineryError("cannot reflect composite %r: %s: %s" % (type(o), type(e).__name__, e))
        if p is None:
            continue
        recs, greedy = p
        cid = "%s<%s>" % ("(".join(chain) + ")" * (len(chain) - 1), ", ".join(r["id"] for r in recs))
        if cid not in found:
            found[cid] = ({"id": cid, "comps": [index[r["id"]] for r in recs], "extra": []},
                          {"obj": o, "recs": recs, "greedy": greedy, "n_objects": 0})
        found[cid][1]["n_objects"] += 1
    comps = [found[k] for k in sorted(found)]
    if len(comps) < 5:
        raise MachineryError("reflection found only %d composite representations" % len(comps))
    return comps


def _comp_struct(recs):
    chars = ""
    for r in recs:
        c = {255: "B", 65535: "H"}.get(r["rawMax"] - r["rawMin"])
        if c is None:
            raise MachineryError("component on an unexpected wire type: %s" % r["id"])
        chars += c.lower() if r["rawMin"] < 0 else c
    return struct.Struct("<" + chars)


def _comp_roundtrip(se, h, tuples, pod):
    """Drive the real composite through its byte form.  -> list of (decoded floats, re-encoded raws) per tuple,
    or ("raise", message)."""
    o, st = h["obj"], _comp_struct(h["recs"])
    n = len(h["recs"])

    def one(payload):
        r = se.BufferReader("<", payload, pod=pod)
        v = r.read(o)
        if len(r):
            raise ValueError("%d bytes left unread" % len(r))
        w = se.BufferWriter("<")
        w.write(o, v)
        return v, bytes(w.copy_buffer())
    if h["greedy"]:
        v, out = one(b"".join(st.pack(*t) for t in tuples))
        rows = [tuple(float(x) for x in row) for row in v]
        if len(rows) != len(tuples) or len(out) != st.size * len(tuples):
            raise ValueError("decode/encode changed the number of elements")
        return [(rows[i][:n], st.unpack_from(out, i * st.size)) for i in range(len(tuples))]
    res = []
    for t in tuples:
        v, out = one(st.pack(*t))
        if len(out) != st.size:
            raise ValueError("re-encoded to %d bytes, not %d" % (len(out), st.size))
        res.append((tuple(float(x) for x in tuple(v))[:n], st.unpack(out)))
    return res


# ----------------------------------------------------------------------------------------
# parametric ranges
# ----------------------------------------------------------------------------------------

def _f32(x: float) -> float:
    try:
        return struct.unpack("<f", struct.pack("<f", x))[0]
    except OverflowError:
        return math.inf


def _tok(x: float) -> str:
    f = Fraction(x)
    return "%d/%d" % (f.numerator, f.denominator)


def param_ranges(rng, quick: bool):
    """The sweep of run-time ranges.  Every bound is a Python float (what the code is handed); the
    specification gets its exact value.  Domain rule: finite bounds, lo <= hi, |bounds| <= 1e150, a
    non-degenerate range is at least 2^-149 wide, and its width is representable: lo + (hi - lo) == hi in double
    arithmetic (true of every lo = 0 and every symmetric range, and of every fixed range in the code base).
    Ranges outside that rule (e.g. [-1e-06, 2e-06], whose top raw decodes to 2.0000000000000003e-06 on the
    pinned tree) are outside the property's stated domain (fixed template ranges + key-frame times [0, duration]);
    VERIF_C10_WIDE=1 adds them anyway."""
    pairs = []
    for k in range(1, 121):                      # (i) every half second up to a minute
        pairs.append((0.0, k * 0.5))
    for hi in (7.0, 13.0, 31.0, 59.0, 0.1, 0.3, 1.0 / 3.0, 29.97, 59.94, 2.718281828, 3.3, 12.34, 47.11, 0.7, 1.1,
               _f32(0.1), _f32(29.97), _f32(1.0 / 3.0), _f32(47.11)):
        pairs.append((0.0, hi))
    for hi in (1e-6, 1e-7, 5e-7, 9.5e-7, 1.5e-6, _f32(1e-6), _f32(1e-7), 2.0 ** -20, 2.0 ** -30, 2.0 ** -60, 2.0 ** -100,
               2.0 ** -126, 2.0 ** -149, 3e-39):   # (ii) tiny
        pairs.append((0.0, hi))
    for hi in (86400.0, 1e6, 2.0 ** 24 + 1, 1e12, _f32(1e30), 3.4028234663852886e38, 1e150):   # (iii) huge
        pairs.append((0.0, hi))
    pairs += [(1.0, 17.5), (-3.0, 5.0), (-128.0, 384.0), (-256.0, 4096.0), (0.1, 0.3), (-0.5, 1.5), (100.0, 100.5),
              (-16.5, 0.0), (1e6, 3e6), (-2.0 ** -20, 2.0 ** -19)]
    if os.environ.get("VERIF_C10_WIDE"):
        pairs += [(-1e-6, 2e-6), (0.1, 0.7), (1e-7, 3e-7)]
    pairs += [(-h, h) for h in (1.0, 16.5, 57.0, 3.3, 1e-6, 1e-7, 0.1, 1e30, 64.0, 5.0)]
    pairs += [(0.0, 0.0), (1.0, 1.0), (-2.5, -2.5), (16.5, 16.5), (1e-7, 1e-7)]   # (iv) degenerate
    for _ in range(6 if quick else 60):
        hi = _f32(math.exp(rng.uniform(math.log(1e-9), math.log(1e9))))
        pairs.append((0.0, hi))
        if rng.random() < 0.3:
            pairs.append((-hi, hi))
    out, seen = [], set()
    for lo, hi in pairs:
        if (lo, hi) in seen or (lo + (hi - lo) != hi and not os.environ.get("VERIF_C10_WIDE")):
            continue
        seen.add((lo, hi))
        out.append({"id": "[%r,%r]" % (lo, hi), "lo": _tok(lo), "hi": _tok(hi), "sym": bool(lo == -hi and hi > 0),
                    "lo0": bool(lo == 0.0), "_lo": lo, "_hi": hi, "_f32": lo == 0.0 and _f32(hi) == hi})
    return out


PARAM_FAMS = [
    # TLC family record                                                           how the real code is reached
    {"id": "time:U16", "kind": "time", "rawMin": 0, "rawMax": 65535, "zmAuto": False, "lo0only": True},
    {"id": "qfloat:U16", "kind": "qfloat", "rawMin": 0, "rawMax": 65535, "zmAuto": True, "lo0only": False},
    {"id": "qfloat:U8", "kind": "qfloat", "rawMin": 0, "rawMax": 255, "zmAuto": True, "lo0only": False},
    {"id": "qfloat:S16", "kind": "qfloat", "rawMin": -32768, "rawMax": 32767, "zmAuto": True, "lo0only": False},
    {"id": "numpy:U16", "kind": "numpy", "rawMin": 0, "rawMax": 65535, "zmAuto": False, "lo0only": False},
]


def _anim_bytes(duration: float, raws, rot=(1, 2, 3)):
    """An animation file (version 1.0) with one joint whose rotation and position key-frames carry the
    given raw times; written with Python's struct, not with the code under test."""
    b = struct.pack("<HHif", 1, 0, 4, duration) + b"\x00" + struct.pack("<ffiffI", 0.0, 0.0, 0, 0.0, 0.0, 0)
    b += struct.pack("<I", 1) + b"mPelvis\x00" + struct.pack("<i", 3)
    b += struct.pack("<i", len(raws)) + b"".join(struct.pack("<HHHH", t, *rot) for t in raws)
    b += struct.pack("<i", len(raws)) + b"".join(struct.pack("<HHHH", t, *rot) for t in raws)
    b += struct.pack("<i", 0)
    return b


def _anim_times(b: bytes, n: int):
    """-> (rotation key-frame raw times, position key-frame raw times) of a file laid out by _anim_bytes"""
    off = 8 + 4 + 1 + 24 + 4 + 8 + 4
    cnt = struct.unpack_from("<i", b, off)[0]
    if cnt != n or len(b) != off + 4 + 8 * n + 4 + 8 * n + 4:
        raise ValueError("animation re-serialised to an unexpected layout (%d bytes, %d key-frames)" % (len(b), cnt))
    rot = [struct.unpack_from("<H", b, off + 4 + 8 * i)[0] for i in range(n)]
    off2 = off + 4 + 8 * n
    pos = [struct.unpack_from("<H", b, off2 + 4 + 8 * i)[0] for i in range(n)]
    return rot, pos


def _param_drivers(fam, rg, time_obj):
    """-> list of (path name, decode_all(raws) -> floats, encode_all(floats) -> raws) reaching the real code."""
    import numpy as np
    import hippolyzer.lib.base.serialization as se
    import hippolyzer.lib.base.llanim as llanim
    lo, hi = rg["_lo"], rg["_hi"]
    out = []
    if fam["kind"] == "time":
        ctx, root = _time_ctx(hi)
        out.append(("QuantizedTime.decode/encode", lambda raws: [time_obj.decode(r, ctx) for r in raws],
                    lambda xs, _k=root: [time_obj.encode(x, ctx) for x in xs]))
        if rg["_f32"]:
            def dec(raws):
                a = llanim.Animation.from_bytes(_anim_bytes(hi, raws))
                if _KEEP:
                    _ALIVE.append(a)
                j = a.joints["mPelvis"]
                r, p = [k.time for k in j.rot_keyframes], [k.time for k in j.pos_keyframes]
                if len(r) != len(raws) or r != p or a.duration != hi:
                    raise ValueError("rotation and position key-frame times / duration differ after parsing")
                return r

            def enc(xs):
                a = llanim.Animation.from_bytes(_anim_bytes(hi, [0] * len(xs)))
                j = a.joints["mPelvis"]
                for k, kp, x in zip(j.rot_keyframes, j.pos_keyframes, xs):
                    k.time = x
                    kp.time = x
                r, p = _anim_times(bytes(a.to_bytes()), len(xs))
                if r != p:
                    raise ValueError("rotation and position key-frame times re-serialise differently")
                return r
            out.append(("Animation.from_bytes/to_bytes", dec, enc))
    elif fam["kind"] == "qfloat":
        prim = {(0, 65535): se.U16, (0, 255): se.U8, (-32768, 32767): se.S16}[(fam["rawMin"], fam["rawMax"])]
        q = _DRV.get((fam["id"], rg["id"])) if _KEEP else None
        if q is None:
            q = se.QuantizedFloat(prim, lo, hi)
            if _KEEP:
                _DRV[(fam["id"], rg["id"])] = q
        out.append(("QuantizedFloat(prim, lo, hi)", lambda raws: [q.decode(r, None) for r in raws],
                    lambda xs: [q.encode(x, None) for x in xs]))
    else:
        q = _DRV.get((fam["id"], rg["id"])) if _KEEP else None
        if q is None:
            q = se.QuantizedNumPyArray(se.NumPyArray(se.BytesGreedy(), np.dtype("<u2"), 1), lo, hi)
            if _KEEP:
                _DRV[(fam["id"], rg["id"])] = q
        out.append(("QuantizedNumPyArray(lo, hi)",
                    lambda raws: [float(v) for v in np.asarray(q.decode(np.array(raws, dtype=np.dtype("<u2")), None)).reshape(-1)],
                    lambda xs: [int(v) for v in np.asarray(q.encode(np.array(xs, dtype=np.float64), None)).reshape(-1)]))
    return out


_PJOBS = None
_KEEP = False      # history runs: constructed instances and parsed animations stay alive for the whole process
_DRV = {}
_ALIVE = []


def _param_job(ji):
    fam, rg, rows, time_obj = _PJOBS[ji]
    bad, n = [], 0
    lo, hi = Fraction(rg["_lo"]), Fraction(rg["_hi"])
    sym = rows[0]["sym"]
    off, scale = (Fraction(0), hi) if sym else (lo, hi - lo)

    def exact(num, den):
        return off + scale * Fraction(num, den)
    raws = [r["raw"] for r in rows]
    st, drivers = impl_call(_param_drivers, fam, rg, time_obj)
    if st != "ok":
        return ji, 0, [("construct-raise", "constructor", raws[0], drivers)]
    for path, dec, enc in drivers:
        st, xs = impl_call(dec, raws)
        if st != "ok" or len(xs) != len(rows):
            bad.append(("decode-raise", path, raws[0], xs))
            continue
        if any(not isinstance(x, float) or x != x or x in (math.inf, -math.inf) for x in xs):
            bad.append(("decode-not-finite-float", path, raws[0], repr(xs[:4])))
            continue
        st, back = impl_call(enc, xs)
        if st != "ok" or len(back) != len(rows):
            bad.append(("encode-raise", path, raws[0], back))
            continue
        prev = None
        for row, x, y in zip(rows, xs, back):
            n += 1
            raw = row["raw"]
            if row["deg"]:
                if x != rg["_lo"]:
                    bad.append(("degenerate-decode", path, raw, {"decoded": x, "lo": rg["_lo"]}))
            else:
                want = exact(row["val"], row["D"])
                step = scale * Fraction(2 if sym else 1, row["D"])
                if abs(Fraction(x) - want) * 4 > step:
                    bad.append(("grid", path, raw, {"decoded": x, "exact": float(want)}))
                if row["end"] == "lo" and x != rg["_lo"]:
                    bad.append(("end-decode", path, raw, {"decoded": x, "declared": rg["_lo"]}))
                if row["end"] == "hi" and x != rg["_hi"]:
                    bad.append(("end-decode", path, raw, {"decoded": x, "declared": rg["_hi"]}))
                if row["zero"] and x != 0.0:
                    bad.append(("zero-decode", path, raw, {"decoded": x}))
                if prev is not None and not (prev <= x):
                    bad.append(("monotone", path, raw, {"decoded": x, "previous": prev}))
                prev = x
            if isinstance(y, bool) or int(y) != y or int(y) != row["re"]:
                bad.append(("roundtrip", path, raw, {"decoded": x, "re_encoded": y, "spec": row["re"]}))
        # ends as literals, and the NEAREST probes (stand-alone runs only: history runs look for remembered state)
        probes = []
        for row in ([] if _KEEP else rows):
            if row["deg"]:
                if row["raw"] == raws[0]:
                    probes.append((row, rg["_lo"], [row["re"]], "degenerate-encode"))
                continue
            if row["end"]:
                probes.append((row, rg["_lo"] if row["end"] == "lo" else rg["_hi"], [row["re"]], "end-encode"))
            for pr in row["near"]:
                probes.append((row, float(exact(pr["n4"], 4 * row["D"])), pr["ok"], "nearest"))
        st, got = impl_call(enc, [p[1] for p in probes])
        if st != "ok" or len(got) != len(probes):
            bad.append(("encode-raise", path, raws[0], got))
            continue
        for (row, v, ok, kind), y in zip(probes, got):
            n += 1
            if isinstance(y, bool) or int(y) != y or int(y) not in ok:
                bad.append((kind, path, row["raw"], {"value": v, "encoded": y, "spec_allows": ok}))
    return ji, n, bad


_HIST = None


def _history_job(si):
    """One schedule in one process: every fixed instance and every (family, range) pair, one after the other, through
    the same long-lived objects; each step is compared with the same TLC rows as when it runs alone."""
    global _JOBS, _KEEP
    name, steps = _HIST["scheds"][si]
    _JOBS = _HIST["sjobs"]
    _KEEP = True
    out, total, prev = [], 0, None
    for pos, st in enumerate(steps):
        if st["k"] == "inst":
            j = _HIST["sjob_of"][st["a"]]
            _, n, bad = _replay_job(j)
            who = ("inst", _JOBS[j][0]["id"])
            bad = [(k, "Adapter.decode/encode", raw, d) for k, raw, d in bad]
        else:
            j = _HIST["pjob_of"][(st["a"], st["b"])]
            _, n, bad = _param_job(j)
            who = ("param", _PJOBS[j][0]["id"], _PJOBS[j][1]["id"])
        total += n
        for b in bad[:40]:
            out.append((pos, who, prev) + tuple(b))
        prev = who
    return si, total, out


def _schedules(chk, insts, ranges, ptables, tables):
    """Participants and the orders in which one process runs them."""
    parts = []
    sjobs, sjob_of = [], {}
    for n, (rec, h) in enumerate(insts):
        rows = tables.get(rec["id"])
        if rec["kind"] == "time" or not rows:
            continue
        lo, hi = rec["rawMin"], rec["rawMax"]
        mid = lo + (hi - lo) // 2
        want = {lo, lo + 1, lo + 2, lo + 3, mid - 2, mid - 1, mid, mid + 1, mid + 2, hi - 2, hi - 1, hi}
        want |= {lo + (j * (hi - lo)) // 13 for j in range(1, 13)} | {r for r in (127, 128, 129, 253, 254, 255, 256) if lo <= r <= hi}
        sub = [r for r in rows if r["raw"] in want]
        sjob_of[n + 1] = len(sjobs)
        sjobs.append((rec, h, sub, None))
        parts.append((float(h["upper"]), float(h["lower"]), hi - lo,
                      {"k": "inst", "a": n + 1, "b": 0, "w": hi - lo, "r": [_tok(float(h["lower"])), _tok(float(h["upper"]))]}))
    fam_idx = {f["id"]: i + 1 for i, f in enumerate(PARAM_FAMS)}
    rng_idx = {r["id"]: i + 1 for i, r in enumerate(ranges)}
    pjob_of = {}
    for j, (fam, rg, rows, _) in enumerate(_PJOBS):
        pjob_of[(fam_idx[fam["id"]], rng_idx[rg["id"]])] = j
        w = fam["rawMax"] - fam["rawMin"]
        parts.append((rg["_hi"], rg["_lo"], w, {"k": "param", "a": fam_idx[fam["id"]], "b": rng_idx[rg["id"]], "w": w,
                                                  "r": [rg["lo"], rg["hi"]]}))
    parts.sort(key=lambda p: (p[0], p[1], p[2], p[3]["k"], p[3]["a"], p[3]["b"]))
    asc = [p[3] for p in parts]
    desc = list(reversed(asc))
    inter = []
    i, j = 0, len(asc) - 1
    while i <= j:
        inter.append(asc[i])
        if i != j:
            inter.append(asc[j])
        i, j = i + 1, j - 1
    shuf = list(asc)
    chk.rng.shuffle(shuf)
    scheds = [("ascending (narrow width first)", asc), ("descending (wide width first)", desc),
              ("interleaved from both ends", inter), ("shuffled", shuf)]
    return scheds, sjobs, sjob_of, pjob_of


_CJOBS = None


def _comp_job(ji):
    import hippolyzer.lib.base.serialization as se
    rec, h, rows = _CJOBS[ji]
    bad, n = [], 0
    units = [{"1": Fraction(1), "pi": Fraction(math.pi)}[r["unit"]] for r in h["recs"]]
    for pod in (False, True):
        tuples = [tuple(r["raws"]) for r in rows]
        st, res = impl_call(_comp_roundtrip, se, h, tuples, pod)
        if st != "ok" and h["greedy"]:
            bad.append(("composite-raise", pod, list(tuples[0]), res))
            continue
        if st != "ok":
            # find the tuples that raise one by one
            res = []
            for t in tuples:
                s1, r1 = impl_call(_comp_roundtrip, se, h, [t], pod)
                res.append(r1[0] if s1 == "ok" else ("raise", r1))
        for row, got in zip(rows, res):
            n += 1
            if got[0] == "raise":
                bad.append(("composite-raise", pod, row["raws"], got[1]))
                continue
            floats, back = got
            if len(floats) != len(row["raws"]) or any(x != x or x in (math.inf, -math.inf) for x in floats):
                bad.append(("composite-decode", pod, row["raws"], {"decoded": repr(floats)}))
                continue
            off = [k for k, x in enumerate(floats)
                   if not _close(x, row["vals"][k], h["recs"][k], units[k].numerator, units[k].denominator)]
            if off:
                bad.append(("composite-decode", pod, row["raws"], {"decoded": list(floats), "component": off[0],
                                                                  "spec_num": row["vals"][off[0]], "D": h["recs"][off[0]]["D"]}))
            if list(back) != list(row["re"]):
                bad.append(("composite-roundtrip", pod, row["raws"], {"decoded": list(floats), "re_encoded": list(back), "spec": row["re"]}))
    return ji, n, bad


# ----------------------------------------------------------------------------------------
# real-code observation points
# ----------------------------------------------------------------------------------------

def _time_ctx(duration: float):
    import hippolyzer.lib.base.serialization as se
    root = se.ParseContext(types.SimpleNamespace(duration=duration))
    return se.ParseContext({}, parent=root), root


def _codec(rec, h, duration=None):
    """-> (decode(raw) -> float, encode(float) -> int, keepalive)"""
    import hippolyzer.lib.base.serialization as se
    o = h["obj"]
    if rec["kind"] == "qfloat":
        return (lambda r: o.decode(r, None)), (lambda x: o.encode(x, None)), None
    if rec["kind"] == "time":
        ctx, root = _time_ctx(duration)
        return (lambda r: o.decode(r, ctx)), (lambda x: o.encode(x, ctx)), root
    if rec["kind"] == "fixed":
        st = struct.Struct("<" + {1: "B", 2: "H", 4: "I"}[h["prim"].calc_size()])

        def dec(r):
            return se.BufferReader("<", st.pack(r)).read(o)

        def enc(x):
            w = se.BufferWriter("<")
            w.write(o, x)
            return st.unpack(w.copy_buffer())[0]
        return dec, enc, None
    if rec["kind"] == "hand":
        dec, enc = h["codec"]()
        return dec, enc, None
    raise MachineryError("no scalar codec for kind %s" % rec["kind"])


# ----------------------------------------------------------------------------------------
# replay of the TLC table
# ----------------------------------------------------------------------------------------

_JOBS = None     # list of (rec, handle, rows, duration)


def _close(x: float, val: int, rec, un: int, ud: int) -> bool:
    """|x - val/D*unit| <= a quarter step, in exact integer arithmetic."""
    p, q = x.as_integer_ratio()
    return abs(p * rec["D"] * ud - val * un * q) * 4 <= rec["B"] * un * q


def _replay_job(ji):
    rec, h, rows, duration = _JOBS[ji]
    bad = []          # (kind, raw, detail)
    n = 0
    unit = {"1": Fraction(1), "pi": Fraction(math.pi), "dur": Fraction(duration or 1.0)}[rec["unit"]]
    un, ud = unit.numerator, unit.denominator
    lower = h["lower"]
    upper = duration if rec["kind"] == "time" else h["upper"]
    if rec["kind"] == "numpy":
        import numpy as np
        o = h["obj"]
        raws = np.array([r["raw"] for r in rows], dtype=o.dtype)
        st, xs = impl_call(o.decode, raws, None)
        if st != "ok":
            return ji, 0, [("decode-raise", rows[0]["raw"], xs)]
        st, ys = impl_call(o.encode, xs, None)
        if st != "ok":
            return ji, 0, [("encode-raise", rows[0]["raw"], ys)]
        xs = [float(v) for v in np.asarray(xs).reshape(-1)]
        ys = [int(v) for v in np.asarray(ys).reshape(-1)]
        st, ends = impl_call(lambda: [int(v) for v in np.asarray(o.encode(np.array([lower, upper]), None)).reshape(-1)])
        if st != "ok":
            return ji, 0, [("encode-raise", rows[0]["raw"], ends)]
        if len(xs) != len(rows) or len(ys) != len(rows):
            return ji, 0, [("shape", rows[0]["raw"], "decode/encode changed the number of elements")]
        dec = enc = None
    else:
        dec, enc, _keep = _codec(rec, h, duration)
        xs = ys = ends = None
    prev = None
    for k, row in enumerate(rows):
        raw = row["raw"]
        n += 1
        if xs is not None:
            x = xs[k]
        else:
            st, x = impl_call(dec, raw)
            if st != "ok":
                bad.append(("decode-raise", raw, x))
                prev = None
                continue
        if not isinstance(x, float) or x != x or x in (math.inf, -math.inf):
            bad.append(("decode-not-finite-float", raw, repr(x)))
            prev = None
            continue
        if not _close(x, row["val"], rec, un, ud):
            bad.append(("grid", raw, {"decoded": x, "spec_num": row["val"], "D": rec["D"], "unit": rec["unit"]}))
        if row["end"] == "lo" and x != lower:
            bad.append(("end-decode", raw, {"decoded": x, "declared": lower}))
        if row["end"] == "hi" and x != upper:
            bad.append(("end-decode", raw, {"decoded": x, "declared": upper}))
        if row["zero"] and x != 0.0:
            bad.append(("zero-decode", raw, {"decoded": x}))
        if prev is not None and not (prev <= x):
            bad.append(("monotone", raw, {"decoded": x, "previous": prev}))
        prev = x
        if ys is not None:
            st, y = "ok", ys[k]
        else:
            st, y = impl_call(enc, x)
        if st != "ok" or isinstance(y, bool) or int(y) != y or int(y) != row["re"]:
            bad.append(("roundtrip", raw, {"decoded": x, "re_encoded": y if st == "ok" else "raised " + str(y), "spec": row["re"]}))
        if row["end"]:
            # the declared end itself, as a literal, goes to the raw it came from
            n += 1
            lit = lower if row["end"] == "lo" else upper
            if ends is not None:
                st, y = "ok", ends[0 if row["end"] == "lo" else 1]
            else:
                st, y = impl_call(enc, lit)
            if st != "ok" or int(y) != row["ee"]:
                bad.append(("end-encode", raw, {"end": lit, "encoded": y if st == "ok" else "raised " + str(y), "spec": row["ee"]}))
    return ji, n, bad


COMP_INVS = ["CompTypeOK", "CompRoundTrip"]


def _cex(res):
    """TLC's error and the violating state (the printed table rows in between are dropped)."""
    out = "\n".join(l for l in res.out.splitlines() if not l.startswith('"{'))
    i = out.find("Error:")
    return out[i:i + 6000] if i >= 0 else ""


PARAM_INVS = ["PTypeOK", "PRoundTrip", "PMonotone", "PEnds", "PZero", "PNearest"]


HIST_INVS = ["HTypeOK", "MemEmpty"]


def _history_model(chk: Check, insts, ranges, scheds):
    """TLC walks the schedules (MemEmpty, HTypeOK) and prints one record per step."""
    d = os.path.join(chk.scratch, "qh")
    os.makedirs(d, exist_ok=True)
    files = {"QUANT_INSTS": [r for r, _ in insts], "QUANT_COMPS": [], "QUANT_FAMS": PARAM_FAMS,
             "QUANT_RANGES": [{k: v for k, v in r.items() if not k.startswith("_")} for r in ranges],
             "QUANT_SCHEDS": [{"id": name, "steps": steps} for name, steps in scheds]}
    env = {}
    for k, v in files.items():
        env[k] = os.path.join(d, k + ".json")
        with open(env[k], "w") as f:
            json.dump(v, f)
    cfg = os.path.join(d, "Quant_MBT.cfg")
    with open(cfg, "w") as f:
        f.write("SPECIFICATION MHSpec\n%s" % "".join("INVARIANT %s\n" % i for i in HIST_INVS))
    res = run_tlc(os.path.join(SPECS, "Quant_MBT.tla"), cfg, workers=1, scratch=d, env=env, heap="3g")
    chk.add_tlc(res, "Quant history: %d schedules" % len(scheds))
    if not res.ok:
        chk.violation("model: %s violated by a schedule" % (",".join(res.violated) or "error"),
                      {"kind": "model", "violated": res.violated, "machine": "history"}, {"tlc": _cex(res)})
        return {}
    recs = {}
    for line in res.out.splitlines():
        if line.startswith('"{'):
            r = json.loads(json.loads(line))["hstep"]
            recs[(r["s"], r["pos"])] = r
    if len(recs) != sum(len(st) for _, st in scheds):
        raise MachineryError("history export has %d steps, expected %d" % (len(recs), sum(len(st) for _, st in scheds)))
    return recs


def _tables(chk: Check, insts, shards: int, comps=(), ranges=()):
    """Run Quant_MBT (invariants on) over all instances; -> {id: rows in raw order}, {composite id: rows}."""
    small = [r for r, _ in insts if r["rawMax"] - r["rawMin"] < 256]
    big = [r for r, _ in insts if r["rawMax"] - r["rawMin"] >= 256]
    if any(r["rawMax"] - r["rawMin"] > 65535 for r in big):
        raise MachineryError("instance on a wire type wider than 16 bits: the property quantifies over 8/16-bit types")
    groups = [small] + [g for g in common.chunked(big, shards) if g]
    if comps:
        groups.append("composites")
    PSHARDS = 3
    rchunks = [c for c in common.chunked(list(ranges), PSHARDS) if c] if ranges else []
    for rc in rchunks:
        groups.append(("parametric", rc))
    import concurrent.futures as cf

    def one(arg):
        no, recs = arg
        d = os.path.join(chk.scratch, "q%d" % no)
        os.makedirs(d, exist_ok=True)
        composite = recs == "composites"
        param = isinstance(recs, tuple) and recs[0] == "parametric"
        my_ranges = recs[1] if param else []
        with open(os.path.join(d, "scheds.json"), "w") as f:
            json.dump([], f)
        with open(os.path.join(d, "fams.json"), "w") as f:
            json.dump(PARAM_FAMS if param else [], f)
        with open(os.path.join(d, "ranges.json"), "w") as f:
            json.dump([{k: v for k, v in r.items() if not k.startswith("_")} for r in my_ranges], f)
        with open(os.path.join(d, "insts.json"), "w") as f:
            json.dump([r for r, _ in insts] if composite or param else recs, f)
        with open(os.path.join(d, "comps.json"), "w") as f:
            json.dump([c for c, _ in comps] if composite else [], f)
        cfg = os.path.join(d, "Quant_MBT.cfg")
        with open(cfg, "w") as f:
            if param:
                f.write("SPECIFICATION MPSpec\n%s" % "".join("INVARIANT %s\n" % i for i in PARAM_INVS))
            elif composite:
                f.write("SPECIFICATION MCSpec\n%s" % "".join("INVARIANT %s\n" % i for i in COMP_INVS))
            else:
                f.write("SPECIFICATION MSpec\n%sPROPERTY MonotoneStep\n" % "".join("INVARIANT %s\n" % i for i in INVS))
        return run_tlc(os.path.join(SPECS, "Quant_MBT.tla"), cfg, workers=1, scratch=d,
                       env={"QUANT_INSTS": os.path.join(d, "insts.json"), "QUANT_COMPS": os.path.join(d, "comps.json"),
                            "QUANT_FAMS": os.path.join(d, "fams.json"), "QUANT_RANGES": os.path.join(d, "ranges.json"),
                            "QUANT_SCHEDS": os.path.join(d, "scheds.json")}, heap="3g")
    with cf.ThreadPoolExecutor(max_workers=len(groups)) as ex:
        results = list(ex.map(one, enumerate(groups)))
    tables = {}
    ctables = {}
    ptables = {}
    for rc in reversed(rchunks):
        groups.pop()
        res = results.pop()
        chk.add_tlc(res, "Quant %d families x %d ranges" % (len(PARAM_FAMS), len(rc)))
        if not res.ok:
            cex = _cex(res)
            mf, mr = re.findall(r"/\\ pf = (\d+)", cex), re.findall(r"/\\ pr = (\d+)", cex)
            fid = PARAM_FAMS[int(mf[-1]) - 1]["id"] if mf and 0 < int(mf[-1]) <= len(PARAM_FAMS) else "?"
            rid = rc[int(mr[-1]) - 1]["id"] if mr and 0 < int(mr[-1]) <= len(rc) else "?"
            chk.violation("model: %s violated for family %s on range %s" % (",".join(res.violated) or "error", fid, rid),
                          {"kind": "model", "violated": res.violated, "family": fid, "range": rid}, {"tlc": cex})
        else:
            for line in res.out.splitlines():
                if line.startswith('"{'):
                    row = json.loads(json.loads(line))["prow"]
                    ptables.setdefault((row["f"], row["rg"]), []).append(row)
    if ranges and not any(isinstance(v, dict) and v.get("features", {}).get("kind") == "model" for v in chk.violations):
        for rows in ptables.values():
            rows.sort(key=lambda r: r["raw"])
        want = sum(1 for f in PARAM_FAMS for r in ranges if r["lo0"] or not f["lo0only"])
        if len(ptables) != want:
            raise MachineryError("parametric table has %d (family, range) pairs, expected %d" % (len(ptables), want))
    if comps:
        groups.pop()
        res = results.pop()
        chk.add_tlc(res, "Quant %d composite(s)" % len(comps))
        if not res.ok:
            cex = _cex(res)
            mi = re.findall(r"/\\ ci = (\d+)", cex)
            cid = comps[int(mi[-1]) - 1][0]["id"] if mi and int(mi[-1]) <= len(comps) else "?"
            chk.violation("model: %s violated for composite %s" % (",".join(res.violated) or "error", cid),
                          {"kind": "model", "violated": res.violated, "comp": cid}, {"tlc": cex})
        else:
            for line in res.out.splitlines():
                if line.startswith('"{'):
                    row = json.loads(json.loads(line))["crow"]
                    ctables.setdefault(row["c"], []).append(row)
            for c, _ in comps:
                rows = ctables.get(c["id"], [])
                rows.sort(key=lambda r: r["raws"])
                if len(rows) < 7 ** len(c["comps"]):
                    raise MachineryError("composite table of %s is incomplete (%d rows)" % (c["id"], len(rows)))
    for recs, res in zip(groups, results):
        chk.add_tlc(res, "Quant %d instance(s)" % len(recs))
        if not res.ok:
            # TLC stops at the first state that breaks a clause: name the instance and the raw
            cex = _cex(res)
            mi, mr = re.findall(r"/\\ inst = (\d+)", cex), re.findall(r"/\\ raw = (-?\d+)", cex)
            iid = recs[int(mi[-1]) - 1]["id"] if mi and int(mi[-1]) <= len(recs) else "?"
            chk.violation("model: %s violated for %s at raw %s" % (",".join(res.violated) or "error", iid, mr[-1] if mr else "?"),
                          {"kind": "model", "violated": res.violated, "inst": iid, "raw": int(mr[-1]) if mr else None},
                          {"tlc": cex, "instances_of_this_run": [r["id"] for r in recs]})
            continue
        for line in res.out.splitlines():
            if line.startswith('"{'):
                row = json.loads(json.loads(line))["row"]
                tables.setdefault(row["i"], []).append(row)
    for r, _ in insts:
        rows = tables.get(r["id"])
        if rows is None:
            if chk.violations:
                continue
            raise MachineryError("no table for instance %s" % r["id"])
        rows.sort(key=lambda x: x["raw"])
        exp = r["rawMax"] - r["rawMin"] + 1
        if rows[0]["raw"] != r["rawMin"] or rows[-1]["raw"] != r["rawMax"] or len(rows) != exp:
            raise MachineryError("table of %s is incomplete (%d rows)" % (r["id"], len(rows)))
    return tables, ctables, ptables


def _durations(chk: Check, quick: bool):
    ds = [2.0 ** e for e in ((-8, -3, 0, 5, 12) if quick else range(-8, 13))]
    for _ in range(4 if quick else 30):
        x = math.exp(chk.rng.uniform(math.log(0.05), math.log(600.0)))
        ds.append(struct.unpack("<f", struct.pack("<f", x))[0])
    return ds


def run(chk: Check):
    global _JOBS
    quick = chk.tier == "quick"
    insts, unfit = discover()
    chk.cov["instances"] = [dict(r, objects=h["n_objects"]) for r, h in insts]
    known_src, unknown_src = source_candidates()
    chk.cov["handwritten_quantisers"] = {"declared": [hw["id"] for hw in HANDWRITTEN], "source_sites_covered": known_src,
                                          "source_sites_not_declared": unknown_src}
    if unknown_src:
        chk.notes.append("functions multiplying/dividing by a quantiser-looking constant that no declared hand-written quantiser covers: %s" % unknown_src)
    chk.cov["rule"] = ("one TLC state and one replayed table row per (instance, raw): decode, grid value, ends, zero, order and "
                       "re-encode compared with the row; instances found by reflection. non-trivial = rows at an end of the range, "
                       "rows meaning zero, and 256-raw buckets of the remaining rows (per instance and duration); composites: one TLC state "
                       "and one replayed row per (composite, raw tuple) on the boundary lattice {ends, ends+-1, centre, centre+-1}^n plus sampled tuples.")
    chk.assumptions += [
        "declared bounds are the nearest doubles of small rationals (or small rational multiples of pi); checked by the bridge",
        "a decoded float conforms to the grid when it is within a quarter step of the exact grid value (ends and zero: exactly equal)",
        "the sign of a decoded zero is a mechanism, not an observable: only 'is exactly zero' and the re-encoded raw are compared",
        "QuantizedNumPyArray documents 'no zero midpoint rounding': the zero clause is not demanded of the vectorised variant",
        "key-frame times: durations are positive finite float32 values (2^-8..2^12 and random); duration 0 is outside the domain",
        "the upper end of a declared range is constrained only when it lies on the raw grid (it does not for PackedTERotation and FixedPoint)",
        "parametric ranges: finite bounds, |bound| <= 1e150, non-degenerate ranges at least 2^-149 wide; a degenerate range (lo = hi) only has to "
        "decode every raw to lo and encode lo to the lowest raw; NEAREST probes are a quarter step (one admissible raw) and a half step (two) off the grid",
        "history: a schedule runs every fixed instance (on a lattice of raws) and every (family, range) pair in one process through the same "
        "long-lived objects (the llanim QuantizedTime singleton with a fresh parse context per animation, parsed animations kept alive; "
        "constructed instances kept alive); the expected rows are those of the stand-alone runs",
        "composites (quantised vectors, packed quaternions, vector lists) are driven through their byte form with ctx None, little-endian; "
        "every raw tuple must come back unchanged, also for 3-component packed quaternions whose decoded X/Y/Z is longer than 1 (W is not on the wire)",
    ]
    # both tiers walk every raw value of every instance; they differ in the duration sweep
    comps = discover_composites(insts)
    n_extra = 300 if quick else 4000
    for c, h in comps:
        c["extra"] = sorted({tuple(chk.rng.randrange(r["rawMin"], r["rawMax"] + 1) for r in h["recs"]) for _ in range(n_extra)})
    chk.cov["composites"] = [dict(id=c["id"], objects=h["n_objects"]) for c, h in comps]
    ranges = param_ranges(chk.rng, quick)
    chk.cov["parametric_ranges"] = [r["id"] for r in ranges]
    tables, ctables, ptables = _tables(chk, insts, shards=8, comps=comps, ranges=ranges)
    durs = _durations(chk, quick)
    jobs = []
    for rec, h in insts:
        rows = tables.get(rec["id"])
        if rows is None:
            continue
        if rec["kind"] == "time":
            for d in durs:
                jobs.append((rec, h, rows, d))
        else:
            jobs.append((rec, h, rows, None))
    _JOBS = jobs
    order = sorted(range(len(jobs)), key=lambda j: -len(jobs[j][2]))
    results = common.parallel_map(_replay_job, order)
    results.sort(key=lambda r: r[0])
    total_rows = 0
    for ji, n, bad in results:
        rec, h, rows, dur = jobs[ji]
        chk.count(n)
        total_rows += len(rows)
        for row in rows:
            if row["end"] or row["val"] == 0:
                chk.nontrivial((rec["id"], dur, row["raw"]))
        for b in range(rows[0]["raw"] // 256, rows[-1]["raw"] // 256 + 1):
            chk.nontrivial((rec["id"], dur, "bucket", b))
        per_kind = {}
        for kind, raw, detail in bad:
            per_kind[kind] = per_kind.get(kind, 0) + 1
            if per_kind[kind] > MAX_PER_KIND:
                continue
            feat = {"kind": kind, "inst": rec["id"], "raw": raw}
            if dur is not None:
                feat["duration"] = dur
            chk.violation("%s: %s at raw %d%s" % (rec["id"], kind, raw, "" if dur is None else " (duration %r)" % dur),
                          feat, {"instance": rec, "observed": detail, "failing_raws_of_this_kind": sum(1 for b in bad if b[0] == kind)})
    # composites: every lattice / sampled raw tuple through the real composite field, both reader forms
    global _CJOBS
    _CJOBS = [(c, h, ctables[c["id"]]) for c, h in comps if ctables.get(c["id"])]
    crows = 0
    for ji, n, bad in common.parallel_map(_comp_job, list(range(len(_CJOBS)))):
        c, h, rows = _CJOBS[ji]
        chk.count(n)
        crows += len(rows)
        for row in rows[::7]:
            chk.nontrivial((c["id"], tuple(row["raws"])))
        per_kind = {}
        for kind, pod, raws, detail in bad:
            per_kind[kind] = per_kind.get(kind, 0) + 1
            if per_kind[kind] > MAX_PER_KIND:
                continue
            chk.violation("%s: %s at raws %s (%s reader)" % (c["id"], kind, list(raws), "pod" if pod else "object"),
                          {"kind": kind, "comp": c["id"], "raws": list(raws), "pod": pod},
                          {"components": [r["id"] for r in h["recs"]], "observed": detail,
                           "failing_tuples_of_this_kind": sum(1 for b in bad if b[0] == kind)})
    total_rows += crows
    chk.cov["composite_rows_replayed"] = crows
    # parametric ranges: the real context-dependent quantiser (directly and through the animation serializer)
    # and directly constructed instances, on every range of the sweep
    global _PJOBS
    time_obj = next(h["obj"] for r, h in insts if r["kind"] == "time")
    fam_by_id = {f["id"]: f for f in PARAM_FAMS}
    rng_by_id = {r["id"]: r for r in ranges}
    _PJOBS = [(fam_by_id[f], rng_by_id[rg], rows, time_obj) for (f, rg), rows in sorted(ptables.items())]
    prows = 0
    for ji, n, bad in common.parallel_map(_param_job, list(range(len(_PJOBS)))):
        fam, rg, rows, _ = _PJOBS[ji]
        chk.count(n)
        prows += len(rows)
        chk.nontrivial(("param", fam["id"], rg["id"]))
        per_kind = {}
        for kind, path, raw, detail in bad:
            per_kind[(kind, path)] = per_kind.get((kind, path), 0) + 1
            if per_kind[(kind, path)] > 3:
                continue
            chk.violation("%s on range %s via %s: %s at raw %s" % (fam["id"], rg["id"], path, kind, raw),
                          {"kind": kind, "family": fam["id"], "range": rg["id"], "path": path, "raw": raw},
                          {"lo": rg["_lo"], "hi": rg["_hi"], "observed": detail})
    total_rows += prows
    chk.cov["parametric_rows_replayed"] = prows
    # history: the same rows again, but everything in ONE process per schedule, through the same long-lived objects
    global _HIST
    if _PJOBS and not any(v.get("features", {}).get("kind") == "model" for v in chk.violations if isinstance(v, dict)):
        scheds, sjobs, sjob_of, pjob_of = _schedules(chk, insts, ranges, ptables, tables)
        hrecs = _history_model(chk, insts, ranges, scheds)
        if hrecs:
            _HIST = {"scheds": scheds, "sjobs": sjobs, "sjob_of": sjob_of, "pjob_of": pjob_of}
            hsteps = 0
            for si, n, bad in common.parallel_map(_history_job, list(range(len(scheds)))):
                name, steps = scheds[si]
                chk.count(n)
                hsteps += len(steps)
                for pos in range(0, len(steps), 5):
                    chk.nontrivial(("history", name, pos))
                seen = {}
                for pos, who, prev, kind, path, raw, detail in bad:
                    key = (who, kind, path)
                    seen[key] = seen.get(key, 0) + 1
                    if seen[key] > 2 or sum(1 for k in seen if k[0] == who) > 6:
                        continue
                    feat = {"kind": kind, "raw": raw, "path": path, "schedule": name,
                            "after": " ".join(prev[1:]) if prev else None}
                    if who[0] == "inst":
                        feat["inst"] = who[1]
                    else:
                        feat["family"], feat["range"] = who[1], who[2]
                    chk.violation("%s, step %d of schedule '%s' (after %s): %s at raw %s via %s" % (
                        " ".join(who[1:]), pos + 1, name, " ".join(prev[1:]) if prev else "nothing", kind, raw, path),
                        feat, {"observed": detail, "spec_step": hrecs.get((name, pos + 1))})
            chk.cov["history_steps_replayed"] = hsteps
            chk.cov["traces_validated_against_impl"] += hsteps
    chk.cov["traces_validated_against_impl"] += total_rows
    chk.cov["rows_replayed"] = total_rows
    chk.cov["durations"] = durs
    for rec, h in insts[:3]:
        rows = tables.get(rec["id"])
        if rows:
            chk.sample({"binding": "B3 table row (spec->code)", "instance": rec["id"], "row": rows[len(rows) // 2 + 1]})
    if unfit and not chk.violations:
        raise MachineryError("; ".join(unfit))
    chk.cov["exhaustive"] = True
