"""C08 — serialization combinators round-trip, frame exactly, compose (Combinators*.tla).

spec -> code (B3 tables): TLC enumerates every spec tree of a depth-bounded grammar with its
candidate values, checks the laws (RoundTrip, Compose, SizeSound, EndianAgnostic) on its own Enc/Dec
and prints one table per tree; every row is replayed into real combinator objects built by the
reflection bridge (harness/reflect.py): written bytes, refusal, decoded value in rich and plain-data
mode, reader position with trailing bytes, calc_size().
code -> spec (B2 traces): random deeper trees over all reflected kinds with values drawn from the derived
domain are run through the real code; TLC recomputes Enc/Dec/Size for each recorded case.
"""
from __future__ import annotations

import concurrent.futures as cf
import json
import os
import signal

from . import common
from .common import Check, run_tlc, SPECS

ALL_LEAVES = ["U8", "S8", "U16", "S16", "U32", "S32", "U64", "S64", "F32", "F64", "UUID", "Vec3", "Null", "LLSD", "BT4", "BT2r", "CS3",
              "BA8", "BAS8", "BA16", "BA32", "BF2", "BG", "BT", "BTs", "BTn", "STR8", "STR16n", "SF3", "SF8", "CS", "CSn",
              "BIT8", "BIT16n"]
ALL_CONS = ["CollP", "CollP16", "CollF", "CollG", "OptP", "IfP", "TBP", "TBPe", "TBF", "TBG", "TBGe", "TBT", "TBTe", "TBT2",
            "LenSw", "LenSwD", "EnumSw", "FlagSw", "TupA", "TupB", "Tup2", "TmplA", "TmplFlag", "TmplSkip",
            "TmplCtx", "TmplCtxUp", "Adapt"]
# extra top-level constructors: a 32-bit count prefix, and ill-formed programs (context lookups that cannot resolve,
# switches over signed / wide selectors) that have few or no domain values: the model requires Enc to classify their
# values and Dec to stay total on arbitrary bytes
MISUSE_CONS = ["CollP32", "MisOpt", "MisTup", "MisSel", "MisSel2", "MisName", "MisName2", "MisUp", "MisFlagS", "MisEnumW", "MisBitS"]
# a context-dependent element under every container kind, below a template with a same-named decoy field one level up
CTX_CONS = ["CtxCollP", "CtxCollF", "CtxCollG", "CtxTup", "CtxTmpl", "CtxRootG", "CtxRootTB", "CtxOptP", "CtxIfP", "CtxTBP",
            "CtxTBG", "CtxTBT", "CtxEnum", "CtxFlag", "CtxAdapt", "CtxOptF"]
INVS = ["RoundTrip", "Compose", "AltCompose", "SizeSound", "EndianAgnostic", "DecTotal", "DecProbe", "EncTotal"]
TAILS = [b"", b"\x00", b"\xff\x01", b"\x00\x00\x07"]
ALT_TAILS = [b"", bytes([10, 0, 32, 9, 13, 59]), bytes([59, 13, 9, 32, 0, 10]), bytes([7, 32, 10])]
KEY_ORDERS = [0, "rev", 1, 2, 3, 4, 5]   # 0 = spec order; all 6 permutations for <= 3 keys, reverse for any size
JVM = ("-XX:ParallelGCThreads=2", "-XX:CICompilerCount=2")   # many small JVMs side by side: keep each one narrow


CPU_LIMIT = 1.0   # seconds of CPU one call into the implementation may use (a mutant may loop forever)


class ImplTimeout(Exception):
    pass


def _on_alarm(signum, frame):
    raise ImplTimeout("no result after %gs of CPU time" % CPU_LIMIT)


class cpu_guard:
    """Bound the CPU time of a block that runs implementation code (raises ImplTimeout inside it)."""

    def __enter__(self):
        self.old = signal.signal(signal.SIGVTALRM, _on_alarm)
        # periodic: a C extension in between (lazy_object_proxy) may clear the first exception and call again
        signal.setitimer(signal.ITIMER_VIRTUAL, CPU_LIMIT, CPU_LIMIT / 4)

    def __exit__(self, *exc):
        while True:
            try:
                signal.setitimer(signal.ITIMER_VIRTUAL, 0)
                signal.signal(signal.SIGVTALRM, self.old)
                return False
            except ImplTimeout:     # a late tick while switching the timer off
                continue


def impl_call(fn, *a, **kw):
    """common.impl_call with a CPU-time bound: a call that does not return is an observation too."""
    try:
        with cpu_guard():
            return common.impl_call(fn, *a, **kw)
    except ImplTimeout as e:        # a tick between the return of the call and the end of the guard
        return "raise", "ImplTimeout: " + str(e)


def _limit_worker_memory():
    """Safety net in pool workers: a mutant that allocates without end gets a MemoryError (an observation)."""
    import multiprocessing
    import resource
    if multiprocessing.current_process().name != "MainProcess":
        resource.setrlimit(resource.RLIMIT_AS, (8 << 30, 8 << 30))


def _set(xs):
    return "{" + ", ".join('"%s"' % x for x in xs) + "}"


def _mc_cfg(tops, top_leaves, inner_leaves, inner_cons, depth, cap_in, cap_out):
    return ("SPECIFICATION Spec\nCONSTANTS\n Tops = %s\n TopLeaves = %s\n InnerLeaves = %s\n InnerCons = %s\n"
            " Depth = %d\n CapIn = %d\n CapOut = %d\n%s" % (
                _set(tops), _set(top_leaves), _set(inner_leaves), _set(inner_cons), depth, cap_in, cap_out,
                "".join("INVARIANT %s\n" % i for i in INVS)))


# ----------------------------------------------------------------------------------------
# Python-only decorations of a tree (transparent for the specification)
# ----------------------------------------------------------------------------------------

ENUM_MS = [{"n": "ZERO", "v": 0}, {"n": "ONE", "v": 1}, {"n": "MID", "v": 258}, {"n": "TOP", "v": 255}]
# flag class of the decorated flavour: zero member, second name for a bit, a multi-bit mask covering an otherwise
# un-named bit (8), gaps (16, 32, 64)
FLAG_MS = [{"n": "NONE", "v": 0}, {"n": "A", "v": 1}, {"n": "A_AGAIN", "v": 1}, {"n": "B", "v": 2}, {"n": "C", "v": 4},
           {"n": "LOW", "v": 15}, {"n": "H", "v": 128}]


def _ctx_free(t):
    if isinstance(t, list):
        return all(_ctx_free(x) for x in t)
    if not isinstance(t, dict):
        return True
    if t.get("k") in ("optflag", "ctxswitch"):
        return False
    return all(_ctx_free(v) for v in t.values())


def _selector_fields(t, acc):
    """Names of fields some ctxswitch reads: they must stay plain integers."""
    if isinstance(t, list):
        for x in t:
            _selector_fields(x, acc)
    elif isinstance(t, dict):
        if t.get("k") == "ctxswitch":
            acc.add(t["field"])
        for v in t.values():
            _selector_fields(v, acc)
    return acc


def decorate(tree):
    """A variant of the tree using the dataclass / lazy / enum / flag flavours of the same combinators."""
    sel = _selector_fields(tree, set())

    def wrap_int(t, name=None):
        if t.get("k") != "int" or name in sel:
            return rec(t)
        if t["s"]:
            return {"k": "adapter", "name": "IntEnum", "ms": ENUM_MS, "c": t}
        return {"k": "adapter", "name": "IntFlag", "ms": FLAG_MS, "c": t}

    def rec(t):
        t = dict(t)
        k = t["k"]
        if k == "template":
            flag_fields = {f["t"]["field"] for f in t["fs"] if f["t"]["k"] == "optflag"}
            fs = []
            for f in t["fs"]:
                ft = f["t"]
                if f["n"] in flag_fields and ft["k"] == "int" and not ft["s"]:
                    ft = {"k": "adapter", "name": "IntFlag", "ms": FLAG_MS, "c": ft}
                elif f["n"] in flag_fields:
                    ft = rec(ft)
                elif ft["k"] == "optflag":
                    ft = rec(ft)
                    src = next((g["t"] for g in t["fs"] if g["n"] == ft["field"]), None)
                    if src is not None and src["k"] == "int" and not src["s"]:
                        ft["fm"] = FLAG_MS
                else:
                    ft = wrap_int(ft, f["n"])
                fs.append({"n": f["n"], "t": ft})
            t["fs"] = fs
            if not t["skip"]:
                t["dc"] = True
        elif k == "tuple":
            t["cs"] = [wrap_int(c) for c in t["cs"]]
        elif k == "coll":
            t["c"] = wrap_int(t["c"])
        elif k in ("optprefix", "optflag", "ifpresent"):
            t["c"] = wrap_int(t["c"])
        elif k == "adapter":
            t["c"] = rec(t["c"])
            if t["c"]["k"] == "int" and "name" not in t:
                t["name"] = "IntEnum"
                t["ms"] = ENUM_MS
            elif "name" not in t:
                t["name"] = "forward"
        elif k == "typedbytes":
            t["c"] = rec(t["c"])
            if _ctx_free(t["c"]):
                t["lazy"] = True
        elif k in ("lenswitch", "enumswitch", "ctxswitch"):
            # payloads of switches get the flavours whose plain-data form differs (enum / flag adapters)
            t["ch"] = [dict(c, t=wrap_int(c["t"])) for c in t["ch"]]
            if k == "ctxswitch":
                t["dflt"] = [wrap_int(x) for x in t["dflt"]]
        elif k == "flagswitch":
            t["ch"] = [dict(c, t=wrap_int(c["t"])) for c in t["ch"]]
        elif k == "bitfield":
            t["dc"] = True
        return t

    return rec(tree)


# ----------------------------------------------------------------------------------------
# one tree, one value, one byte order against the real code
# ----------------------------------------------------------------------------------------

def _reflect():
    from . import reflect
    return reflect


def _se():
    import hippolyzer.lib.base.serialization as se
    return se


def _canon_call(reflect, value, tree, pod):
    try:
        with cpu_guard():
            return "ok", reflect.canon(value, tree, pod)
    except reflect.Unreflectable:
        raise
    except Exception as e:  # noqa: a lazily deferred read failing while the value is inspected is an observation
        return "raise", type(e).__name__ + ": " + str(e)[:200]


def observe(spec, tree, cv, endian, tails, sd):
    """Run one case through the real code; returns the observation record (also the B2 trace event)."""
    reflect, se = _reflect(), _se()
    obs = {"writes": [], "reads": []}
    data = None
    for pod in (False, True):
        try:
            pv = reflect.to_py(tree, cv, pod)
        except reflect.Unreflectable:
            obs["writes"].append({"pod": pod, "st": "shape"})
            continue
        # map-like values (template / dataclass dict input, FlagSwitch values, bitfield dicts) are unordered
        # mappings: the same value is also written with its keys inserted in other orders
        seen_orders = []
        for order in KEY_ORDERS:
            pv2 = pv if order == 0 else reflect.reorder(pv, order)
            ko = reflect.key_orders(pv2)
            if ko in seen_orders:
                continue
            seen_orders.append(ko)
            w = se.BufferWriter(endian)
            st, exc = impl_call(w.write, spec, pv2)
            rec = {"pod": pod, "order": str(order), "st": st}
            if st == "ok":
                rec["b"] = list(w.copy_buffer())
                if data is None:
                    data = w.copy_buffer()
            else:
                rec["exc"] = exc
            obs["writes"].append(rec)
    if data is not None:
        for pod in (False, True):
            for tail in (tails if sd else tails[:1]):
                r = se.BufferReader(endian, data + tail, pod=pod)
                st, val = impl_call(r.read, spec)
                rec = {"pod": pod, "tail": list(tail), "st": st}
                if st == "ok":
                    pos, left = r.tell(), len(r)
                    cst, cval = _canon_call(reflect, val, tree, pod)
                    if cst == "ok":
                        rec.update(v=cval, pos=pos, left=left)
                    else:
                        rec.update(st="raise", exc="(lazy) " + cval)
                else:
                    rec["exc"] = val
                obs["reads"].append(rec)
                if rec["st"] != "ok" and "ImplTimeout" in rec["exc"]:
                    obs["timeout"] = True      # a looping implementation: one observation is enough
                    return obs
    return obs


def _calc_size(spec):
    st, n = impl_call(spec.calc_size)
    if st != "ok":
        return -2, n
    if n is None:
        return -1, None
    if isinstance(n, int) and not isinstance(n, bool) and n >= 0:
        return n, None
    return -3, repr(n)


def _failing_size_node(tree):
    """Smallest subtree whose calc_size() raises (for precise features)."""
    reflect = _reflect()
    subs = []
    for v in tree.values():
        if isinstance(v, dict) and "k" in v:
            subs.append(v)
        elif isinstance(v, list):
            for x in v:
                if isinstance(x, dict) and "k" in x:
                    subs.append(x)
                elif isinstance(x, dict) and isinstance(x.get("t"), dict):
                    subs.append(x["t"])
    for s in subs:
        try:
            sp = reflect.build(s)
        except Exception:  # noqa
            continue
        if _calc_size(sp)[0] == -2:
            return _failing_size_node(s)
    child_sizes = []
    for s in subs:
        try:
            child_sizes.append(_calc_size(reflect.build(s))[0])
        except Exception:  # noqa
            child_sizes.append(None)
    return {"node": tree["k"], "unsized_child": any(c == -1 for c in child_sizes)}


def _kinds(tree, acc=None):
    acc = set() if acc is None else acc
    if isinstance(tree, list):
        for x in tree:
            _kinds(x, acc)
    elif isinstance(tree, dict):
        if "k" in tree:
            acc.add(tree["k"] + (":" + tree["m"] if "m" in tree else ""))
        for v in tree.values():
            _kinds(v, acc)
    return acc


def replay_table(rec):
    """Replay one table record {t, sd, size, rows} printed by Combinators_MC; returns (evaluations, nontrivial, violations)."""
    reflect = _reflect()
    viols = []
    n_eval = 0
    nontrivial = 0
    base = rec["t"]
    variants = [base]
    deco = decorate(base)
    if deco != base:
        variants.append(deco)
    for vt in variants:
        flavour = "plain" if vt is base else "decorated"
        st, spec = impl_call(reflect.build, vt)
        if st != "ok":
            if "Unreflectable" in spec:
                raise common.MachineryError("bridge cannot build %s: %s" % (json.dumps(vt)[:300], spec))
            viols.append(("constructing the combinator raised", {"kind": "construct", "top": base["k"], "flavour": flavour},
                          {"tree": vt, "exc": spec}))
            continue
        back = reflect.strip(reflect.to_tree(spec))
        if back != reflect.strip(vt):
            raise common.MachineryError("bridge: to_tree(build(t)) != t for %s\n got %s" % (json.dumps(vt)[:400], json.dumps(back)[:400]))
        size, exc = _calc_size(spec)
        n_eval += 1
        if size == -2:
            viols.append(("calc_size() raised", {"kind": "calc_size-raises", "exc": exc.split(":")[0], **_failing_size_node(vt)},
                          {"tree": vt, "exc": exc}))
        elif size == -3:
            viols.append(("calc_size() returned neither a size nor None", {"kind": "calc_size-type", "top": base["k"]},
                          {"tree": vt, "got": exc}))
        timeouts = 0
        for row in rec["rows"]:
            for endian, stk, bk in ((">", "st", "b"), ("<", "lst", "lb")):
                if timeouts >= 2:
                    break
                exp_st, exp_b = row[stk], bytes(row[bk])
                obs = observe(spec, vt, row["v"], endian, TAILS, rec["sd"])
                timeouts += 1 if obs.get("timeout") else 0
                n_eval += len(obs["writes"]) + len(obs["reads"])
                if exp_st == "ok":
                    nontrivial += 1
                ctxinfo = {"tree": vt, "value": row["v"], "endian": endian, "spec_status": exp_st, "spec_bytes": list(exp_b)}
                feat = {"top": base["k"], "flavour": flavour, "kinds": sorted(_kinds(base))}
                for wr in obs["writes"]:
                    mode = ("pod" if wr["pod"] else "rich") + ("" if wr.get("order", "0") == "0" else "+keys-permuted")
                    if wr["st"] == "shape":
                        raise common.MachineryError("bridge: value %s does not fit %s" % (json.dumps(row["v"])[:200], json.dumps(vt)[:300]))
                    if exp_st == "ok" and wr["st"] != "ok":
                        viols.append(("write refused a value of the domain", {"kind": "write-refuses", "mode": mode, **feat},
                                      {**ctxinfo, "impl": wr}))
                    elif exp_st == "ok" and bytes(wr["b"]) != exp_b:
                        viols.append(("written bytes differ from Enc", {"kind": "write-bytes", "mode": mode, **feat},
                                      {**ctxinfo, "impl": wr}))
                    elif exp_st == "rej" and wr["st"] == "ok":
                        viols.append(("a value outside a length/range limit was written instead of refused",
                                      {"kind": "write-accepts-out-of-limit", "mode": mode, **feat}, {**ctxinfo, "impl": wr}))
                    if exp_st == "ok" and wr["st"] == "ok" and size >= 0 and len(wr["b"]) != size:
                        viols.append(("calc_size() differs from the size of an encoding", {"kind": "calc_size-wrong", **feat},
                                      {**ctxinfo, "calc_size": size, "impl": wr}))
                for rd in obs["reads"]:
                    mode = "pod" if rd["pod"] else "rich"
                    if exp_st != "ok":
                        continue
                    if rd["st"] != "ok":
                        viols.append(("reading back what was written raised", {"kind": "read-raises", "mode": mode, "tail": len(rd["tail"]), **feat},
                                      {**ctxinfo, "impl": rd}))
                    elif rd["v"] != row["v"]:
                        viols.append(("read(write(v)) != v", {"kind": "read-value", "mode": mode, "tail": len(rd["tail"]), **feat},
                                      {**ctxinfo, "impl": rd}))
                    elif rd["pos"] != len(exp_b) or rd["left"] != len(rd["tail"]):
                        viols.append(("reader did not consume exactly the bytes written", {"kind": "read-position", "mode": mode, "tail": len(rd["tail"]), **feat},
                                      {**ctxinfo, "impl": rd}))
        # alternative wire forms: the same values ended by another legal terminator (written by the rotated spec)
        for alt in rec.get("alts", []):
            for endian, bk in ((">", "b"), ("<", "lb")):
                data = bytes(alt[bk])
                for pod in (False, True):
                    for tail in (ALT_TAILS if rec["sd"] else ALT_TAILS[:1]):
                        r = _se().BufferReader(endian, data + tail, pod=pod)
                        st, val = impl_call(r.read, spec)
                        n_eval += 1
                        got = {"st": st}
                        if st == "ok":
                            pos, left = r.tell(), len(r)
                            cst, cval = _canon_call(reflect, val, vt, pod)
                            got.update(v=cval, pos=pos, left=left)
                        else:
                            got["exc"] = val
                        if st != "ok" or got["v"] != alt["v"] or got["pos"] != len(data) or got["left"] != len(tail):
                            viols.append(("a value ended by another legal terminator is not read back exactly (reader must stop at the "
                                          "earliest terminator)",
                                          {"kind": "alt-terminator-read", "mode": "pod" if pod else "rich", "top": base["k"],
                                           "flavour": flavour, "kinds": sorted(_kinds(base))},
                                          {"tree": vt, "value": alt["v"], "endian": endian, "wire": list(data), "tail": list(tail),
                                           "terminators_rotated_by": alt["rot"], "impl": got}))
    return n_eval, nontrivial, viols[:20]


def _replay_chunk(recs):
    _limit_worker_memory()
    n = nt = 0
    out = []
    for r in recs:
        a, b, v = replay_table(r)
        n += a
        nt += b
        out += v
    return n, nt, out[:60]


def _tables(chk: Check, label, shards, top_leaves, inner_leaves, inner_cons, depth, cap_in, cap_out, jobs=8, vacuous_ok=False):
    """Run the bounded model in shards (one TLC each, by top constructor) and replay all printed tables."""
    def one(i_tops):
        i, tops = i_tops
        cfg = os.path.join(chk.scratch, "mc-%s-%d.cfg" % (label, i))
        with open(cfg, "w") as f:
            f.write(_mc_cfg(tops, top_leaves, inner_leaves, inner_cons, depth, cap_in, cap_out))
        return run_tlc(os.path.join(SPECS, "Combinators_MC.tla"), cfg, workers=1, scratch=chk.scratch, heap="3g", jvm=JVM)

    with cf.ThreadPoolExecutor(max_workers=jobs) as ex:
        results = list(ex.map(one, list(enumerate(shards))))
    recs = []
    for i, res in enumerate(results):
        chk.require_model_ok(res, "Combinators_MC %s shard %d (%s)" % (label, i, ",".join(shards[i])[:60]))
        recs += [r for r in res.printed() if isinstance(r, dict) and "rows" in r]
    if not recs:
        raise common.MachineryError("Combinators_MC %s printed no tables" % label)
    if sum(len(r["rows"]) for r in recs) == 0:
        return recs
    n_rows = sum(len(r["rows"]) for r in recs)
    n_ok = sum(1 for r in recs for x in r["rows"] if x["st"] == "ok")
    n_rej = n_rows - n_ok
    if (n_ok == 0 or n_rej == 0) and not vacuous_ok:
        raise common.MachineryError("vacuous tables: %d ok rows, %d refusal rows" % (n_ok, n_rej))
    chunks = common.chunked(recs, common.NCPU * 6)
    done = common.parallel_map(_replay_chunk, chunks)
    chk.count(sum(d[0] for d in done))
    chk.cov["traces_validated_against_impl"] += 2 * n_rows
    chk.cov.setdefault("tables", []).append({"label": label, "trees": len(recs), "rows": n_rows, "ok_rows": n_ok,
                                             "refusal_rows": n_rej, "self_delimiting_trees": sum(1 for r in recs if r["sd"]),
                                             "sized_trees": sum(1 for r in recs if r["size"] >= 0)})
    for r in recs:
        if any(x["st"] == "ok" for x in r["rows"]):
            chk.nontrivial(("tree", common.skey(r["t"])))
    for d in done:
        for what, feat, detail in d[2]:
            chk.violation("B3 %s: %s" % (label, what), feat, detail)
    r = recs[len(recs) // 2]
    chk.sample({"binding": "B3 table (spec->code)", "tree": r["t"], "self_delimiting": r["sd"], "size": r["size"],
                "rows": [{k: (v if not isinstance(v, list) or len(v) < 40 else v[:40] + ["..."]) for k, v in x.items()} for x in r["rows"][:3]]})
    return recs


# ----------------------------------------------------------------------------------------
# code -> spec: random trees and domain values (generator restrictions = the derived domain)
# ----------------------------------------------------------------------------------------

INT_TYPES = [(1, False), (1, True), (2, False), (2, True), (4, False), (4, True), (8, False), (8, True)]


def _it(w, s):
    return {"k": "int", "w": w, "s": s}


def t_sd(t):
    k = t["k"]
    if k in ("int", "float", "uuid", "coord", "null", "llsd", "bytearray", "bytesfixed", "str", "strfixed", "bitfield"):
        return True
    if k in ("bytesgreedy", "ifpresent", "lenswitch"):
        return False
    if k in ("bytesterm", "cstr"):
        return t["wt"]
    if k == "tuple":
        return all(t_sd(c) for c in t["cs"])
    if k == "template":
        return all(t_sd(f["t"]) for f in t["fs"])
    if k == "coll":
        return t["m"] != "greedy" and t_sd(t["c"])
    if k in ("optprefix", "optflag", "adapter"):
        return t_sd(t["c"])
    if k in ("enumswitch", "flagswitch"):
        return all(t_sd(c["t"]) for c in t["ch"])
    if k == "ctxswitch":
        return all(t_sd(c["t"]) for c in t["ch"]) and all(t_sd(x) for x in t["dflt"])
    if k == "typedbytes":
        return t["m"] in ("prefix", "fixed") or (t["m"] == "term" and not t["ein"])
    raise AssertionError(k)


def t_fixed(t):
    """Exact encoded length when it is the same for every value (generator side only), else None."""
    k = t["k"]
    if k in ("int", "float"):
        return t["w"]
    if k == "uuid":
        return 16
    if k == "coord":
        return t["n"] * t["w"]
    if k == "null":
        return 0
    if k in ("bytesfixed", "strfixed"):
        return t["n"]
    if k == "bitfield":
        return t["p"]["w"]
    if k == "adapter":
        return t_fixed(t["c"])
    if k in ("tuple", "template"):
        ls = [t_fixed(c) for c in (t["cs"] if k == "tuple" else [f["t"] for f in t["fs"]])]
        return None if any(x is None for x in ls) else sum(ls)
    if k == "coll" and t["m"] == "fixed":
        x = t_fixed(t["c"])
        return None if x is None else x * t["n"]
    if k == "typedbytes" and t["m"] == "fixed" and not t["ein"]:
        return t["n"]
    return None


class Gen:
    """Random spec trees (all reflected kinds) with values from the derived domain.

    Placement flags while generating a tree:
      last     the node ends its byte window (only then may it be not self-delimiting)
      nonempty every value must have a non-empty encoding
      nonnull  the node's values are never None
      avoid    bytes that must not occur in the encoding (inside a terminated window)
      env      enclosing frames, innermost first: for templates the preceding plain unsigned int fields
    """

    def __init__(self, rng, max_depth):
        self.rng = rng
        self.max_depth = max_depth
        self.violate = False

    # ---- trees ----------------------------------------------------------------------------
    def leaf(self, last, nonempty, nonnull, avoid):
        r = self.rng
        opts = ["int", "int", "int", "bytesfixed", "uuid"]
        if not avoid:
            opts += ["float", "coord", "bytearray", "str", "strfixed", "bitfield", "bytesterm", "cstr", "int", "llsd"]
            if not nonempty and not nonnull:
                opts.append("null")
        else:
            opts += ["bytesterm", "cstr"]
        if last and not nonempty:
            opts += ["bytesgreedy", "bytesgreedy"]
            if not avoid:
                opts += ["bytesterm0", "cstr0"]
        k = r.choice(opts)
        if k == "int":
            return _it(*r.choice(INT_TYPES))
        if k == "float":
            return {"k": "float", "w": r.choice([4, 8])}
        if k == "uuid":
            return {"k": "uuid"}
        if k == "coord":
            return {"k": "coord", **r.choice([{"n": 3, "w": 4}, {"n": 4, "w": 4}, {"n": 3, "w": 8}])}
        if k == "null":
            return {"k": "null"}
        if k == "llsd":
            return {"k": "llsd"}
        if k == "bytearray":
            return {"k": "bytearray", "p": _it(*r.choice(INT_TYPES))}
        if k == "bytesfixed":
            return {"k": "bytesfixed", "n": r.randrange(1 if nonempty else 0, 6)}
        if k == "bytesgreedy":
            return {"k": "bytesgreedy"}
        if k in ("bytesterm", "cstr", "bytesterm0", "cstr0"):
            cand = [x for x in (0, 10, 32, 255 if k.startswith("bytes") else 59) if x not in avoid] or [1]
            terms = [r.choice(cand)]
            if r.random() < 0.3:
                extra = r.choice([9, 13, 0])
                if extra not in terms and extra not in avoid:
                    terms.append(extra)
            wt = not k.endswith("0")
            return {"k": k.rstrip("0"), "terms": terms, "wt": wt, "eof": True if not wt else r.random() < 0.6}
        if k == "str":
            return {"k": "str", "p": _it(*r.choice(INT_TYPES)), "nt": r.random() < 0.6}
        if k == "strfixed":
            return {"k": "strfixed", "n": r.randrange(1 if nonempty else 0, 9)}
        if k == "bitfield":
            w = r.choice([1, 2, 4])
            total = min(8 * w, 30)
            fs = []
            left = total
            for j in range(r.randrange(1, 5)):
                if left <= 0:
                    break
                b = r.randrange(1, min(left, 12) + 1)
                f = {"n": "m%d" % j, "bits": b}
                if b >= 2 and r.random() < 0.25:
                    f["ad"] = {"name": "IntEnum", "ms": ENUM_MS}
                fs.append(f)
                left -= b
            t = {"k": "bitfield", "p": _it(w, False), "fs": fs, "shift": r.random() < 0.6}
            if r.random() < 0.4:
                t["dc"] = True
            return t
        raise AssertionError(k)

    def tree(self, depth, last=True, nonempty=False, nonnull=False, avoid=frozenset(), env=()):
        r = self.rng
        if depth <= 0 or r.random() < 0.15:
            return self.leaf(last, nonempty, nonnull, avoid)
        opts = ["tuple", "template", "template", "coll", "enumswitch", "typedbytes", "typedbytes", "adapter"]
        if not avoid:
            opts += ["optprefix", "flagswitch"]
        if last and not nonempty and not avoid:
            opts += ["ifpresent", "lenswitch", "collgreedy"]
        if any(fr for fr in env[:2]) or (len(env) >= 2 and env[-1]):
            opts += ["ctxswitch", "ctxswitch"]
        k = r.choice(opts)
        d = depth - 1
        sub = dict(avoid=avoid, env=env)
        if k == "tuple":
            n = r.randrange(1, 4)
            cs = []
            for j in range(n):
                is_last = last and j == n - 1
                cs.append(self.tree(d, is_last, nonempty and j == 0, False, avoid, (None,) + tuple(env)))
            return {"k": "tuple", "cs": cs}
        if k == "template":
            n = r.randrange(1, 5)
            fs = []
            ints = {}
            skip = r.random() < 0.4
            want_ctx = r.random() < 0.6 and not avoid
            for j in range(n):
                is_last = last and j == n - 1
                name = "f%d" % j
                if want_ctx and j == 0:
                    ft = _it(r.choice([1, 2, 4]), False)
                elif ints and not avoid and r.random() < 0.45:
                    src = r.choice(sorted(ints))
                    bits = 8 * ints[src]["w"]
                    mask = 1 << r.randrange(0, min(bits, 30))
                    if r.random() < 0.3:
                        mask |= 1 << r.randrange(0, min(bits, 30))
                    ft = {"k": "optflag", "field": src, "mask": mask,
                          "c": self.tree(d, is_last, False, False, avoid, (dict(ints),) + tuple(env))}
                else:
                    ft = self.tree(d, is_last, nonempty and j == 0, False, avoid, (dict(ints),) + tuple(env))
                if ft["k"] == "int" and not ft["s"]:
                    ints[name] = ft
                fs.append({"n": name, "t": ft})
            t = {"k": "template", "fs": fs, "skip": skip}
            if not skip and r.random() < 0.4:
                t["dc"] = True
            return t
        if k == "coll":
            if not avoid and r.random() < 0.6:
                return {"k": "coll", "m": "prefix", "p": _it(*r.choice(INT_TYPES)), "n": 0,
                        "c": self.tree(d, False, False, False, avoid, (None,) + tuple(env))}
            return {"k": "coll", "m": "fixed", "p": _it(1, False), "n": r.randrange(1, 4),
                    "c": self.tree(d, False, nonempty, False, avoid, (None,) + tuple(env))}
        if k == "collgreedy":
            return {"k": "coll", "m": "greedy", "p": _it(1, False), "n": 0,
                    "c": self.tree(d, False, True, False, avoid, (None,) + tuple(env))}
        if k == "optprefix":
            return {"k": "optprefix", "c": self.tree(d, last, False, True, **sub)}
        if k == "ifpresent":
            return {"k": "ifpresent", "c": self.tree(d, True, True, True, **sub)}
        if k == "lenswitch":
            ch = []
            sizes = set()
            for _ in range(r.randrange(1, 4)):
                for _try in range(6):
                    c = self.tree(min(d, 2), False, False, False, frozenset(), ())
                    n = t_fixed(c)
                    if n is not None and n not in sizes:
                        sizes.add(n)
                        ch.append({"key": n, "t": c})
                        break
            if not ch:
                ch.append({"key": 0, "t": {"k": "null"}})
            if r.random() < 0.5:
                ch[-1] = dict(ch[-1], key=-1)
            return {"k": "lenswitch", "ch": ch}
        if k == "enumswitch":
            e = _it(*r.choice(INT_TYPES[:6]))
            keys = r.sample([0, 1, 2, 5, 100, 127] + ([-1, -128] if e["s"] else [200 if e["w"] > 1 else 128]), r.randrange(1, 4))
            ms = [{"n": "K%d" % (x if x >= 0 else 1000 - x), "v": x} for x in sorted(set(keys + [0, 3]))]
            return {"k": "enumswitch", "e": e, "ms": ms,
                    "ch": [{"key": x, "t": self.tree(d, last, False, False, **sub)} for x in keys]}
        if k == "flagswitch":
            f = _it(r.choice([1, 2, 4]), False)
            bits = r.sample(range(0, min(8 * f["w"], 30)), r.randrange(1, 4))
            bits.sort()
            ch = []
            for j, b in enumerate(bits):
                ch.append({"bit": 1 << b, "name": "B%d" % b, "t": self.tree(d, last and j == len(bits) - 1, False, False, **sub)})
            return {"k": "flagswitch", "f": f, "ch": ch}
        if k == "ctxswitch":
            ups = [u for u in (0, 1) if u < len(env) and env[u]]
            if len(env) >= 2 and env[-1]:
                ups.append(-1)          # ctx._root.field
            up = r.choice(ups)
            field = r.choice(sorted(env[up]))
            keys = r.sample([0, 1, 2, 3, 7], r.randrange(1, 4))
            t = {"k": "ctxswitch", "up": up, "field": field,
                 "ch": [{"key": x, "t": self.tree(d, last, nonempty, nonnull, **sub)} for x in keys], "dflt": []}
            if r.random() < 0.6:
                t["dflt"] = [self.tree(d, last, nonempty, nonnull, **sub)]
            t["_keys"] = keys
            return t
        if k == "typedbytes":
            ein = r.random() < 0.4
            modes = ["prefix", "prefix", "fixed"]
            if not avoid:
                modes.append("term")
            if last and not nonempty:
                modes.append("greedy")
            m = r.choice(modes)
            t = {"k": "typedbytes", "m": m, "p": _it(1, False), "n": 0, "terms": [], "ein": ein, "ctb": r.random() < 0.8}
            inner_avoid = avoid
            if m == "prefix":
                t["p"] = _it(*r.choice(INT_TYPES))
            elif m == "term":
                t["terms"] = [r.choice([0, 10])]
                inner_avoid = frozenset(t["terms"])
            if m == "fixed":
                t["ein"] = ein = False
                for _try in range(8):
                    c = self.tree(d, True, nonempty, False, inner_avoid, env)
                    if t_fixed(c) is not None:
                        break
                else:
                    c = _it(2, False)
                t["n"] = t_fixed(c)
            else:
                c = self.tree(d, True, ein or (nonempty and m != "prefix"), ein, inner_avoid, env)
            t["c"] = c
            if _ctx_free(c) and r.random() < 0.4:
                t["lazy"] = True
            return t
        if k == "adapter":
            c = self.tree(d, last, nonempty, nonnull, **sub)
            t = {"k": "adapter", "c": c}
            if c["k"] == "int" and r.random() < 0.7:
                if c["s"]:
                    t.update(name="IntEnum", ms=ENUM_MS + [{"n": "NEG", "v": -1}])
                else:
                    t.update(name=r.choice(["IntEnum", "IntFlag"]), ms=FLAG_MS if r.random() < 0.5 else ENUM_MS)
                if t["name"] == "IntFlag":
                    t["ms"] = FLAG_MS
            else:
                t["name"] = r.choice(["ident", "forward"])
            return t
        raise AssertionError(k)

    # ---- values ---------------------------------------------------------------------------
    def _bytes(self, n, avoid):
        ok = [x for x in range(256) if x not in avoid]
        r = self.rng
        pool = r.choice([ok, [x for x in (0, 1, 255, 10, 65) if x not in avoid] or ok])
        return [r.choice(pool) for _ in range(n)]

    def _int(self, t, avoid):
        from .reflect import cint
        r = self.rng
        w, s = t["w"], t["s"]
        lo, hi = (-(1 << (8 * w - 1)), (1 << (8 * w - 1)) - 1) if s else (0, (1 << (8 * w)) - 1)
        if avoid:
            return cint(int.from_bytes(bytes(self._bytes(w, avoid)), "big", signed=s))
        if self.violate and r.random() < 0.5:
            return cint(r.choice([hi + 1, lo - 1, hi + 1000, lo - 77]))
        c = r.random()
        if c < 0.35:
            return cint(r.choice([lo, hi, 0, 1, hi - 1, lo + 1, -1 if s else 2]))
        if c < 0.6:
            return cint(r.randrange(0, min(hi, 300) + 1))
        return cint(r.randrange(lo, hi + 1))

    def _text(self, maxbytes, avoid, allow_nul):
        r = self.rng
        alpha = ["a", "b", "Z", " ", "0", "é", "ß", "日", "𝔲", "\n", "'", ";"] + (["\x00"] if allow_nul else [])
        alpha = [c for c in alpha if not (set(c.encode("utf8")) & set(avoid))]
        out = ""
        for _ in range(r.choice([0, 1, 2, 3, 5, 8, 13])):
            c = r.choice(alpha)
            if len((out + c).encode("utf8")) > maxbytes:
                break
            out += c
        out = out.rstrip("\x00")
        return list(out.encode("utf8"))

    def _plen(self, p, overhead=0):
        """A length for a prefixed field: small, or at / beyond the limit of a one-byte prefix."""
        r = self.rng
        if p["w"] == 1:
            hi = 127 if p["s"] else 255
            if self.violate and r.random() < 0.6:
                return hi + 1 - overhead + r.randrange(0, 3)
            if r.random() < 0.08:
                return hi - overhead - r.randrange(0, 2)
        return r.choice([0, 0, 1, 2, 3, 5, 9, 17])

    def value(self, t, frames=(), avoid=frozenset()):
        from .reflect import cint, NONE
        r = self.rng
        k = t["k"]
        if k == "int":
            return self._int(t, avoid)
        if k == "float":
            import struct
            x = r.choice([0.0, -0.0, 1.0, -1.5, 3.1415927, 1e-3, -65504.0, 2.5e10, float("inf")])
            return {"f": list(struct.pack(">f" if t["w"] == 4 else ">d", x))}
        if k == "uuid":
            return {"u": self._bytes(16, avoid)}
        if k == "coord":
            return {"l": [self.value({"k": "float", "w": t["w"]}) for _ in range(t["n"])]}
        if k == "null":
            return NONE
        if k == "llsd":
            from .reflect import LLSD_DOCS
            return {"x": list(r.choice(LLSD_DOCS)[0])}
        if k == "bytearray":
            return {"b": self._bytes(self._plen(t["p"]), avoid)}
        if k == "bytesfixed":
            n = t["n"]
            if self.violate and r.random() < 0.5:
                n = max(0, n + r.choice([-1, 1, 2]))
            return {"b": self._bytes(n, avoid)}
        if k == "bytesgreedy":
            return {"b": self._bytes(r.choice([0, 1, 2, 5, 20]), avoid)}
        if k == "bytesterm":
            return {"b": self._bytes(r.choice([0, 1, 2, 5, 20]), set(avoid) | set(t["terms"]))}
        if k == "str":
            if t["p"]["w"] == 1 and (self.violate or r.random() < 0.05):
                n = self._plen(t["p"], 1 if t["nt"] else 0)
                return {"s": [97] * max(0, n)}
            return {"s": self._text(100, avoid, True)}
        if k == "strfixed":
            n = t["n"]
            wide = [c.encode("utf8") for c in ("é", "ß", "日", "本", "𝔲")]
            if self.violate and r.random() < 0.6:
                if r.random() < 0.5 and not avoid:
                    # fits in characters, not in bytes: the width is a width in bytes
                    c = r.choice(wide)
                    k2 = n // len(c) + 1
                    return {"s": list(c * k2)} if k2 <= max(n, 1) or True else {"s": [98] * (n + 1)}
                return {"s": [98] * (n + r.randrange(1, 3))}
            if not avoid and r.random() < 0.3:
                # multi-byte characters filling the field exactly or leaving one byte of padding, last position included
                out = b""
                target = n - r.choice([0, 0, 1])
                while True:
                    c = r.choice(wide + [b"a"])
                    if len(out) + len(c) > target:
                        break
                    out += c
                out = b"a" * (target - len(out)) + out if r.random() < 0.5 else out + b"a" * (target - len(out))
                return {"s": list(out)}
            return {"s": self._text(n, avoid, True)}
        if k == "cstr":
            return {"s": self._text(40, set(avoid) | set(t["terms"]), 0 not in t["terms"] and False)}
        if k == "bitfield":
            ents = []
            cur = 0
            for f in t["fs"]:
                mask = (1 << f["bits"]) - 1
                x = r.choice([0, mask, r.randrange(0, mask + 1)])
                raw = x if t["shift"] else x << cur
                if self.violate and r.random() < 0.4:
                    if t["shift"] or cur == 0:
                        raw = (mask + 1) if t["shift"] else (mask + 1) << cur
                    else:
                        # un-shifted member: bits above its mask, below its position, or both
                        low = r.randrange(1, 1 << cur)
                        raw = r.choice([(mask + 1) << cur, raw | low, ((mask + 1) << cur) | raw | low])
                ents.append({"n": f["n"], "v": cint(raw)})
                cur += f["bits"]
            return {"d": ents}
        if k == "tuple":
            out = []
            for c in t["cs"]:
                out.append(self.value(c, ({"l": list(out)},) + tuple(frames), avoid))
            if self.violate and r.random() < 0.2:
                out.append(cint(0))
            return {"l": out}
        if k == "template":
            ents = []
            for f in t["fs"]:
                v = self.value(f["t"], ({"d": list(ents)},) + tuple(frames), avoid)
                if t["skip"] and f["t"]["k"] in ("optprefix", "optflag") and "none" in v:
                    continue
                ents.append({"n": f["n"], "v": v})
            return {"d": ents}
        if k == "coll":
            if t["m"] == "fixed":
                n = t["n"]
                if self.violate and r.random() < 0.5:
                    n = max(0, n + r.choice([-1, 1]))
            elif t["m"] == "prefix":
                n = self._plen(t["p"]) if t_fixed(t["c"]) is not None and (t_fixed(t["c"]) or 0) <= 4 else r.choice([0, 1, 2, 3])
            else:
                n = r.choice([0, 1, 2, 4])
            out = []
            for _ in range(n):
                out.append(self.value(t["c"], ({"l": list(out)},) + tuple(frames), avoid))
            return {"l": out}
        if k == "optprefix":
            return NONE if r.random() < 0.35 else self.value(t["c"], frames, avoid)
        if k == "ifpresent":
            return NONE if r.random() < 0.35 else self.value(t["c"], frames, avoid)
        if k == "optflag":
            from .reflect import _lookup
            fl = _lookup(frames, 0, t["field"])
            if fl is None or "i" not in fl or fl["i"] < 0:
                return NONE
            return self.value(t["c"], frames, avoid) if fl["i"] & t["mask"] else NONE
        if k == "lenswitch":
            c = r.choice(t["ch"])
            n = t_fixed(c["t"])
            return {"tag": cint(n), "val": self.value(c["t"], frames, avoid)}
        if k == "enumswitch":
            c = r.choice(t["ch"])
            return {"tag": cint(c["key"]), "val": self.value(c["t"], frames, avoid)}
        if k == "flagswitch":
            ents = []
            for c in t["ch"]:
                if r.random() < 0.5:
                    ents.append({"n": c["name"], "v": self.value(c["t"], frames, avoid)})
            return {"d": ents}
        if k == "ctxswitch":
            from .reflect import _ctx_option
            ct = _ctx_option(t, frames)
            if ct is None:
                return NONE
            return self.value(ct, frames, avoid)
        if k == "typedbytes":
            if t["ein"] and r.random() < 0.3:
                return NONE
            return self.value(t["c"], frames, frozenset(t["terms"]) if t["m"] == "term" else avoid)
        if k == "adapter":
            v = self.value(t["c"], frames, avoid)
            if t.get("name") == "IntFlag" and "i" in v and v["i"] < 0:
                return cint(0)
            return v
        raise AssertionError(k)


def _clean(t):
    if isinstance(t, list):
        return [_clean(x) for x in t]
    if isinstance(t, dict):
        return {k: _clean(v) for k, v in t.items() if not k.startswith("_")}
    return t


def _gen_cases(seed, n, max_depth):
    import random
    reflect = _reflect()
    rng = random.Random(seed)
    g = Gen(rng, max_depth)
    events = []
    stats = {"unbuildable": 0}
    while len(events) < n:
        tree = _clean(g.tree(rng.randrange(1, max_depth + 1)))
        st, spec = impl_call(reflect.build, tree)
        if st != "ok":
            if "Unreflectable" in spec:
                raise common.MachineryError("generator made an unbuildable tree %s: %s" % (json.dumps(tree)[:300], spec))
            events.append({"ev": "Construct", "t": reflect.strip(tree), "exc": spec})
            continue
        if reflect.strip(reflect.to_tree(spec)) != reflect.strip(tree):
            raise common.MachineryError("bridge: to_tree(build(t)) != t for %s" % json.dumps(tree)[:400])
        size, size_exc = _calc_size(spec)
        sd = t_sd(tree)
        for _ in range(rng.choice([1, 2, 3])):
            g.violate = rng.random() < 0.12
            cv = g.value(tree)
            endian = rng.choice("<>")
            tails = [b""] + [bytes(rng.choice([0, 1, 255, rng.randrange(256)]) for _ in range(rng.choice([1, 2, 5])))
                             for _ in range(2)]
            obs = observe(spec, tree, cv, endian, tails, sd)
            obs.pop("timeout", None)
            if any(w["st"] == "shape" for w in obs["writes"]):
                continue
            ev = {"ev": "RT", "t": tree, "v": cv, "e": endian, "size": size if size >= -2 else -2,
                  "writes": obs["writes"], "reads": obs["reads"]}
            if size < -1:
                ev["size_exc"] = size_exc
            events.append(ev)
    return events[:n], stats


def _gen_chunk(args):
    _limit_worker_memory()
    return _gen_cases(*args)


def _validate(chk: Check, traces, shards):
    """One ndjson file and one TLC per shard.  The trace spec consumes every event (failed clauses are printed),
    so a file that is not consumed to the end is a rejection of the event it stopped at."""
    cfg_text = "SPECIFICATION TraceSpec\nPOSTCONDITION TraceAccepted\nCHECK_DEADLOCK FALSE\n"
    parts = [p for p in _split(list(range(len(traces))), shards) if p]

    def one(args):
        no, idx = args
        d = os.path.join(chk.scratch, "tr-%d-%d" % (len(chk.cov["tlc_runs"]), no))
        os.makedirs(d, exist_ok=True)
        lines, owner = [], []
        for ti in idx:
            lines.append({"ev": "Reset", "tid": ti})
            owner.append(None)
            for ev in traces[ti]:
                lines.append(ev)
                owner.append(ev)
        tf = os.path.join(d, "trace.ndjson")
        common.write_ndjson(tf, lines)
        cfg = os.path.join(d, "Combinators_Trace.cfg")
        with open(cfg, "w") as f:
            f.write(cfg_text)
        res = run_tlc(os.path.join(SPECS, "Combinators_Trace.tla"), cfg, workers=1, scratch=d, env={"TRACE_FILE": tf},
                      heap="3g", jvm=JVM)
        import re
        import shutil
        m = re.search(r"TRACE_REACHED (\d+) OF (\d+)", res.out)
        shutil.rmtree(d, ignore_errors=True)
        if m is None or int(m.group(2)) != len(lines):
            raise common.MachineryError("Combinators_Trace did not report progress:\n" + res.out[-3000:])
        reached = int(m.group(1))
        return res, (owner[reached] if reached < len(lines) else None)

    with cf.ThreadPoolExecutor(max_workers=len(parts)) as ex:
        out = list(ex.map(one, list(enumerate(parts))))
    return [o[1] for o in out if o[1] is not None], [o[0] for o in out]


def _traces(chk: Check, n_cases, max_depth, per_trace=12, shards=8):
    seeds = [(chk.rng.randrange(1 << 60), (n_cases + common.NCPU - 1) // common.NCPU, max_depth) for _ in range(common.NCPU)]
    parts = common.parallel_map(_gen_chunk, seeds)
    events = [e for p in parts for e in p[0]]
    for e in events:
        if e["ev"] == "Construct":
            chk.violation("B2: constructing the combinator raised", {"kind": "construct"}, e)
    events = [e for e in events if e["ev"] == "RT"]
    for i, e in enumerate(events):
        e["id"] = i
    traces = [events[i:i + per_trace] for i in range(0, len(events), per_trace)]
    rej, results = _validate(chk, traces, shards)
    fails, skips, domain = {}, 0, set()
    for r in results:
        chk.add_tlc(r, "Combinators_Trace depth<=%d" % max_depth)
        for rec in r.printed():
            if not isinstance(rec, dict):
                continue
            if "fail" in rec:
                fails.setdefault(rec["id"], []).append(rec["fail"])
            elif "skip" in rec:
                skips += 1
            elif "domain" in rec:
                domain.add(rec["id"])
    for i in domain:
        chk.nontrivial(("case", max_depth, i))
    chk.count(sum(len(e["writes"]) + len(e["reads"]) + 1 for e in events))
    chk.cov["traces_validated_against_impl"] += len(events)
    kinds = set()
    for e in events:
        _kinds(e["t"], kinds)
    chk.cov.setdefault("traces", []).append({"depth": max_depth, "cases": len(events), "domain_cases": len(domain),
                                             "outside_domain_skipped": skips, "kinds_seen": sorted(kinds)})
    if len(domain) < len(events) // 2:
        raise common.MachineryError("generator: only %d of %d cases are domain values" % (len(domain), len(events)))
    for ev in rej:
        chk.violation("B2: case rejected by Combinators_Trace", {"kind": "b2-reject"}, {"rejected": common._clip(ev, 80)})
    for i, names in sorted(fails.items()):
        e = events[i]
        names = sorted(set(names))
        detail = {"failed_clauses": names, "case": common._clip(e, 80)}
        if names == ["RT.size query raised"]:
            chk.violation("B2: calc_size() raised",
                          {"kind": "calc_size-raises", "exc": str(e.get("size_exc", "")).split(":")[0], **_failing_size_node(e["t"])}, detail)
        else:
            first = [n for n in names if n != "RT.size query raised"][0]
            chk.violation("B2: %s" % first, {"kind": "b2", "clause": first, "top": e["t"]["k"], "kinds": sorted(_kinds(e["t"]))}, detail)
    chk.sample({"binding": "B2 case (code->spec)", "event": common._clip(events[len(events) // 3], 30)})


# ----------------------------------------------------------------------------------------
# instances have no history: every sequence of size queries / writes / reads on one instance
# ----------------------------------------------------------------------------------------

def _histories(chk: Check, depth):
    cfg = os.path.join(chk.scratch, "inst-%d.cfg" % depth)
    with open(cfg, "w") as f:
        f.write("SPECIFICATION Spec\nCONSTANT Depth = %d\nINVARIANT Pure\n" % depth)
    res = run_tlc(os.path.join(SPECS, "Combinators_Inst.tla"), cfg, workers=1, scratch=chk.scratch, heap="1g", jvm=JVM)
    chk.require_model_ok(res, "Combinators_Inst depth %d" % depth)
    hs = [tuple(r["hist"]) for r in res.printed() if isinstance(r, dict) and "hist" in r]
    hs = sorted(set(h for h in hs if h), key=lambda h: (len(h), h))
    if len(hs) != sum(4 ** k for k in range(1, depth + 1)):
        raise common.MachineryError("Combinators_Inst printed %d histories for depth %d" % (len(hs), depth))
    return hs


_HIST = {}


def replay_histories(rec):
    """All histories on fresh real instances of one tree; answers compared with the tree's table."""
    reflect, se = _reflect(), _se()
    base = rec["t"]
    ok_rows = [r for r in rec["rows"] if r["st"] == "ok"]
    lens = sorted({len(r["b"]) for r in ok_rows})
    row = ok_rows[0] if ok_rows else None
    viols = []
    n_eval = 0
    variants = [(base, "plain", _HIST["deep"])]
    deco = decorate(base)
    if deco != base:
        variants.append((deco, "decorated", _HIST["shallow"]))
    for vt, flavour, hists in variants:
        feat = {"top": base["k"], "flavour": flavour, "kinds": sorted(_kinds(base))}
        try:
            pv = reflect.to_py(vt, row["v"], False) if row else None
        except reflect.Unreflectable:
            pv = row = None
        for h in hists:
            _DC_RESET(reflect)
            st, spec = impl_call(reflect.build, vt)
            if st != "ok":
                break
            parts = reflect.subspecs(spec)
            answers = {}       # object id -> list of answers
            bad = None
            for step, a in enumerate(h):
                n_eval += 1
                if a in ("Q", "QI"):
                    for obj in ([spec] if a == "Q" else parts):
                        size, exc = _calc_size(obj)
                        answers.setdefault(id(obj), []).append(size)
                        if size == -2 and a == "Q":
                            bad = ("calc_size() raised", {"kind": "calc_size-raises", "exc": str(exc).split(":")[0], **_failing_size_node(vt)})
                        elif size < -1 and a == "Q":
                            bad = ("calc_size() returned neither a size nor None", {"kind": "calc_size-type", **feat})
                        elif a == "Q" and size >= 0 and any(n != size for n in lens):
                            bad = ("calc_size() differs from the size of an encoding", {"kind": "calc_size-wrong", **feat})
                        if len(set(answers[id(obj)])) > 1:
                            bad = ("calc_size() is not a function of the spec: it answered differently later on the same instance",
                                   {"kind": "calc_size-unstable", "queried": "instance" if obj is spec else "nested spec", **feat})
                elif row is not None and a == "W":
                    w = se.BufferWriter(">")
                    st, exc = impl_call(w.write, spec, pv)
                    if st != "ok" or w.copy_buffer() != bytes(row["b"]):
                        bad = ("written bytes depend on what was done to the instance before", {"kind": "write-history", **feat})
                elif row is not None and a == "R":
                    r = se.BufferReader(">", bytes(row["b"]), pod=False)
                    st, val = impl_call(r.read, spec)
                    cst, cval = _canon_call(reflect, val, vt, False) if st == "ok" else ("raise", val)
                    if st != "ok" or cst != "ok" or cval != row["v"] or len(r):
                        bad = ("read value depends on what was done to the instance before", {"kind": "read-history", **feat})
                if bad:
                    viols.append((bad[0], dict(bad[1], history=list(h[:step + 1])),
                                  {"tree": vt, "history": list(h), "failed_at_step": step, "size_answers": list(answers.values()),
                                   "encoding_lengths": lens, "spec_size": rec["size"]}))
                    break
            if len(viols) >= 6:
                return n_eval, viols
    return n_eval, viols


def _DC_RESET(reflect):
    """Dataclass types are cached per tree by the bridge; their field specs would carry history from one replay to
    the next, so a fresh instance means fresh dataclass types too."""
    reflect._DC_CACHE.clear()


def _hist_chunk(recs):
    _limit_worker_memory()
    n = 0
    out = []
    for r in recs:
        a, v = replay_histories(r)
        n += a
        out += v
    return n, out[:40]


def _instances(chk: Check, label, recs, deep, shallow):
    """B1 on the stateless instance machine: every history up to `deep` steps on a fresh plain instance of every tree
    (and up to `shallow` steps on its decorated flavour)."""
    _HIST["deep"] = _histories(chk, deep)
    _HIST["shallow"] = [h for h in _HIST["deep"] if len(h) <= shallow]
    done = common.parallel_map(_hist_chunk, common.chunked(recs, common.NCPU * 4))
    chk.count(sum(d[0] for d in done))
    n_hist = len(recs) * len(_HIST["deep"])
    chk.cov["traces_validated_against_impl"] += n_hist
    chk.cov.setdefault("instance_histories", []).append({"label": label, "trees": len(recs), "histories_per_tree": len(_HIST["deep"]),
                                                         "depth": deep, "decorated_depth": shallow})
    for d in done:
        for what, feat, detail in d[1]:
            chk.violation("B1 %s: %s" % (label, what), feat, detail)
    chk.sample({"binding": "B1 instance history (spec->code)", "history": list(_HIST["deep"][len(_HIST["deep"]) // 2]),
                "tree": recs[len(recs) // 3]["t"]})


# ----------------------------------------------------------------------------------------
# flag words: constructed flag classes x every byte x both reader modes
# ----------------------------------------------------------------------------------------

def _flags(chk: Check):
    reflect, se = _reflect(), _se()
    cfg = ("SPECIFICATION Spec\nINVARIANT PodDeterminesWord\nINVARIANT LeftIsUnnamed\nINVARIANT NamesCanonical\n")
    res = common.model_check(chk, "Combinators_Flags", cfg, "Combinators_Flags", workers=1, heap="2g")
    rows = [r for r in res.printed() if isinstance(r, dict) and "flagrow" in r]
    if len(rows) < 256 or len(rows) % 256:
        raise common.MachineryError("Combinators_Flags printed %d rows" % len(rows))
    U8T = {"k": "int", "w": 1, "s": False}
    for r in rows:
        chk.count(8)
        tree = {"k": "adapter", "name": "IntFlag", "ms": r["ms"], "c": U8T}
        spec = reflect.build(tree)
        cls = spec.flag_cls
        n = r["word"]
        pod_form = tuple(r["names"]) + ((r["left"],) if r["left"] else ())
        canon_members = [m["n"] for m in r["ms"]]
        feat = {"class": canon_members, "word": n}
        detail = {"members": r["ms"], "word": n, "spec_plain_data_form": list(pod_form)}

        def wr(v):
            w = se.BufferWriter("<")
            st, exc = impl_call(w.write, spec, v)
            return (st, list(w.copy_buffer())) if st == "ok" else (st, exc)

        def rd(pod):
            rdr = se.BufferReader("<", bytes([n]), pod=pod)
            return impl_call(rdr.read, spec)
        # bytes -> value, per mode
        st, pv = rd(True)
        if st != "ok" or pv != pod_form or type(pv) is not tuple:
            chk.violation("B3 flags: plain-data form of a flag word differs from FlagPod", {"kind": "flag-pod-form", **feat},
                          {**detail, "impl": repr((st, pv))})
        st2, rv = rd(False)
        if st2 != "ok" or not isinstance(rv, cls) or int(rv) != n:
            chk.violation("B3 flags: rich form of a flag word is not the word", {"kind": "flag-rich-form", **feat},
                          {**detail, "impl": repr((st2, rv))})
        # value -> bytes (spec's forms), and bytes -> value -> bytes (what the reader returned)
        for what, v in (("spec plain-data form", pod_form), ("integer", n), ("rich", cls(n)),
                        ("plain-data form as read", pv if st == "ok" else None), ("rich form as read", rv if st2 == "ok" else None)):
            if v is None:
                continue
            got = wr(v)
            if got != ("ok", [n]):
                chk.violation("B3 flags: writing back a flag word changes it", {"kind": "flag-write", "form": what, **feat},
                              {**detail, "written_value": repr(v), "impl": repr(got)})
        if r["left"] or r["names"]:
            chk.nontrivial(("flag", r["flagrow"], n))
    chk.cov["traces_validated_against_impl"] += len(rows)
    chk.cov["flag_rows"] = len(rows)
    chk.sample({"binding": "B3 flag row (spec->code)", "row": rows[len(rows) // 2 + 17]})


def _split(xs, n):
    n = max(1, min(n, len(xs)))
    return [xs[i::n] for i in range(n)]


def run(chk: Check):
    chk.cov["rule"] = ("instances: every history of size queries / writes / reads (TLC-enumerated, depth 2-4) on a fresh real instance "
                       "of every table tree; flag words: 6 constructed flag classes x 256 bytes x both modes. "
                       "spec->code: every tree of the bounded grammar x every candidate value (domain, boundary and just-outside-limit "
                       "values) x both byte orders x rich/plain-data input x 4 trailing byte strings, replayed into real combinators in "
                       "two flavours (plain; dataclass/lazy/enum/flag decorated); non-trivial = trees with at least one domain value. "
                       "code->spec: random deeper trees, TLC recomputes Enc/Dec/Size; non-trivial = cases TLC accepts as domain values.")
    chk.assumptions += [
        "derived domain: strings are UTF-8 without trailing NUL; terminated bytes/strings do not contain a terminator; an element that is "
        "not self-delimiting is the last one that writes anything in its window; entries of a greedy collection, the content of IfPresent "
        "and of empty_is_none typed bytes have non-empty encodings; LengthSwitch tags equal the encoded length; context switches read a "
        "field of an enclosing template that precedes them; FlagSwitch values use only switched flags; Collection(0, x) is treated as greedy",
        "adapters (enum/flag/identity/dataclass) are checked on their child's encoding; their value maps belong to C09/C10",
        "float and UUID leaves are opaque byte strings produced by struct / uuid, never by Hippolyzer code",
        "reflection bridge harness/reflect.py (to_tree/build/canon/to_py) is trusted; it is self-checked by to_tree(build(t)) == t",
    ]
    kernel = ["U8", "U16", "BA8", "BG", "CS", "STR8", "Null", "BF2"]
    r1 = _tables(chk, "depth<=1", [["leaf"]] + _split(ALL_CONS, 7), ALL_LEAVES, ["U8"], ["CollP"], 1, 4, 8)
    r2 = _tables(chk, "ill-formed", [MISUSE_CONS], ["U8", "S8", "F32", "BG", "Null", "BA32", "STR8"], ["U8"], ["CollP"], 1, 4, 8,
                 vacuous_ok=True)
    r3 = _tables(chk, "context", _split(CTX_CONS, 4), ["U8", "U16", "S8", "UUID", "BA8", "CS", "BG", "Null", "BIT8"], ["U8"], ["CollP"],
                 1, 4, 10)
    _flags(chk)
    if chk.tier == "quick":
        r4 = _tables(chk, "depth2-kernel", _split(ALL_CONS, 8), ["U8"], kernel, ALL_CONS, 2, 3, 6)
        _instances(chk, "depth<=1", r1 + r2 + r3, 3, 2)
        _instances(chk, "depth2-kernel", r4, 2, 1)
        _traces(chk, 1600, 4)
    else:
        r4 = _tables(chk, "depth2", _split(ALL_CONS, 13), ["U8"], ALL_LEAVES, ALL_CONS, 2, 3, 6)
        small = ["U8", "U16", "BG", "CS", "Null", "BA8"]
        cons3 = ["CollP", "CollG", "CollF", "OptP", "IfP", "TBP", "TBGe", "TBTe", "TBF", "LenSw", "EnumSw", "FlagSw", "TupA",
                 "TmplFlag", "TmplSkip", "TmplCtx"]
        r5 = _tables(chk, "depth3-kernel", _split(ALL_CONS, 13), ["U8"], small, cons3, 3, 3, 5)
        _instances(chk, "depth<=1", r1 + r2 + r3, 4, 3)
        _instances(chk, "depth2", r4, 3, 2)
        _instances(chk, "depth3-kernel", r5, 2, 1)
        _traces(chk, 60000, 4, shards=16)
        _traces(chk, 15000, 5, shards=16)
        _traces(chk, 5000, 6, shards=16)
    chk.cov["exhaustive"] = True


def replay(chk: Check, r):
    """./check C08 --replay <file>: re-run the recorded failing case against the current tree and show both sides."""
    reflect = _reflect()
    d = r.get("detail", {})
    case = d.get("case")
    tree = d.get("tree") or (case or {}).get("t")
    value = d.get("value") if "value" in d else (case or {}).get("v")
    endian = d.get("endian") or (case or {}).get("e") or ">"
    print("recorded: %s\nfeatures: %s" % (r.get("what"), json.dumps(r.get("features"))))
    if tree is None:
        print(json.dumps(d, indent=1)[:4000])
        return
    spec = reflect.build(tree)
    print("tree   :", json.dumps(reflect.strip(tree)))
    print("calc_size():", impl_call(spec.calc_size))
    if value is not None:
        print("value  :", json.dumps(value), "endian", endian)
        if "spec_bytes" in d:
            print("spec   : status %s bytes %s" % (d.get("spec_status"), d.get("spec_bytes")))
        obs = observe(spec, tree, value, endian, TAILS, t_sd(tree))
        for w in obs["writes"]:
            print("write  :", json.dumps(w))
        for rd in obs["reads"]:
            print("read   :", json.dumps(rd))
        ok = all(w["st"] == "ok" for w in obs["writes"]) and all(x["st"] == "ok" and x["v"] == value for x in obs["reads"])
        if d.get("spec_status", "ok") == "ok" and not ok:
            chk.violation("replayed case still fails", dict(r.get("features", {})), {"tree": tree, "value": value, "obs": obs})
    if impl_call(spec.calc_size)[0] != "ok":
        chk.violation("replayed case: calc_size() still raises", dict(r.get("features", {})), {"tree": tree})
