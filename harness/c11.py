"""C11 — human-readable message text round-trips to the same datagram (HumanText.tla).

Model   : HumanText_MBT — the printer as a generator of line tokens, the parser as a machine over
          line tokens; laws (read-back, structure, safe mode) checked exhaustively by TLC.
Binding : B2 — every template x generated wire messages x {beautify off, on} x {no table, replacement
          table}: the real text is lexed into the parser's own line tokens, the abstract message is
          reflected from message + template + serializer registry, TLC checks that the lines are what
          the format prescribes, that its parser machine reads them back as meant, and that the two
          datagram bodies are equal.  Mutated texts (operator substitution, injected eval lines, broken
          continuations) validate the safe-mode clause against the machine.
The message generator lives in c12.py.
"""
from __future__ import annotations

import os
import random
import re

from . import common
from .common import Check, impl_call
from . import c12

_COMMENT = re.compile(r"^\s*(#.*)?$")
_ASSIGN = re.compile(r"^\s*(\w+)\s*(=[|$]*)\s*(.*)$")
REJECT = "ValueError: Can't use eval operator in safe mode"


def value_class(text: str, plain: bool) -> str:
    """Class of the value text of an assignment (classification of the INPUT, by parsing it):
    'special' one of the parser's plain forms (only looked for under plain '='), 'lit' a Python literal,
    'litnf' a literal except for the names inf / nan (repr of non-finite floats), 'expr' any other Python expression,
    'junk' not an expression."""
    import ast
    if plain:
        if re.match(r"\[\[(\w+)]]", text) or text.startswith("<") or re.match(r"\A\w+-\w+-.*", text) or text in ("inf", "-inf", "nan"):
            return "special"
    try:
        ast.parse(text.lstrip(" \t"), mode="eval")
    except (SyntaxError, ValueError, MemoryError, RecursionError):
        return "junk"
    try:
        ast.literal_eval(text)          # the standard library's own definition of "literal"
        return "lit"
    except Exception:  # noqa
        pass
    # a literal except that it spells non-finite floats the way repr() does (inf, nan): still only constants.
    # The text language has to take these for pretty-printed subfields holding an infinity to round-trip.
    class NF(ast.NodeTransformer):
        def visit_Name(self, node):
            return ast.copy_location(ast.Constant(float(node.id)), node) if node.id in ("inf", "nan") else node
    try:
        ast.literal_eval(NF().visit(ast.parse(text.lstrip(" \t"), mode="eval")))
        return "litnf"
    except Exception:  # noqa
        return "expr"


def tokenize(text: str):
    """The parser's own lexical view of a text: one token per stripped non-blank line.  An assignment token also
    carries the class of its whole value (continuation lines joined the way the parser joins them)."""
    lines = [x.strip() for x in text.split("\n") if x.strip()]
    toks = []
    for i, line in enumerate(lines):
        bs = line.endswith("\\")
        if _COMMENT.match(line):
            toks.append({"k": "comment", "name": "", "pk": False, "ev": False, "bs": bs, "val": "none"})
        elif line.startswith("["):
            m = re.search(r"\w+", line)
            toks.append({"k": "block" if m else "other", "name": m.group(0) if m else "", "pk": False, "ev": False, "bs": bs, "val": "none"})
        else:
            m = _ASSIGN.match(line)
            if m:
                val, j = m.group(3), i + 1
                while val.endswith("\\"):
                    val = val[:-1].rstrip()
                    if j < len(lines):
                        val += lines[j]
                        j += 1
                toks.append({"k": "assign", "name": m.group(1), "pk": "|" in m.group(2), "ev": "$" in m.group(2), "bs": bs,
                             "val": value_class(val, m.group(2) == "=")})
            else:
                toks.append({"k": "other", "name": "", "pk": False, "ev": False, "bs": bs, "val": "none"})
    return toks


# ---- evaluation sentinel: any call of the module's eval entry point is recorded
_EVALS = [0]


def _install_sentinel():
    from hippolyzer.lib.base.message import message_formatting as mf
    if getattr(mf.subfield_eval, "_verif", False):
        return
    orig = mf.subfield_eval

    def subfield_eval(*a, **kw):
        _EVALS[0] += 1
        return orig(*a, **kw)
    subfield_eval._verif = True
    mf.subfield_eval = subfield_eval


def _hit():
    _EVALS[0] += 1
    return 1


def abstract(msg, text):
    """Abstract message of HumanText.tla reflected from the message, the registry and the printed spans."""
    import hippolyzer.lib.base.serialization as se
    blocks = []
    for bname, blist in msg.blocks.items():
        insts = []
        for num, blk in enumerate(blist):
            vs = []
            for vname, val in blk.items():
                ser = se.SUBFIELD_SERIALIZERS.get((msg.name, bname, vname))
                pretty, inline = "ok", False
                if ser is not None:
                    inline = bool(ser.ORIG_INLINE)
                    st, r = impl_call(ser.deserialize, blk, val, pod=True)
                    pretty = "raise" if st != "ok" else ("unser" if r is se.UNSERIALIZABLE else "ok")
                span = text.spans.get((msg.name, bname, num, vname))
                k = 1
                if span:
                    k = 1 + sum(1 for ln in str(text)[span[0]:span[1]].split("\n") if ln.rstrip().endswith("\\"))
                vk = pvk = "lit"
                if span:
                    # classes of the printed values of this variable: the first "=|" and the first plain "=" line of its span
                    for t in tokenize(str(text)[span[0]:span[1]].replace("\n  #", "\n  ")):
                        if t["k"] == "assign" and t["name"] == vname:
                            if t["pk"]:
                                pvk = t["val"]
                            else:
                                vk = t["val"]
                vs.append({"n": vname, "ser": ser is not None, "pretty": pretty, "inline": inline, "k": k, "vk": vk, "pvk": pvk})
            insts.append(vs)
        blocks.append({"name": bname, "inst": insts})
    ncom = (1 if msg.packet_id is not None else 0) + (1 if msg.extra else 0)
    return {"ncom": ncom, "blocks": blocks}


_PAYLOAD_LENS = [0, 0, 1, 2, 3, 4, 8, 12, 16, 16, 20, 28, 32, 36, 44, 48, 60, 64, 76, 86]


def wire_message(rng, tmpl, style):
    """A message as decoded from the wire.  style: 'text' | 'bytes' | 'pretty' (payloads the registered
    subfield serializers have a chance to accept)."""
    import hippolyzer.lib.base.serialization as se
    from hippolyzer.lib.base.message.udpserializer import UDPMessageSerializer
    from hippolyzer.lib.base.message.udpdeserializer import UDPMessageDeserializer
    from hippolyzer.lib.base.settings import Settings
    from hippolyzer.lib.base.network.transport import Direction
    ctx_case = style if isinstance(style, tuple) else None
    if ctx_case:
        style = "text"
    counts = c12.gen_counts(rng, tmpl, var_counts=(1,) if ctx_case else (0, 1, 1, 1, 2, 3))
    msg = c12.build_message(rng, tmpl, counts, text_mode="bytes" if style == "bytes" else "text")
    if ctx_case:
        # a context-switched subfield: the sibling field(s) select the sub-template, the payload is the case's
        _, bname, vname, ctx, payload = ctx_case
        blk = msg.blocks[bname][0]
        for k, v in ctx.items():
            blk[k] = v
        blk[vname] = payload
    for b in tmpl.blocks:
        for blk in msg.blocks[b.name]:
            for v in b.variables:
                ty = c12.tyname(v)
                if ctx_case and b.name == ctx_case[1] and blk is msg.blocks[b.name][0] and (v.name == ctx_case[2] or v.name in ctx_case[3]):
                    continue
                if ty == "Variable" and style == "pretty" and (tmpl.name, b.name, v.name) in se.SUBFIELD_SERIALIZERS:
                    n = rng.choice(_PAYLOAD_LENS)
                    c = rng.random()
                    # zeros, random bytes, or a run of float32 +/-infinity (a legal float value wherever the subfield holds floats)
                    blk[v.name] = (bytes(n) if c < 0.5 else bytes(rng.randrange(256) for _ in range(n)) if c < 0.8
                                   else (rng.choice([b"\x00\x00\x80\x7f", b"\x00\x00\x80\xff"]) * (n // 4 + 1))[:n])
                elif ty == "Variable" and isinstance(blk[v.name], (bytes, bytearray)) and rng.random() < 0.5:
                    # strings as they come off the wire: NUL-terminated text, embedded NULs, non-UTF8, many lines
                    maxlen = 255 if v.size == 1 else 2000
                    s = rng.choice([
                        lambda: c12.gen_text(rng, 60).encode("utf8") + b"\x00",
                        lambda: c12.gen_text(rng, 40).encode("utf8") + b"\x00\x00",
                        lambda: b"a\x00b\x00",
                        lambda: b"caf\xe9 \xff\xfe\x00",
                        lambda: b"".join(b"line %d '\"\\\n" % i for i in range(rng.choice([1, 4, 5, 6, 9]))) + b"\x00",
                        lambda: ("x" * rng.choice([90, 120, 200])).encode() + b"\x00",
                        lambda: ("word " * rng.choice([20, 30, 41])).encode() + b"\x00",
                        lambda: b"#not a comment \\\x00", lambda: b"[NotABlock]\x00", lambda: b"<1,2,3>\x00", lambda: b"ab-cd-ef\x00",
                        lambda: b"[[AGENT_ID]]\x00", lambda: b"Name = 'x' \\",
                    ])()
                    blk[v.name] = s[:maxlen]
                elif ty in ("F32", "F64") and rng.random() < 0.02:
                    blk[v.name] = rng.choice([float("inf"), float("-inf")])
    ser = UDPMessageSerializer()
    msg.send_flags = rng.choice([0, 0, 0x80, 0x40, 0xC0, 0x20, 0x08, 0x41])
    msg.packet_id = rng.choice([0, 1, 7, rng.randrange(2 ** 32)])
    wire = ser.serialize(msg)
    settings = Settings()
    settings.ENABLE_DEFERRED_PACKET_PARSING = False
    m = UDPMessageDeserializer(settings=settings).deserialize(wire)
    m.direction = rng.choice([Direction.IN, Direction.OUT])
    return m


def _entry_corpus():
    """Seed corpus of ONE-entry collection payloads in the wire layouts the protocol uses for repeatable entries
    (count + type/length/value records; newline-separated text records).  Which registered serializer takes which of them
    is found out by trying (reflection), the repetition itself is a generic byte-level transformation."""
    import struct
    tlv = [(t, ln) for t in range(0x10, 0x100, 0x10) for ln in (0, 4, 16, 17, 24, 28, 44, 49, 64)]
    recs = [("tlv", struct.pack("<HI", t, ln) + bytes(ln)) for t, ln in tlv]
    recs += [("text", b"AttachItemID STRING RW SV 1"), ("text", b"FirstName STRING RW SV Ab"), ("text", b"Title STRING RW SV x y"),
             ("text", b"a U32 R S 5")]
    return recs


def _repetition_payloads(se, ser, fresh_block, ctx, limit=6):
    """Payloads in which an entry / key / type REPEATS (A A, A B A), wherever this serializer's wire format allows it."""
    ok_entries = {"tlv": [], "text": []}
    seen_keys = set()
    for kind, rec in _entry_corpus():
        one = (b"\x01" + rec) if kind == "tlv" else (rec + b"\x00")
        st, val = impl_call(ser.deserialize, fresh_block(ctx), one, pod=True)
        if st == "ok" and val is not se.UNSERIALIZABLE and impl_call(bool, val) == ("ok", True):
            st, back = impl_call(ser.serialize, fresh_block(ctx), val)
            key = rec[:2] if kind == "tlv" else rec.split(b" ")[0]          # one entry per type / name
            if st == "ok" and bytes(back) == one and len(ok_entries[kind]) < 3 and key not in seen_keys:
                seen_keys.add(key)
                ok_entries[kind].append(rec)
    out = []
    for kind, recs in ok_entries.items():
        combos = [[a, a] for a in recs[:2]] + [[a, b, a] for a in recs[:1] for b in recs[1:2]] + [[a, b, a, b] for a in recs[:1] for b in recs[1:2]]
        for combo in combos:
            raw = (bytes([len(combo)]) + b"".join(combo)) if kind == "tlv" else (b"\n".join(combo) + b"\x00")
            st, val = impl_call(ser.deserialize, fresh_block(ctx), raw, pod=True)
            if st == "ok" and val is not se.UNSERIALIZABLE and impl_call(repr, val)[0] == "ok":
                out.append(raw)
    return out[:limit]


def _embedded_repetition_payloads(se, ser, fresh_block, ctx, pool, limit=6):
    """For a container payload (found as the shortest all-zero payload the serializer takes): put a collection with
    repeated entries (from `pool`, found on other serializers) wherever the container has an empty collection (a zero
    count byte) -- kept if the serializer still reads the result."""
    base = None
    for n in range(1, 261):
        st, val = impl_call(ser.deserialize, fresh_block(ctx), bytes(n), pod=True)
        if st == "ok" and val is not se.UNSERIALIZABLE and impl_call(repr, val)[0] == "ok":
            base = bytes(n)
            break
    if base is None or len(base) < 8:
        return []
    out = []
    for rep in pool[:4]:
        for i in range(len(base)):
            raw = base[:i] + rep + base[i + 1:]
            st, val = impl_call(ser.deserialize, fresh_block(ctx), raw, pod=True)
            if st == "ok" and val is not se.UNSERIALIZABLE and impl_call(repr, val)[0] == "ok":
                out.append(raw)
                break
    return out[:limit]


class _RecordingBlock:
    """Stands in for a block while probing a serializer: records which sibling fields it asks for."""

    def __init__(self, block):
        self._b, self.asked = block, []

    def __getitem__(self, k):
        self.asked.append(k)
        return self._b[k]

    def get(self, k, default=None):
        self.asked.append(k)
        return self._b.get(k, default)

    def __getattr__(self, k):
        if k.startswith("_") or k in ("asked",):
            raise AttributeError(k)
        b = object.__getattribute__(self, "_b")
        if k in b.vars:
            self.asked.append(k)
        return getattr(b, k)

    def __contains__(self, k):
        return k in self._b


def _sibling_domain(se, tmpl, bname, field):
    """Values of a context field worth distinguishing: the members of its registered enum / flag class if it has one."""
    import enum
    reg = se.SUBFIELD_SERIALIZERS.get((tmpl.name, bname, field))
    cls = getattr(getattr(reg, "_adapter", None), "enum_cls", None) or getattr(getattr(reg, "_adapter", None), "flag_cls", None)
    tv = tmpl.get_block(bname).get_variable(field)
    lo, hi = c12.INT_RANGE.get(c12.tyname(tv), (0, 255))
    if cls is not None and issubclass(cls, enum.IntFlag):
        bits = sorted({int(m) for m in cls.__members__.values() if lo <= int(m) <= hi})
        return [0] + bits[:8] + ([bits[0] | bits[-1]] if len(bits) > 1 else [])
    if cls is not None:
        vals = sorted({int(m) for m in cls.__members__.values() if lo <= int(m) <= hi})
        unknown = next(v for v in range(hi, lo - 1, -1) if v not in vals)
        return vals[:24] + [unknown]
    return [v for v in (0, 1, 2, 3, 255) if lo <= v <= hi]


_CTX_PAYLOADS = [b"", b"Ahern/128/128/25", b"Ahern/128/128/25\x00", "caf\u00e9 \u2603".encode("utf8"), b"\x01\x02\xff\x00\x10",
                 b"\x00", bytes(4), bytes(16), bytes(17), bytes(32), bytes(48), b"\xff" * 16,
                 b"\x00\x00\x80\x7f" * 4, b"\x00\x00\x80\x7f" * 7]        # float32 +inf where the sub-template holds floats


def context_cases(rng, thorough):
    """By reflection over the serializer registry: every subfield serializer whose reading depends on sibling fields of
    its block (enum-switched, flag-switched, or found by probing which siblings it asks for), every value of that
    context that selects a sub-template (plus one that selects none), and a few payload classes for the switched field:
    empty, text without / with NUL, short binary, zeros, and payloads the selected sub-template itself produces."""
    import hippolyzer.lib.base.templates  # noqa
    import hippolyzer.lib.base.serialization as se
    from hippolyzer.lib.base.message.message import Block
    tmpls = {t.name: (i, t) for i, t in enumerate(c12.templates())}
    cases, seen_regs, n_falsy, n_rep, rep_pool = [], [], [0], [0], []
    regs = sorted(se.SUBFIELD_SERIALIZERS.items(), key=lambda kv: (kv[0][2] != "ExtraParams" and "Params" not in kv[0][2], kv[0]))
    for (mname, bname, vname), ser in regs:
        if mname not in tmpls:
            continue
        ti, tmpl = tmpls[mname]
        try:
            tvar = tmpl.get_block(bname).get_variable(vname)
        except KeyError:
            continue
        is_bytes = c12.tyname(tvar) in ("Variable", "Fixed")

        def fresh_block(ctx):
            b = Block(bname)
            b.message_name = mname
            for v in tmpl.get_block(bname).variables:
                b[v.name] = c12.gen_value(rng, v)
            for k, v in ctx.items():
                b[k] = v
            return b
        # --- which siblings select the sub-template, and with which values
        ctxs = None
        if isinstance(ser, type) and issubclass(ser, se.EnumSwitchedSubfieldSerializer):
            keys = [int(k) for k in ser.TEMPLATES]
            extra = [v for v in _sibling_domain(se, tmpl, bname, ser.ENUM_FIELD) if v not in keys][-1:]
            ctxs = [{ser.ENUM_FIELD: v} for v in keys + extra]
        elif isinstance(ser, type) and issubclass(ser, se.FlagSwitchedSubfieldSerializer):
            bits = [int(k) for k in ser.TEMPLATES]
            vals = sorted({sum(b for i, b in enumerate(bits) if m >> i & 1) for m in range(1 << min(len(bits), 5))})
            ctxs = [{ser.FLAG_FIELD: v} for v in vals]
        else:
            asked = set()
            for sample in ([b"", bytes(16), b"abc\x00"] if is_bytes else [0, 1, 255]):
                rb = _RecordingBlock(fresh_block({}))
                impl_call(ser.deserialize, rb, sample, pod=True)
                asked |= {k for k in rb.asked if k != vname and k in tmpl.get_block(bname).variable_map}
            if asked:
                ctxs = [{}]
                for field in sorted(asked)[:2]:
                    ctxs = [dict(c, **{field: v}) for c in ctxs for v in _sibling_domain(se, tmpl, bname, field)][:48]
        switched = bool(ctxs)
        if not ctxs:
            if not is_bytes:
                continue
            ctxs = [{}]         # not context-switched: only the class "non-canonical raw encodings of falsy values" below
        else:
            seen_regs.append("%s.%s.%s" % (mname, bname, vname))
        for ctx in ctxs:
            falsy = []
            if is_bytes:
                # raw payloads that decode to a FALSY value (None, empty container, 0, "") without being what the serializer
                # writes for that value: length-prefixed empty sections, lone terminators, zero padding, explicit zero counts
                for raw in [bytes(n) for n in range(0, 17)] + [b"\x00" * n + b"\x00" for n in (19, 23, 31, 63)]:
                    blk = fresh_block(ctx)
                    st, pod = impl_call(ser.deserialize, blk, raw, pod=True)
                    if st != "ok" or pod is se.UNSERIALIZABLE:
                        continue
                    try:
                        is_falsy = not pod
                    except Exception:  # noqa
                        continue
                    if is_falsy:
                        st, back = impl_call(ser.serialize, blk, pod)
                        if st != "ok" or bytes(back) != raw:
                            falsy.append(raw)
                falsy = falsy[:6]
                n_falsy[0] += len(falsy)
                rep = _repetition_payloads(se, ser, fresh_block, ctx)
                if rep:
                    rep_pool.extend(r_ for r_ in rep if r_[:1] in (b"\x02", b"\x03") and r_ not in rep_pool)
                elif rep_pool and not switched:
                    rep = _embedded_repetition_payloads(se, ser, fresh_block, ctx, rep_pool)
                n_rep[0] += len(rep)
                falsy = falsy + rep
            if not switched:
                maxlen = tvar.size if c12.tyname(tvar) == "Fixed" else (255 if tvar.size == 1 else 4000)
                for p_ in falsy:
                    if len(p_) <= maxlen and (c12.tyname(tvar) != "Fixed" or len(p_) == tvar.size):
                        cases.append((ti, ("ctx", bname, vname, ctx, p_)))
                continue
            if is_bytes:
                maxlen = tvar.size if c12.tyname(tvar) == "Fixed" else (255 if tvar.size == 1 else 4000)
                payloads = list(_CTX_PAYLOADS) + falsy + [bytes(rng.randrange(256) for _ in range(rng.choice([1, 3, 8, 20])))]
                # payloads the selected sub-template itself produces: whatever it reads, written back by it
                own = []
                for raw in payloads + [bytes(n) + tail for tail in (b"Ab/1\x00", b"") for n in range(0, 81)]:
                    if len(own) >= 12:
                        break
                    blk = fresh_block(ctx)
                    st, val = impl_call(ser.deserialize, blk, raw, pod=False)
                    if st == "ok" and val is not se.UNSERIALIZABLE:
                        st, back = impl_call(ser.serialize, blk, val)
                        if st == "ok" and isinstance(back, (bytes, bytearray)) and bytes(back) not in own:
                            own.append(bytes(back))
                own = own[:4 if not thorough else 12]
                # ... and the same with the final terminator cut off (readers that accept end-of-buffer for a terminator)
                payloads += own + [o[:-1] for o in own if o.endswith(b"\x00") and len(o) > 1]

                def nan_free(raw):      # the domain is NaN-free: no payload whose decoded value holds a NaN
                    st, pod = impl_call(ser.deserialize, fresh_block(ctx), raw, pod=True)
                    return not (st == "ok" and re.search(r"\bnan\b", repr(pod)))
                payloads = [p_ for p_ in payloads if nan_free(p_)]
                if c12.tyname(tvar) == "Fixed":
                    payloads = [p for p in payloads if len(p) == tvar.size] or [bytes(tvar.size)]
                payloads = [p for p in dict.fromkeys(payloads) if len(p) <= maxlen]
            else:
                lo, hi = c12.INT_RANGE.get(c12.tyname(tvar), (0, 255))
                payloads = [v for v in dict.fromkeys([0, 1, 2, 15, 16, 127, 255, lo, hi]) if lo <= v <= hi]
            for p_ in payloads:
                cases.append((ti, ("ctx", bname, vname, ctx, p_)))
    context_cases.falsy_noncanonical = n_falsy[0]
    context_cases.repeated_entries = n_rep[0]
    return cases, seen_regs


def _body(ser, m):
    return bytes(ser.serialize(m))[6:]


def text_event(ser, m, beautify, replacements):
    """Print, lex, re-parse in safe mode, re-encode: one Text event."""
    from hippolyzer.lib.base.message.message_formatting import HumanMessageSerializer as H
    st, body0 = impl_call(_body, ser, m)
    if st != "ok":
        raise common.MachineryError("generated message does not encode: %s" % body0)
    st, text = impl_call(H.to_human_string, m, replacements, beautify)
    if st != "ok":
        return {"ev": "Text", "toks": [], "m": {"ncom": 0, "blocks": []}, "beautify": beautify, "printed": False, "outcome": "print " + text,
                "evaluated": False, "same": False, "body0": [], "body1": []}, None, None
    toks = tokenize(text)
    am = abstract(m, text)
    _EVALS[0] = 0
    st, m2 = impl_call(H.from_human_string, str(text), replacements, {"HIT": _hit}, True)
    outcome, body1 = "ok", b""
    if st != "ok":
        outcome = m2
        m2 = None
    else:
        m2.packet_id = m.packet_id
        st, body1 = impl_call(_body, ser, m2)
        if st != "ok":
            outcome, body1 = "encode " + body1, b""
    same = outcome == "ok" and body1 == body0
    short = len(body0) <= 240 and len(body1) <= 240
    ev = {"ev": "Text", "toks": toks, "m": am, "beautify": beautify, "printed": True, "outcome": outcome, "evaluated": _EVALS[0] > 0, "same": same,
          "body0": list(body0) if short else [], "body1": list(body1) if short else ([] if same else [0])}
    return ev, str(text), m2


def classify_text(m, m2, tmpl, ev, beautify):
    """Why a Text event failed (features for known findings; the verdict itself is TLC's)."""
    import hippolyzer.lib.base.serialization as se
    import math
    classes = set()
    empty = [b["name"] for b in ev["m"]["blocks"] if not b["inst"]]
    out = ev["outcome"]
    if out.startswith("AttributeError: 'Block' object has no attribute") and beautify:
        return {"packed-needs-later-field"}
    if empty and (out == "ok" or "block after missing" in out or "encode" in out):
        classes.add("empty-variable-block")
    if beautify and out.startswith(("ValueError: malformed node", "SyntaxError")):
        # the printed pretty value itself is not a Python literal (a non-finite float inside the subfield's value)
        nl = ["%s.%s.%s" % (m.name, b["name"], v["n"]) for b in ev["m"]["blocks"] for inst in b["inst"] for v in inst
              if v["ser"] and v["pretty"] == "ok" and v["pvk"] in ("expr", "junk", "litnf")]
        if nl:
            nf = [n for n, k in ((n_, v_["pvk"]) for b in ev["m"]["blocks"] for inst in b["inst"] for v_ in inst
                                 for n_ in ["%s.%s.%s" % (m.name, b["name"], v_["n"])]) if k == "litnf"]
            return {("pretty-subfield-nonfinite-float@" + nf[0]) if nf else ("pretty-subfield-not-literal@" + nl[0])}
    has_inf = any(isinstance(v, float) and math.isinf(v) for bl in m.blocks.values() for b in bl for v in b.vars.values())
    if has_inf and out.startswith("ValueError: malformed node or string"):
        return {"nonfinite-float"}
    if out == "ok" and m2 is not None:
        for bname, blist in m.blocks.items():
            for i, blk in enumerate(blist):
                b2 = m2.blocks.get(bname, [])
                if i >= len(b2):
                    continue
                for vname, val in blk.items():
                    v2 = b2[i].vars.get(vname)
                    def wire(x):        # str and bytes are two spellings of one wire value
                        return x.encode("utf8", "surrogatepass") + b"\x00" if isinstance(x, str) else (bytes(x) if isinstance(x, (bytes, bytearray)) else x)
                    if not (wire(val) == wire(v2)):      # (TupleCoord defines __eq__ only)
                        ser = se.SUBFIELD_SERIALIZERS.get((m.name, bname, vname))
                        tv = tmpl.get_block(bname).get_variable(vname)
                        if beautify and ser is not None and isinstance(val, int) and val < 0 and c12.tyname(tv) in ("S8", "S16", "S32"):
                            classes.add("signed-flag-field")
                        elif beautify and ser is not None and isinstance(val, (bytes, bytearray)):
                            # the value was pretty-printed and its own subfield serializer does not give the bytes back
                            classes.add("pretty-subfield-lossy@%s.%s.%s" % (m.name, bname, vname))
                        else:
                            classes.add("other")
    return classes or {"other"}


# ---- text mutation for the safe-mode clause
_OPS = ["=$", "=|$", "=$|", "=$$", "= $", "=| $"]
# expressions that need no builtins and no names; none of them is a literal.  Most evaluate to a small int
# (so that a packer for an enum/flag field would take the result), some raise only if they are run.
_EXPRS = ["2.0 ** 10", "3 * 4", "7 // 2", "-(2 ** 3)", "1 + 1", "1 / 0", "1 if () else 2", "0 or 5", "not 0", "1 < 2",
          "(3).bit_length()", "'a'.upper()", "().__class__.__name__", "().__class__.__bases__[0].__subclasses__().__len__()",
          "'%d' % 5", "[x for x in (1, 2)][0]", "{k: 1 for k in 'a'}", "(lambda: 7)()", "(y := 5)", "f'{1 + 1}'", "(1, 2)[0]",
          "[*(1, 2)]", "{}['k']", "inf", "(1, inf)", "x", "len('ab')", "2 ** 2 ** 2", "('A',) + ('B',)", "5 & 4 | 1",
          "1 % 0", "no_such_name", "2.0 ** 100000", "(1).real + 1", "~0 + 2", "1 << 3", "int.__name__"]
_LITS = ["5", "'text'", "(1, 2)", "-1", "1+2j", "('A', 'B')", "b'\\x00'", "{'a': [1, None, True]}"]


def mutate(rng, text):
    lines = text.split("\n")
    for _ in range(rng.choice([1, 1, 2, 3])):
        idx = [i for i, ln in enumerate(lines) if _ASSIGN.match(ln.strip()) and not _COMMENT.match(ln.strip())]
        c = rng.randrange(11)
        if c >= 8 and idx:       # the value of a "=" / "=|" line replaced by a non-literal expression (or a control literal)
            packed_idx = [i for i in idx if "|" in _ASSIGN.match(lines[i].strip()).group(2)]
            i = rng.choice(packed_idx) if packed_idx and rng.random() < 0.6 else rng.choice(idx)
            m_ = _ASSIGN.match(lines[i].strip())
            op = m_.group(2) if "$" not in m_.group(2) and rng.random() < 0.8 else rng.choice(["=", "=|"])
            lines[i] = "  %s %s %s" % (m_.group(1), op, rng.choice(_EXPRS) if rng.random() < 0.85 else rng.choice(_LITS))
            # a value that was continued over several lines loses its continuation lines
            while i + 1 < len(lines) and m_.group(3).rstrip().endswith("\\"):
                m3 = lines.pop(i + 1)
                if not m3.rstrip().endswith("\\"):
                    break
        elif c == 0 and idx:       # operator substitution
            i = rng.choice(idx)
            lines[i] = re.sub(r"=[|$]*", lambda m_: rng.choice(_OPS), lines[i], count=1)
        elif c == 1 and idx:     # value replaced by an expression
            i = rng.choice(idx)
            name = _ASSIGN.match(lines[i].strip()).group(1)
            lines[i] = "  %s %s HIT()" % (name, rng.choice(_OPS + ["=", "=|"]))
        elif c == 2:             # injected eval line anywhere (before the header, inside a continued value, ...)
            lines.insert(rng.randrange(len(lines) + 1), "  Injected %s HIT()" % rng.choice(_OPS))
        elif c == 3:             # a continuation that swallows the next line
            i = rng.randrange(len(lines))
            lines[i] = lines[i] + " \\"
        elif c == 4:             # a continuation cut short
            cont = [i for i, ln in enumerate(lines) if ln.rstrip().endswith("\\")]
            if cont:
                i = rng.choice(cont)
                lines[i] = lines[i].rstrip()[:-1]
        elif c == 5:             # commented-out eval line, eval inside a string
            lines.insert(rng.randrange(1, len(lines) + 1), rng.choice(["  #Injected =$ HIT()", "  Injected = 'x =$ HIT()'",
                                                                      "#  Injected =|$ HIT()"]))
        elif c == 6 and idx:     # eval line with a continuation of its own
            i = rng.choice(idx)
            lines.insert(i, "  Injected =$ HIT() \\")
        else:                    # block header lost
            blk = [i for i, ln in enumerate(lines) if ln.strip().startswith("[")]
            if blk:
                del lines[rng.choice(blk)]
    return "\n".join(lines)


def fuzz_event(text, safe):
    from hippolyzer.lib.base.message.message_formatting import HumanMessageSerializer as H
    toks = tokenize(text)
    _EVALS[0] = 0
    st, r = impl_call(H.from_human_string, text, None, {"HIT": _hit}, safe)
    okind = "ok" if st == "ok" else ("arith" if str(r).split(":")[0] in ("ZeroDivisionError", "NameError") else "exc")
    return {"ev": "Fuzz", "toks": toks, "safe": safe, "outcome": "ok" if st == "ok" else r, "okind": okind, "evaluated": _EVALS[0] > 0}


_JOBS = None
REPL_KEYS = ("AGENT_ID", "SESSION_ID", "CIRCUIT_CODE")


def _run_job(job_no):
    import hippolyzer.lib.base.templates  # noqa: registers the subfield serializers
    from hippolyzer.lib.base.message.udpserializer import UDPMessageSerializer
    _install_sentinel()
    ser = UDPMessageSerializer()
    tmpls = c12.templates()
    out = []
    for tid, ti, seed, style, n_fuzz in _JOBS[job_no]:
        rng = random.Random(seed)
        tmpl = tmpls[ti]
        m = wire_message(rng, tmpl, style)
        # a replacement table that bites: the values of this very message
        repl = {}
        ad = m.blocks.get("AgentData")
        if ad:
            if "AgentID" in ad[0].vars:
                repl["AGENT_ID"] = ad[0]["AgentID"]
            if "SessionID" in ad[0].vars:
                repl["SESSION_ID"] = ad[0]["SessionID"]
        for bl in m.blocks.values():
            for b in bl:
                for k, v in b.vars.items():
                    if "CircuitCode" in k or ("Code" in k and "Circuit" in b.name):
                        repl["CIRCUIT_CODE"] = v
        variants = [(False, None), (True, None)]
        if repl:
            variants.append((True, repl))
        texts = []
        for beautify, rp in variants:
            ev, text, m2 = text_event(ser, m, beautify, rp)
            cls = None
            bad = ev["outcome"] != "ok" or not ev["same"] or any(not b["inst"] for b in ev["m"]["blocks"])
            if bad:
                cls = sorted(classify_text(m, m2, tmpl, ev, beautify))
            out.append((tid, ti, [ev], {"beautify": beautify, "repl": rp is not None, "cls": cls, "text": (text or "")[:1500],
                                        "style": style if isinstance(style, str) else "context %s.%s %r payload %r" % (
                                            style[1], style[2], style[3], style[4] if not isinstance(style[4], bytes) else style[4][:40]),
                                        "context": None if isinstance(style, str) else ",".join("%s=%s" % kv for kv in sorted(style[3].items())),
                                        "lines": len(ev["toks"])}))
            if text:
                texts.append(text)
        fz, fz_texts = [], []
        for _ in range(n_fuzz):
            if not texts:
                break
            t2 = mutate(rng, rng.choice(texts))
            for safe in (True, False):
                fz.append(fuzz_event(t2, safe))
                fz_texts.append(t2[:1200])
        for e, t2 in zip(fz, fz_texts):       # one trace per mutated text: a failing clause names its text
            out.append((tid, ti, [e], {"fuzz": True, "texts": [t2]}))
    return out


def _cfg(spec, big, allow_empty, fuzz_len, invs, fallback=False):
    return ("SPECIFICATION %s\nCONSTANTS Big = %s AllowEmpty = %s FuzzLen = %d Fallback = %s\n Msgs <- MCMsgs\n Alphabet <- MCAlphabet\n%s" %
            (spec, "TRUE" if big else "FALSE", "TRUE" if allow_empty else "FALSE", fuzz_len, "TRUE" if fallback else "FALSE",
             "".join("INVARIANT %s\n" % i for i in invs)))


TRACE_CFG = ("SPECIFICATION TraceSpec\nCONSTANTS FuzzLen = 0 Fallback = FALSE\n Msgs <- NoMsgs\n Alphabet <- NoMsgs\n"
             "POSTCONDITION TraceAccepted\nCHECK_DEADLOCK FALSE\n")


def _model(chk: Check, big, fuzz_len):
    invs = ["SafeNeverEvaluates", "RejectsOnlyEval", "OnlyEvalOperatorEvaluates", "StepIsRunAll", "ReadsBack", "StructurePreserved"]
    common.model_check(chk, "HumanText_MBT", _cfg("Spec", big, False, fuzz_len, invs), "HumanText laws + line fuzz len<=%d" % fuzz_len)
    # the safe-mode law bites: a parser that falls back to running "=|" values the literal parser rejects is refuted by TLC
    cfgp = os.path.join(chk.scratch, "ht-fallback.cfg")
    with open(cfgp, "w") as f:
        f.write(_cfg("Spec", False, False, 2, invs, fallback=True))
    res = common.run_tlc(os.path.join(common.SPECS, "HumanText_MBT.tla"), cfgp, workers=1, scratch=chk.scratch)
    chk.add_tlc(res, "HumanText with an evaluating fallback for packed values (must be refuted)")
    if not ({"SafeNeverEvaluates", "OnlyEvalOperatorEvaluates"} & set(res.violated)):
        raise common.MachineryError("the safe-mode law does not refute an evaluating fallback: %r" % res.violated)
    # Variable blocks may have zero instances on the wire: the same laws over messages that have such blocks
    cfgp = os.path.join(chk.scratch, "ht-empty.cfg")
    with open(cfgp, "w") as f:
        f.write(_cfg("Spec", False, True, 1, invs))
    res = common.run_tlc(os.path.join(common.SPECS, "HumanText_MBT.tla"), cfgp, workers=1, scratch=chk.scratch)
    chk.add_tlc(res, "HumanText laws with empty blocks")
    if not res.ok:
        only_structure = res.violated == ["StructurePreserved"]
        chk.violation("model: the text format cannot denote a block with zero instances (%s)" % ",".join(res.violated),
                      {"kind": "human-text-model", "class": "empty-variable-block" if only_structure else "other", "violated": res.violated},
                      {"tlc": res.counterexample()[:3000]})


def _texts(chk: Check, per_template, n_fuzz):
    global _JOBS
    tmpls = c12.templates()
    items = []
    styles = ["text", "bytes", "pretty"]
    for ti in range(len(tmpls)):
        for k in range(per_template):
            items.append((len(items), ti, chk.rng.getrandbits(48), styles[k % 3], n_fuzz if k == 0 else 0))
    ctx_cases, ctx_regs = context_cases(random.Random(chk.rng.getrandbits(48)), chk.tier != "quick")
    for ti, style in ctx_cases:
        items.append((len(items), ti, chk.rng.getrandbits(48), style, 0))
    chk.cov["context_switched_serializers"] = ctx_regs
    chk.cov["context_switched_cases"] = len(ctx_cases)
    chk.cov["falsy_noncanonical_payloads"] = context_cases.falsy_noncanonical
    chk.cov["repeated_entry_payloads"] = context_cases.repeated_entries
    if context_cases.repeated_entries < 2:
        raise common.MachineryError("no payload with repeated collection entries was accepted by any subfield serializer")
    if context_cases.falsy_noncanonical < 1:
        raise common.MachineryError("reflection found only %d non-canonical encodings of falsy subfield values" % context_cases.falsy_noncanonical)
    if len(ctx_regs) < 5:
        raise common.MachineryError("reflection found only %d context-switched subfield serializers: %r" % (len(ctx_regs), ctx_regs))
    _JOBS = common.chunked(items, common.NCPU * 2)
    res = [x for part in common.parallel_map(_run_job, list(range(len(_JOBS)))) for x in part]
    traces = [evs for _, _, evs, _ in res]
    acc, rej, results = common.validate_traces("HumanText_Trace", TRACE_CFG, traces, chk.scratch, shards=10, tag="htext")
    fails = {}
    for r in results:
        chk.add_tlc(r, "HumanText_Trace")
        for rec in r.printed():
            if isinstance(rec, dict) and "fail" in rec:
                fails.setdefault(rec["tid"], set()).add(rec["fail"])
    chk.cov["traces_validated_against_impl"] += len(traces)
    chk.count(sum(len(t) for t in traces))
    stats = {"texts": 0, "beautified": 0, "with_replacements": 0, "multi_line_values": 0, "packed_lines": 0, "fuzz_texts": 0,
             "fuzz_rejected": 0, "fuzz_evaluated_unsafe": 0, "fuzz_with_eval_operator": 0, "fuzz_nonliteral_values": 0,
             "fuzz_nonliteral_refused": 0}
    for n, (tid, ti, evs, info) in enumerate(res):
        if info.get("fuzz"):
            stats["fuzz_texts"] += len(evs)
            stats["fuzz_rejected"] += sum(e["outcome"] == REJECT for e in evs)
            stats["fuzz_evaluated_unsafe"] += sum(e["evaluated"] and not e["safe"] for e in evs)
            stats["fuzz_with_eval_operator"] += sum(any(t["ev"] for t in e["toks"]) for e in evs)
            nl = [e for e in evs if any(t["k"] == "assign" and not t["ev"] and t["val"] in ("expr", "junk") for t in e["toks"])]
            stats["fuzz_nonliteral_values"] += len(nl)
            stats["fuzz_nonliteral_refused"] += sum(e["okind"] == "exc" for e in nl)
            continue
        ev = evs[0]
        stats["texts"] += 1
        stats["beautified"] += info["beautify"]
        stats["with_replacements"] += info["repl"]
        ml = any(t["bs"] for t in ev["toks"])
        pk = any(t["pk"] for t in ev["toks"])
        stats["multi_line_values"] += ml
        stats["packed_lines"] += pk
        if ml or pk or info["repl"]:
            chk.nontrivial(("text", tid, info["beautify"], info["repl"]))
    chk.cov["c11"] = stats
    chk.cov["c11_drift"] = drift = {}
    if stats["fuzz_texts"] and not (stats["fuzz_with_eval_operator"] and stats["fuzz_evaluated_unsafe"] and stats["fuzz_nonliteral_values"]):
        raise common.MachineryError("text fuzz never reached the eval operator: %r" % stats)
    for ti_, j, ev in rej:
        chk.violation("text trace rejected by HumanText_Trace", {"kind": "human-text", "class": "trace-rejected"},
                      {"event": common._clip(ev)})
    for n, clauses in sorted(fails.items()):
        tid, ti, evs, info = res[n]
        for c in [c for c in clauses if c.startswith("drift.")]:
            # model staleness diagnostic (non-failing); texts of messages with an empty block are expected here
            clauses.discard(c)
            if not any(not b["inst"] for b in evs[0]["m"]["blocks"]):
                drift[c] = drift.get(c, 0) + 1
                if drift[c] == 1:
                    chk.notes.append("DRIFT %s: the real text of %s (beautify=%s) is not what HumanText!Format prescribes: %r" % (
                        c, tmpls[ti].name, info.get("beautify"), info.get("text", "")[:400]))
        if not clauses:
            continue
        if info.get("fuzz"):
            def suspicious(e):
                return (e["safe"] and e["evaluated"]) or (e["okind"] != "exc" and any(
                    t["k"] == "assign" and not t["ev"] and t["val"] in ("expr", "junk") for t in e["toks"]))
            k = next((i for i, e in enumerate(evs) if suspicious(e)), 0)
            chk.violation("safe-mode clause: %s" % sorted(clauses)[0], {"kind": "human-text-fuzz", "clauses": sorted(clauses)},
                          {"message": tmpls[ti].name, "safe": evs[k]["safe"], "outcome": evs[k]["outcome"], "text": info["texts"][k],
                           "tokens": common._clip(evs[k]["toks"], 40)})
            continue
        ev = evs[0]
        for cls in info["cls"] or ["other"]:
            cls, _, field = cls.partition("@")
            feats = {"kind": "human-text", "class": cls, "beautify": info["beautify"]}
            if field:
                feats["field"] = field
            if info.get("context"):
                feats["context"] = info["context"]
            chk.violation("human text round trip (%s): %s" % ("beautified" if info["beautify"] else "plain", cls), feats,
                          {"message": tmpls[ti].name, "failed_clauses": sorted(clauses), "outcome": ev["outcome"], "text": info["text"],
                           "style": info["style"], "replacements": info["repl"]})
    ex = next((r for r in res if not r[3].get("fuzz") and any(t["pk"] for t in r[2][0]["toks"])), res[0])
    chk.sample({"binding": "B2 text trace", "message": tmpls[ex[1]].name, "beautify": ex[3].get("beautify"),
                "tokens": ex[2][0]["toks"][:8], "abstract": common._clip(ex[2][0]["m"], 3)})
    fz = next((r for r in res if r[3].get("fuzz")), None)
    if fz:
        chk.sample({"binding": "B2 fuzz", "event": {k: (v[:6] if isinstance(v, list) else v) for k, v in fz[2][0].items()}})


def run(chk: Check):
    chk.cov["rule"] = ("model: every abstract message up to 2 blocks x 2 instances x 2 variables in every printing case x beautify, and "
                       "every sequence of line tokens (15-token alphabet incl. literal / special / non-literal value classes) up to the "
                       "fuzz length x safe; mutated texts incl. builtin-free non-literal expressions under = and =|; binding: every template x generated wire messages "
                       "x {plain, beautified, beautified with a biting replacement table}; non-trivial = texts with a multi-line "
                       "value, a packed (=|) line or a replacement.")
    chk.assumptions += [
        "messages are as decoded from the wire by the real deserializer; no extra header bytes, no appended acks (not part of the body)",
        "floats are NaN-free (infinities are in the domain)",
        "value classes of assignment tokens (literal / special plain form / non-literal expression / junk) come from parsing the value "
        "text with Python's ast (classification of the input), special forms by the parser's own prefix rules",
        "the lexer that turns a text into line tokens and the reflection of the abstract message (registry lookups, printed spans) are trusted",
        "literal syntax inside a value is not modelled; it is observed through the equality of the two datagram bodies "
        "(bodies longer than 240 bytes are compared by the recorder and carried as a flag)",
    ]
    pend = c12.Pending(chk)
    direct = chk.violation
    chk.violation = pend.violation
    try:
        _run(chk)
    finally:
        chk.violation = direct
        pend.flush()


def _run(chk: Check):
    if chk.tier == "quick":
        _model(chk, False, 3)
        _texts(chk, 3, 6)
    else:
        _model(chk, True, 4)
        _texts(chk, 24, 12)
    chk.cov["exhaustive"] = True
