"""C16 — capability URLs are attributed to the right cap, region and session (Caps.tla).

Binding B1: TLC enumerates the bounded model (all interleavings of seed requests / seed
responses / one-shot, proxy-only registrations / consuming lookups over several regions and
sessions).  Every edge is replayed into fresh real SessionManager / Session / ProxiedRegion
objects; seed traffic goes through the real MITMProxyEventManager._handle_request /
_handle_response with mitmproxy flows (state-serialised between the two phases, as in the
two-process proxy).  After the edge the OUTPUT of the action (upstream seed body, rewritten
seed response, URL returned by register_proxy_cap, CapData of a consuming lookup) and the
whole observation TLC computed for the target state are compared:
SessionManager.resolve_cap for every URL of the universe and one extension of each,
region.cap_urls (and the cap type in region.caps) by name, the one-shot caps drained (k live
registrations resolve exactly k times) and register_proxy_cap probed again wherever a proxy-only cap is
registered (same URL, in every state).  URLs the proxy mints itself (wrapper / proxy-only) are symbols of the model bound
to the value observed when they first appear.
"""
from __future__ import annotations

import gc
import uuid

from . import common
from .common import Check, Graph, impl_call, skey

INVS = ["Attributed", "OnlyGranted", "Newest", "TempOnce", "SeedReqOK", "SeedRespOK", "ProxyStable", "GlobalsApart"]
CONSTS = ("NR = %(NR)d MaxSeed = %(MaxSeed)d MaxTemp = %(MaxTemp)d Grants = {%(Grants)s} PO = {%(PO)s} Wants = {%(Wants)s} "
          "TN = {%(TN)s} Long = %(Long)d Globals = \"%(Globals)s\" Depth = %(Depth)d")
T1 = '"UpTemp"'
T2 = '"UpTemp", "CapB"'

P1 = '"ProxyP"'
P2 = '"ProxyP", "ProxyQ"'


TYPE_LETTER = {"NORMAL": "N", "TEMPORARY": "T", "WRAPPER": "W", "PROXY_ONLY": "P"}
EXT = "/ext?q=1"
X_SUFFIX = "22"
T_SUFFIX = "/uploader-7f"      # a one-shot URL underneath a cap URL


# ----------------------------------------------------------------------------------------
# the real objects
# ----------------------------------------------------------------------------------------

_SM = None


class World:
    """Fresh real proxy state for `nr` regions: regions 1,2 in session 1, the rest in session 2."""

    def __init__(self, nr: int, ids, globals_="none"):
        from hippolyzer.lib.base.datatypes import UUID
        from hippolyzer.lib.proxy.addons import AddonManager
        from hippolyzer.lib.proxy.http_event_manager import MITMProxyEventManager
        from hippolyzer.lib.proxy.sessions import SessionManager
        from hippolyzer.lib.proxy.settings import ProxySettings
        global _SM
        self.ids = ids
        if _SM is None:
            # One SessionManager per worker process (its constructor opens multiprocessing queues, ~50 ms);
            # every World starts from an empty session list, which is where all cap state lives.
            _SM = SessionManager(ProxySettings())
        self.sm = _SM
        self.sm.sessions.clear()
        self.regions = {}
        self.sessions = {}
        for r in range(1, nr + 1):
            s = 1 if r <= 2 else 2
            # region 3 (session 2) is in the same simulator as region 1 (session 1): two avatars in one sim have
            # separate ProxiedRegions with the same circuit address and different seeds
            sim = 1 if r == 3 else r
            addr = ("127.0.0.%d" % sim, 13000 + sim)
            if s not in self.sessions:
                login = {
                    "session_id": UUID(int=1000 + s), "secure_session_id": UUID(int=2000 + s),
                    "agent_id": UUID(int=3000 + s), "circuit_code": 100 + s,
                    "sim_ip": addr[0], "sim_port": addr[1], "region_x": 256 * r, "region_y": 256,
                    "seed_capability": ids["r%ds" % r],
                }
                # session-global caps of the login response: keys absent / real URLs / EMPTY strings
                if globals_ == "urls":
                    login.update({"agent_appearance_service": ids["ga%d" % s], "map-server-url": ids["gm%d" % s]})
                elif globals_ == "empty":
                    login.update({"agent_appearance_service": "", "map-server-url": ""})
                self.sessions[s] = self.sm.create_session(login)      # Session.from_login_data
                self.regions[r] = self.sessions[s].regions[-1]
            else:
                self.regions[r] = self.sessions[s].register_region(addr, seed_url=ids["r%ds" % r], handle=(r << 40) | 7)
        self.ridx = {id(v): k for k, v in self.regions.items()}
        self.sidx = {id(v): k for k, v in self.sessions.items()}
        AddonManager.init([], self.sm, [])
        self.em = MITMProxyEventManager(self.sm, self.sm.flow_context)
        self.bound = {}       # model symbol ("?W..", "?P..") -> URL the implementation chose
        self.pending = {}     # region -> serialised flow state of the outstanding seed request
        self.taint = None

    # --- URLs ---------------------------------------------------------------------------
    def concrete(self, u):
        """model URL (list of segments) -> concrete string; None for the empty URL"""
        if not u:
            return None
        head = u[0]
        if head.startswith("?"):
            base = self.bound.get(head)
            if base is None:
                return "unbound:" + head
        else:
            base = self.ids[head]
        for seg in u[1:]:
            base += {"x": X_SUFFIX, "t": T_SUFFIX, "e": EXT}[seg]
        return base

    # --- public lookups -------------------------------------------------------------------
    def resolve(self, url: str):
        st, cd = impl_call(self.sm.resolve_cap, url)
        if st != "ok":
            return ["raise", cd, 0, 0], None
        if cd is None:
            return ["None", "-", 0, 0], None
        region = cd.region() if cd.region else None
        session = cd.session() if cd.session else None
        r = self.ridx.get(id(region), -1) if region is not None else 0
        s = self.sidx.get(id(session), -1) if session is not None else 0
        if cd.cap_name is None and not r and not s:
            return ["-", "-", 0, 0], cd.base_url
        return [cd.cap_name or "-", TYPE_LETTER.get(cd.type.name, cd.type.name), r, s], cd.base_url

    # --- actions --------------------------------------------------------------------------
    def apply(self, act):
        """Perform one abstract action on the real objects; returns its output in model terms."""
        from hippolyzer.lib.base import llsd
        from hippolyzer.lib.proxy.caps import CapType, SerializedCapData
        from hippolyzer.lib.proxy.http_flow import HippoHTTPFlow
        from mitmproxy.http import HTTPFlow, Response
        from mitmproxy.test import tflow, tutils
        n = act["n"]
        if n == "RegisterTemp":
            return impl_call(self.regions[act["r"]].register_cap, act["name"], self.concrete(act["u"]), CapType.TEMPORARY)
        if n == "LongGrant":
            return impl_call(self.regions[act["r"]].update_caps, {"CapA": self.concrete(act["u"])})
        if n == "LongTemp":
            return impl_call(self.regions[act["r"]].register_cap, "UpTemp", self.concrete(act["u"]), CapType.TEMPORARY)
        if n == "RegisterProxy":
            return impl_call(self.regions[act["r"]].register_proxy_cap, act["name"])
        if n == "Resolve":
            return "ok", self.resolve(self.concrete(act["q"]))[0]
        if n == "SeedReq":
            def req():
                f = tflow.tflow(req=tutils.treq(method=b"POST", content=llsd.format_xml(list(act["wanted"]))))
                f.request.url = self.ids["r%ds" % act["r"]]
                f.metadata["cap_data_ser"] = SerializedCapData()
                hf = HippoHTTPFlow.from_state(f.get_state(), self.sm)
                self.em._handle_request(hf)
                if hf.response is not None:
                    return "response injected: %d" % hf.response.status_code
                self.pending[act["r"]] = hf.get_state()
                return llsd.parse_xml(hf.request.content)
            return impl_call(req)
        if n == "SeedResp":
            def resp():
                f = HTTPFlow.from_state(self.pending.pop(act["r"]))
                body = {k: self.concrete(v) for k, v in act["grant"].items()}
                f.response = Response.make(200, llsd.format_xml(body), {"Content-Type": "application/llsd+xml"})
                hf = HippoHTTPFlow.from_state(f.get_state(), self.sm)
                self.em._handle_response(hf)
                return llsd.parse_xml(hf.response.content)
            return impl_call(resp)
        raise common.MachineryError("unknown action %r" % (act,))

    def step(self, act, out, final: bool):
        """apply + bind symbols + compare the output with the specification's (final edge only)."""
        st, got = self.apply(act)
        bad = []
        n = act["n"]
        if st != "ok":
            return [(n + ": raised", out, got)]
        if n == "RegisterProxy":
            sym = out[0]
            if sym not in self.bound:
                self.bound[sym] = got
            elif self.bound[sym] != got:
                # the second registration handed out a different URL
                self.taint = "proxy-cap-reregistered"
                bad.append(("register_proxy_cap: second registration yields another URL", self.bound[sym], got))
        elif n == "SeedResp":
            if not isinstance(got, dict):
                return [("seed-response: body", out, repr(got)[:200])]
            for name, u in out.items():
                if u[0].startswith("?W") and u[0] not in self.bound and isinstance(got.get(name), str):
                    self.bound[u[0]] = got[name]
            if final:
                exp = {k: self.concrete(v) for k, v in out.items()}
                # every granted cap preserved / wrapped, every requested proxy-only cap present (extra keys are
                # not excluded by the property)
                if any(got.get(k) != v for k, v in exp.items()):
                    bad.append(("seed-response: rewritten body", exp, got))
        elif final and n == "SeedReq":
            if not isinstance(got, list) or sorted(got) != sorted(out):
                bad.append(("seed-request: upstream body", sorted(out), got))
        elif final and n == "Resolve":
            if got not in out:
                bad.append(("resolve (one-shot)", out, got))
        return bad

    # --- observation ------------------------------------------------------------------------
    def observe(self, obs):
        bad = []
        n = 0
        for item in obs["res"]:
            url = self.concrete(item["q"])
            got, base = self.resolve(url)
            n += 1
            if got not in item["acc"]:
                cls = "other"
                exp_urls = [self.concrete(b) for b in item["b"]]
                if base and got[0] not in ("-", "raise") and any(e != base and e.startswith(base) for e in exp_urls) \
                        and url.startswith(base):
                    cls = "shorter-prefix-wins"
                bad.append(("resolve", cls, item["q"], item["acc"], got))
        for r, name, u, t in obs["byname"]:
            n += 2
            got = impl_call(self.regions[r].cap_urls.get, name)
            if got != ("ok", self.concrete(u)):
                bad.append(("byname", "newest", [r, name], self.concrete(u), got))
            # the type the region reports for the name (region.caps is what the seed-request rewriting and
            # register_proxy_cap consult)
            st, ent = impl_call(self.regions[r].caps.get, name)
            gt = TYPE_LETTER.get(getattr(ent[0], "name", None), repr(ent[0])) if st == "ok" and ent else ("-" if st == "ok" else ent)
            if gt != t:
                bad.append(("byname", "type", [r, name], t, gt))
        # destructive, therefore last: k live one-shot registrations resolve exactly k times
        for r, u, k, after, tup in obs["temps"]:
            url = self.concrete(u)
            seq = []
            for i in range(k + 1):
                n += 1
                seq.append(self.resolve(url + (EXT if i % 2 else ""))[0])
            # k answers from the one-shot cap, then whatever is left (nothing, or the granted cap the URL extends)
            if seq[:k] != [tup] * k or seq[k] not in after:
                bad.append(("temp-once", "count", u, [tup] * k + [after], seq))
        # destructive probe: a further registration of the proxy-only cap yields the URL of the first one, in every
        # state (a hidden change made by a seed round trip shows here, whatever path the BFS tree took), and lookup
        # by name still yields that URL afterwards
        for r, name, u in obs["proxy"]:
            n += 2
            got = impl_call(self.regions[r].register_proxy_cap, name)
            after = impl_call(self.regions[r].cap_urls.get, name)
            if got != ("ok", self.concrete(u)) or after != ("ok", self.concrete(u)):
                bad.append(("proxy-stable", "probe", [r, name], self.concrete(u), [got, after]))
        return n, bad


def make_ids(rng, nr):
    """Concrete URLs for the model's static URL segments (seed-dependent, prefix-free apart from
    the intended a < ax relation)."""
    def uid():
        return str(uuid.UUID(int=rng.getrandbits(128)))
    ids = {"g": "http://asset-cdn.test/%s" % uid()[:8], "zz": "https://nowhere.test:12043/cap/%s" % uid()}
    for r in range(1, nr + 1):
        host = "https://sim%d.test:12043/cap/" % r
        ids["r%ds" % r] = host + uid()
        ids["r%da" % r] = host + uid()
        ids["r%db" % r] = host + uid()
        ids["r%dc" % r] = host + uid()
        ids["r%dt" % r] = host + uid()
        ids["r%du" % r] = host + uid()
        ids["r%dg" % r] = "http://sim%d.test:9000/CAPS/%s" % (r, uid()[:13])     # simulator's host, another port
        ids["r%dh" % r] = host + uid()                                           # the Seed cap's own host:port
        for k in range(1, 17):
            ids["r%dL%d" % (r, k)] = host + uid()
    for s in (1, 2):
        ids["ga%d" % s] = "https://appearance%d.test/texture/%s" % (s, uid()[:8])
        ids["gm%d" % s] = "http://map%d.test/map/%s" % (s, uid()[:8])
    return ids


# ----------------------------------------------------------------------------------------
# B1
# ----------------------------------------------------------------------------------------
_G = None
_NR = None
_IDS = None
_GLOBALS = "none"


def _replay_chunk(edge_ids):
    g = _G
    out = []
    queries = 0
    tainted = 0
    for item in edge_ids:
        # item = edge index, or (f, e) with f a NON-TREE edge into src(e) (a merging history or a self-loop such as a
        # repeated register_proxy_cap): replayed as path_to(src f) + f + e, so that hidden state left behind by the
        # history through f meets the next action e
        pre = []
        if isinstance(item, tuple):
            pre, ei = [g.edges[item[0]]], item[1]
        else:
            ei = item
        e = g.edges[ei]
        w = World(_NR, _IDS, _GLOBALS)
        hist = []
        bad = []
        for pe in g.path_to(pre[0]["_s"] if pre else e["_s"]) + pre:
            bad += w.step(pe["act"], pe["out"], final=False)
            hist.append(pe["act"])
        bad += w.step(e["act"], e["out"], final=True)
        hist.append(e["act"])
        if w.taint:
            tainted += 1
            out.append({"history": hist, "kind": w.taint, "mismatches": [list(map(repr, b)) for b in bad[:3]]})
            continue
        kind = None
        if bad:
            kind = bad[0][0].split(":")[0]
        n, b2 = w.observe(e["obs"])
        queries += n
        if b2 and not bad:
            classes = {(b[0], b[1]) for b in b2}
            kind = "%s/%s" % sorted(classes)[0] if len(classes) == 1 else "mixed:" + ",".join(sorted("%s/%s" % c for c in classes))
        if bad or b2:
            out.append({"history": hist, "kind": kind, "mismatches": [list(map(repr, b)) for b in (bad + b2)[:6]],
                        "spec_state": e["dst"]})
    return queries, tainted, out


def _cfg(spec, consts, invs=(), view=False):
    return ("SPECIFICATION %s\nCONSTANTS %s\nCONSTRAINT Bound\n" % (spec, CONSTS % consts)
            + "".join("INVARIANT %s\n" % i for i in invs) + ("VIEW View\n" if view else ""))


_TLC = {}


def _tlc(chk: Check, module, cfg_text, tag, workers):
    import os
    path = os.path.join(chk.scratch, "%s-%s.cfg" % (module, tag))
    with open(path, "w") as f:
        f.write(cfg_text)
    return common.run_tlc(os.path.join(common.SPECS, module + ".tla"), path, workers=workers, scratch=chk.scratch, heap="6g")


def _algo_cfg(consts):
    return ("SPECIFICATION ASpec\nCONSTANTS %s FirstMatch = FALSE SwappedIndex = FALSE DedupeAdd = FALSE IterRemove = FALSE "
            "ReAddOnConsume = FALSE\nCONSTRAINT Bound\n" % (CONSTS % consts)
            + "".join("INVARIANT %s\n" % i for i in ("AlgoResolves", "AlgoTemps", "AlgoByName", "AlgoProxyStable", "AlgoUpstream")))


def _prefetch(chk: Check, plan):
    """All TLC runs of the tier are independent of each other and of the implementation: start them together
    (every configuration otherwise pays two JVM starts in sequence)."""
    import concurrent.futures as cf
    jobs = []
    for item in plan:
        if item[0] == "b1":
            _, consts, label, _cap = item
            jobs.append((("mc", label), "Caps_MC", _cfg("Spec", consts, INVS), 4))
            jobs.append((("mbt", label), "Caps_MBT", _cfg("MSpec", consts, view=True), 1))
        else:
            _, consts, label = item
            jobs.append((("algo", label), "Caps_Algo", _algo_cfg(consts), 4))
    with cf.ThreadPoolExecutor(max_workers=min(len(jobs), max(2, common.NCPU // 2))) as ex:
        futs = {k: ex.submit(_tlc, chk, mod, cfg, "%s-%s" % k, w) for k, mod, cfg, w in jobs}
        for k, f in futs.items():
            _TLC[k] = f.result()


def _b1(chk: Check, consts, label, pair_cap):
    global _G, _NR, _IDS, _GLOBALS
    chk.require_model_ok(_TLC.pop(("mc", label)), "Caps " + label)
    res = _TLC.pop(("mbt", label))
    if not res.ok:
        raise common.MachineryError("Caps_MBT %s export failed:\n%s" % (label, res.out[-3000:]))
    chk.add_tlc(res, "Caps_MBT %s (export)" % label)
    recs = res.printed()
    del res
    obs = {skey(r["st"]): r["obs"] for r in recs if "st" in r}
    edges = []
    for r in recs:
        if "init" in r:
            edges.append(r)
        elif "src" in r and skey(r["dst"]) in obs:      # target inside the depth bound
            r["obs"] = obs[skey(r["dst"])]
            edges.append(r)
    g = Graph(edges)
    if len(g.edges) < 100:
        raise common.MachineryError("Caps_MBT exported only %d edges" % len(g.edges))
    _G, _NR, _IDS, _GLOBALS = g, consts["NR"], make_ids(chk.rng, consts["NR"]), consts["Globals"]
    pairs = g.merge_pairs(pair_cap)
    ids = g.reachable_edges() + pairs
    chk.cov["b1_merge_pairs_replayed"] = chk.cov.get("b1_merge_pairs_replayed", 0) + len(pairs)
    World(consts["NR"], _IDS, _GLOBALS)       # import the implementation once, before forking
    gc.collect()
    gc.freeze()                     # the exported graph is shared read-only with the workers
    results = common.parallel_map(_replay_chunk, common.chunked(ids, common.NCPU * 8))
    gc.unfreeze()
    chk.count(sum(r[0] for r in results))
    chk.cov["traces_validated_against_impl"] += len(ids)
    chk.cov["b1_edges_replayed"] = chk.cov.get("b1_edges_replayed", 0) + len(ids)
    chk.cov["b1_edges_not_compared_after_proxy_cap_defect"] = \
        chk.cov.get("b1_edges_not_compared_after_proxy_cap_defect", 0) + sum(r[1] for r in results)
    acts = {}
    for e in g.edges:
        acts[e["act"]["n"]] = acts.get(e["act"]["n"], 0) + 1
        if e["src"] != e["dst"] or e["act"]["n"] == "RegisterProxy":
            chk.nontrivial(("edge", label, e["_s"], skey(e["act"])))
    chk.cov.setdefault("b1_edges_by_action", {})[label] = acts
    for _, _, bads in results:
        for b in bads:
            kind = b["kind"]
            if kind == "proxy-cap-reregistered":
                chk.violation("B1: register_proxy_cap twice yields two different URLs",
                              {"kind": "proxy-cap-reregistered"}, b)
            elif kind == "resolve/shorter-prefix-wins":
                chk.violation("B1: request below the longer of two prefix-related cap URLs is attributed to the cap with the shorter URL",
                              {"kind": "resolve", "class": "shorter-prefix-wins"}, b)
            else:
                chk.violation("B1 %s: %s differs from specification" % (label, kind),
                              {"kind": kind, "history": b["history"]}, b)
    e = g.edges[min(len(g.edges) - 1, 777)]
    chk.sample({"binding": "B1 edge replay", "path": [p["act"] for p in g.path_to(e["_s"])] + [e["act"]],
                "expected_output": e["out"], "expected_observation_items": len(e["obs"]["res"]) + len(e["obs"]["byname"])})


def _algo(chk: Check, consts, label):
    """Algo layer (transcription of the multidict / reverse index / search order with the candidate
    repairs) checked against the property-level model by TLC.  With FirstMatch = TRUE or SwappedIndex = TRUE
    (the pinned tree's resolve_cap loop / register_proxy_cap indices) TLC produces the 5- and 3-state
    counterexamples of the two genuine defects, with DedupeAdd = TRUE (update_caps skipping a pair the name
    already has) the 7-state one of the grant history a, c, a; the real code is never judged against this layer."""
    chk.require_model_ok(_TLC.pop(("algo", label)), "Caps_Algo " + label)


def run(chk: Check):
    chk.cov["rule"] = ("B1: every edge (inside the depth bound) of the exhaustively enumerated model replayed into fresh real "
                       "SessionManager/Session/ProxiedRegion/MITMProxyEventManager objects with the action's output and the "
                       "full observation compared; non-trivial = edges that change the abstract state or re-register a proxy-only cap.")
    chk.assumptions += [
        "a simulator grants only caps the (rewritten) seed request asked for",
        "session-global cap URLs of the login response (when present and non-empty) are prefix-unrelated to region cap URLs",
        "a granted URL belongs to one cap name (asset-server names may share one) and, the shared asset URL apart, to one region; "
        "prefix-related URLs therefore live in one region",
        "seed URLs are distinct per region and fixed; requested cap names are listed once; regions of one session have "
        "distinct circuit addresses, regions of different sessions may share one (two avatars in one simulator)",
        "plain asset-server caps (GetMesh, ViewerAsset) may resolve with or without region/session (left open), never to a wrong one",
        "URLs the proxy mints itself (wrapper / proxy-only) are on its own host names and therefore never prefix-related to "
        "simulator URLs; one-shot URLs registered through register_cap are (above and below granted URLs)",
    ]
    plan = []
    if chk.tier == "quick":
        plan.append(("b1", dict(NR=2, MaxSeed=2, MaxTemp=2, Grants="1,2,3,4,5,6,7,9,10", PO=P1, Wants="1,2", TN=T1, Long=0, Globals="urls", Depth=5), "2r-d5", 6000))
        # two sessions, asset URL shared across sessions (no one-shot caps)
        plan.append(("b1", dict(NR=3, MaxSeed=2, MaxTemp=0, Grants="1,5,6,10", PO=P1, Wants="1,2", TN=T1, Long=0, Globals="empty", Depth=5), "3r-d5-small", 2000))
        # long grant histories of ONE name in one region: re-grants of an earlier URL (a c a, a c a c, a ax a ..)
        plan.append(("b1", dict(NR=1, MaxSeed=4, MaxTemp=0, Grants="1,2,8", PO=P1, Wants="1,2", TN=T1, Long=0, Globals="none", Depth=9), "1r-regrant-d9", 1500))
        # two proxy-only caps, seed requests naming them in every order / adjacency
        plan.append(("b1", dict(NR=1, MaxSeed=2, MaxTemp=0, Grants="1,5", PO=P2, Wants="1,2,3,4,5,6,7", TN=T1, Long=0, Globals="none", Depth=7), "1r-proxy2-d7", 1000))
        # one-shot URLs above / below granted URLs, registered before and after the grant, consumed, re-registered
        plan.append(("b1", dict(NR=1, MaxSeed=2, MaxTemp=2, Grants="1,3,9", PO="", Wants="1", TN=T1, Long=0, Globals="none", Depth=8), "1r-temps-d8", 1000))
        # several live entries under ONE name (ordinary grant + up to three one-shot caps), used up in any order
        plan.append(("b1", dict(NR=1, MaxSeed=1, MaxTemp=3, Grants="4", PO="", Wants="1", TN=T2, Long=0, Globals="none", Depth=8), "1r-temps3-d8", 1500))
        # a LONG history under one name: 10 grants (CapA) / one-shot registrations (UpTemp) in every mix
        plan.append(("b1", dict(NR=1, MaxSeed=0, MaxTemp=0, Grants="", PO="", Wants="1", TN=T1, Long=10, Globals="none", Depth=11), "1r-long10", 500))
        plan.append(("algo", dict(NR=1, MaxSeed=2, MaxTemp=1, Grants="1,3,9", PO=P2, Wants="1,3,5", TN=T1, Long=0, Globals="none", Depth=6), "1r-d6-small"))
    else:
        plan.append(("b1", dict(NR=3, MaxSeed=2, MaxTemp=1, Grants="1,2,3,4,5,6,7,9,10", PO=P1, Wants="1,2", TN=T1, Long=0, Globals="empty", Depth=5), "3r-d5", 20000))
        plan.append(("b1", dict(NR=2, MaxSeed=3, MaxTemp=2, Grants="1,2,3,4,5,6,7,8,9,10", PO=P1, Wants="1,2", TN=T1, Long=0, Globals="urls", Depth=6), "2r-d6", 30000))
        plan.append(("b1", dict(NR=1, MaxSeed=5, MaxTemp=0, Grants="1,2,3,8", PO=P1, Wants="1,2", TN=T1, Long=0, Globals="none", Depth=11), "1r-regrant-d11", 10000))
        plan.append(("b1", dict(NR=2, MaxSeed=2, MaxTemp=0, Grants="1,5", PO=P2, Wants="1,2,3,4,5,6,7", TN=T1, Long=0, Globals="none", Depth=7), "2r-proxy2-d7", 10000))
        plan.append(("b1", dict(NR=1, MaxSeed=3, MaxTemp=2, Grants="1,2,3,9", PO=P1, Wants="1,2", TN=T1, Long=0, Globals="none", Depth=9), "1r-temps-d9", 10000))
        plan.append(("b1", dict(NR=1, MaxSeed=2, MaxTemp=3, Grants="4,9", PO="", Wants="1", TN=T2, Long=0, Globals="none", Depth=9), "1r-temps3-d9", 10000))
        plan.append(("b1", dict(NR=1, MaxSeed=0, MaxTemp=0, Grants="", PO="", Wants="1", TN=T1, Long=12, Globals="none", Depth=13), "1r-long12", 500))
        plan.append(("algo", dict(NR=1, MaxSeed=0, MaxTemp=0, Grants="", PO="", Wants="1", TN=T1, Long=10, Globals="none", Depth=11), "1r-long10"))
        plan.append(("algo", dict(NR=1, MaxSeed=1, MaxTemp=3, Grants="4", PO="", Wants="1", TN=T2, Long=0, Globals="none", Depth=8), "1r-temps3-d8"))
        plan.append(("algo", dict(NR=2, MaxSeed=2, MaxTemp=1, Grants="1,2,3,4,5,6,7,8,9,10", PO=P1, Wants="1,2", TN=T1, Long=0, Globals="none", Depth=5), "2r-d5"))
        plan.append(("algo", dict(NR=1, MaxSeed=4, MaxTemp=0, Grants="1,2,8", PO=P1, Wants="1,2", TN=T1, Long=0, Globals="none", Depth=9), "1r-regrant-d9"))
        plan.append(("algo", dict(NR=1, MaxSeed=2, MaxTemp=1, Grants="1,3,9", PO=P2, Wants="1,2,3,4,5,6,7", TN=T1, Long=0, Globals="none", Depth=7), "1r-proxy2-d7"))
    _prefetch(chk, plan)
    for item in plan:
        if item[0] == "b1":
            _b1(chk, *item[1:])
        else:
            _algo(chk, *item[1:])
    chk.cov["exhaustive"] = True
