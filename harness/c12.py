"""C12 — LLSD forms are faithful (LLSDFormat.tla, LLSDMessage.tla).

Codec clause  : LLSDFormat_MBT (all values up to depth 2: laws + B3 table replayed into the real
                formatters/parsers) and LLSDFormat_Trace (recorded real outputs of generated trees,
                parsed again by TLC's reference parsers).
Message clause: LLSDMessage_MBT (carrier state machine, every edge replayed through the real
                LLSDMessageSerializer) and LLSDMessage_Trace (every template x generated values,
                dict and XML form).

This module also hosts the template-directed message generator shared with c11.py.
"""
from __future__ import annotations

import datetime
import fractions
import math
import os
import re
import struct
import time
import uuid
import zlib

from . import common
from .common import Check, impl_call

UTC = datetime.timezone.utc
EPOCH = datetime.datetime(1970, 1, 1)
TZS = ["UTC", "America/New_York", "Asia/Kolkata"]


class Pending:
    """Buffers violations of a run and registers them so that every distinct class comes first
    (the framework keeps details and replay files for the first 50 only)."""

    def __init__(self, chk):
        self.chk = chk
        self.items = []

    def violation(self, what, features, detail):
        self.items.append((what, features, detail))

    def flush(self):
        seen, first, rest = set(), [], []
        for it in self.items:
            k = common.skey(it[1])
            (rest if k in seen else first).append(it)
            seen.add(k)
        for what, features, detail in first + rest:
            self.chk.violation(what, features, detail)
        self.items = []


# =========================================================================================
# projection Python object <-> specification value  [t, v]
# =========================================================================================

def V(t, v):
    return {"t": t, "v": v}


def civil(d: datetime.datetime):
    return [d.year, d.month, d.day, d.hour, d.minute, d.second, d.microsecond]


def proj(x):
    """LLSD meaning of a Python object as the library's formatters are documented to see it.
    Naive datetimes are UTC instants (LLSD convention, what the XML/notation codecs do)."""
    from hippolyzer.lib.base import llsd
    from hippolyzer.lib.base.datatypes import TupleCoord
    if x is None:
        return V("undef", [])
    if isinstance(x, bool):
        return V("bool", [1 if x else 0])
    if isinstance(x, int):
        if -2 ** 31 <= x < 2 ** 31:
            return V("int", list(struct.pack("!i", x)))
        return V("int", list(x.to_bytes(16, "big", signed=True)))
    if isinstance(x, float):
        return V("real", list(struct.pack("!d", x)))
    if isinstance(x, uuid.UUID):
        return V("uuid", list(x.bytes))
    if isinstance(x, llsd.uri):
        return V("uri", list(x.encode("utf8", "surrogatepass")))
    if isinstance(x, str):
        return V("str", list(x.encode("utf8", "surrogatepass")))
    if isinstance(x, (bytes, bytearray)):
        return V("bin", list(x))
    if isinstance(x, datetime.datetime):
        if x.tzinfo is not None:
            x = x.astimezone(UTC).replace(tzinfo=None)
        return V("date", civil(x))
    if isinstance(x, datetime.date):
        return V("date", [x.year, x.month, x.day, 0, 0, 0, 0])
    if isinstance(x, TupleCoord):
        return V("arr", [proj(float(c)) for c in tuple(x)])
    if isinstance(x, (list, tuple)):
        return V("arr", [proj(i) for i in x])
    if isinstance(x, dict):
        ents = []
        for k, val in x.items():
            kb = k.encode("utf8", "surrogatepass") if isinstance(k, str) else bytes(k)
            ents.append([list(kb), proj(val)])
        ents.sort(key=lambda e: e[0])
        return V("map", ents)
    return V("other:" + type(x).__name__, [])


def unproj(v):
    from hippolyzer.lib.base import llsd
    t, p = v["t"], v["v"]
    if t == "undef":
        return None
    if t == "bool":
        return p == [1]
    if t == "int":
        return struct.unpack("!i", bytes(p))[0]
    if t == "real":
        return struct.unpack("!d", bytes(p))[0]
    if t == "uuid":
        return uuid.UUID(bytes=bytes(p))
    if t == "str":
        return bytes(p).decode("utf8")
    if t == "uri":
        return llsd.uri(bytes(p).decode("utf8"))
    if t == "bin":
        return bytes(p)
    if t == "date":
        return datetime.datetime(*p)
    if t == "arr":
        return [unproj(i) for i in p]
    if t == "map":
        return {bytes(k).decode("utf8"): unproj(i) for k, i in p}
    raise common.MachineryError("unproj: " + t)


def _instant_civil(seconds: float):
    """Civil UTC fields of an epoch-seconds double, rounded to the microsecond, in exact arithmetic."""
    us = round(fractions.Fraction(seconds) * 1000000)
    return civil(EPOCH + datetime.timedelta(microseconds=us))


def date_table(out: bytes):
    """Opaque-leaf table for binary dates: every 'd' + 8 bytes in the output, decoded with struct."""
    tbl, seen = [], set()
    i = out.find(b"d")
    while i >= 0 and i + 9 <= len(out):
        d8 = out[i + 1:i + 9]
        if d8 not in seen:
            seen.add(d8)
            x = struct.unpack("<d", d8)[0]
            if math.isfinite(x) and abs(x) < 2.5e11:
                try:
                    tbl.append([list(d8), _instant_civil(x)])
                except (OverflowError, ValueError):
                    pass
        i = out.find(b"d", i + 1)
    return tbl


_REAL_TOK = re.compile(rb"r([-+0-9.eEinfaINFA]+)")


def real_table(out: bytes):
    tbl, seen = [], set()
    for m in _REAL_TOK.finditer(out):
        t = m.group(1)
        if t in seen:
            continue
        seen.add(t)
        try:
            tbl.append([list(t), list(struct.pack("!d", float(t.decode("ascii"))))])
        except ValueError:
            pass
    return tbl


def set_tz(tz: str):
    os.environ["TZ"] = tz
    time.tzset()


# =========================================================================================
# generated LLSD trees
# =========================================================================================

_XML_BAD = re.compile("[\x00-\x08\x0b-\x1f\ufffe\uffff\ud800-\udfff]")
_ALPHAS = [
    "ab", "a\nb'\"\\", "\n", "\\n\\", "é☃\U0001f600x", "a b\tc", "<&>]]>", "\x00\x01\x7f", "'", '"', "\r\n", "{}[],:!",
    "i1r2.5u", "\\x41\\'",
]


def gen_str(rng, xml_only=False, maxlen=12):
    n = rng.choice([0, 1, 1, 2, 3, 5, 8, maxlen])
    alpha = rng.choice(_ALPHAS)
    s = "".join(rng.choice(alpha) for _ in range(n))
    if xml_only:
        s = _XML_BAD.sub("", s)
    return s


def xml_legal(s: str) -> bool:
    return not _XML_BAD.search(s)


_F_SPECIAL = [0.0, -0.0, 1.0, -1.0, 1.5, 1e-7, -1e-7, 1e22, 1e16, 123456789.125, 5e-324, 1.7976931348623157e308,
              float("inf"), float("-inf"), 0.1, 2.0 ** 53, 1 / 3]


def gen_float(rng):
    c = rng.random()
    if c < 0.4:
        return rng.choice(_F_SPECIAL)
    if c < 0.6:
        return struct.unpack("<f", struct.pack("<f", rng.uniform(-1000, 1000)))[0]
    while True:
        x = struct.unpack("<d", rng.getrandbits(64).to_bytes(8, "little"))[0]
        if math.isfinite(x):
            return x


def gen_date(rng):
    """Naive datetime (LLSD: UTC) 1901..2100; sub-second part mostly zero, sometimes milli/microseconds.
    Times inside DST gaps of the test zones are included on purpose (they are ordinary UTC instants)."""
    c = rng.random()
    if c < 0.2:
        # before the epoch: negative timestamps, mostly with a fractional second
        base = rng.choice([EPOCH - datetime.timedelta(seconds=rng.choice([1, 2, 59, 86400, 86401, 14182940, rng.randrange(1, 2145916800)])),
                           datetime.datetime(1969, 12, 31, 23, 59, 59), datetime.datetime(1901, 12, 13, 20, 45, 52)])
        us = rng.choice([500000, 250000, 750000, 999999, 1, 0, rng.randrange(1000) * 1000, rng.randrange(1000000)])
        return base.replace(microsecond=us)
    if c < 0.33:
        base = rng.choice([EPOCH, datetime.datetime(2020, 1, 1, 12, 0), datetime.datetime(2021, 3, 14, 7, 30, 15),
                           datetime.datetime(2021, 3, 14, 2, 30), datetime.datetime(2021, 11, 7, 1, 30),
                           datetime.datetime(2038, 1, 19, 3, 14, 8), datetime.datetime(2099, 12, 31, 23, 59, 59)])
    else:
        base = EPOCH + datetime.timedelta(seconds=rng.randrange(0, 4102444800))
    c = rng.random()
    if c < 0.6:
        us = 0
    elif c < 0.8:
        us = rng.randrange(1000) * 1000
    else:
        us = rng.choice([249, 1, 999999, 500000, rng.randrange(1000000)])
    return base.replace(microsecond=us)


def gen_leaf(rng, kinds):
    from hippolyzer.lib.base import llsd
    from hippolyzer.lib.base.datatypes import UUID, Vector2, Vector3, Vector4, Quaternion
    k = rng.choice(kinds)
    if k == "undef":
        return None
    if k == "bool":
        return rng.random() < 0.5
    if k == "int":
        return rng.choice([0, 1, -1, 2 ** 31 - 1, -2 ** 31, 300, -256, rng.randrange(-2 ** 31, 2 ** 31)])
    if k == "real":
        return gen_float(rng)
    if k == "uuid":
        b = bytes(rng.randrange(256) for _ in range(16)) if rng.random() < 0.8 else bytes(16)
        return UUID(bytes=b) if rng.random() < 0.5 else uuid.UUID(bytes=b)
    if k == "str":
        return gen_str(rng)
    if k == "bin":
        n = rng.choice([0, 1, 2, 3, 4, 7, 16])
        return bytes(rng.choice([0, 10, 13, 34, 39, 92, 255, rng.randrange(256)]) for _ in range(n))
    if k == "uri":
        # URIs carry no raw control characters (RFC 3986); quotes and backslashes do occur
        return llsd.uri(rng.choice(["", "http://x", "https://sim.example/cap/0a1b?x='y'&z=\"w\"", "a\\b", "urn:é"]))
    if k == "date":
        return gen_date(rng)
    if k == "day":
        return gen_date(rng).date()
    if k == "adate":
        return gen_date(rng).replace(tzinfo=UTC).astimezone(datetime.timezone(datetime.timedelta(hours=rng.choice([0, 0, -5, 9]))))
    if k == "vec":
        f = lambda: struct.unpack("<f", struct.pack("<f", rng.uniform(-300, 300)))[0]
        return rng.choice([lambda: Vector3(f(), f(), f()), lambda: Vector2(f(), f()), lambda: Vector4(f(), f(), f(), f()),
                           lambda: Quaternion(0.5, -0.5, 0.5, 0.5), lambda: Quaternion(f(), f(), f(), f())])()
    raise AssertionError(k)


LEAF_KINDS = ["undef", "bool", "int", "int", "real", "real", "uuid", "str", "str", "str", "bin", "uri", "date", "date",
              "day", "vec"]


def gen_tree(rng, depth, budget, kinds):
    """budget[0]: leaves left (keeps every serialised form short enough for TLC sequences)."""
    if depth == 0 or budget[0] <= 1 or rng.random() < 0.3:
        budget[0] -= 1
        return gen_leaf(rng, kinds)
    n = rng.choice([0, 1, 2, 2, 3, 4])
    if rng.random() < 0.5:
        out = []
        for _ in range(n):
            if budget[0] <= 0:
                break
            out.append(gen_tree(rng, depth - 1, budget, kinds))
        return tuple(out) if rng.random() < 0.1 else out
    d = {}
    for _ in range(n):
        if budget[0] <= 0:
            break
        # keys are outside the newline clause and URIs/keys are XML names in practice: no control characters
        key = _XML_BAD.sub("", gen_str(rng, maxlen=5)).replace("\n", "").replace("\r", "")
        d[key] = gen_tree(rng, depth - 1, budget, kinds)
    return d


def tree_facts(x, acc=None):
    """What a tree contains, for form selection and for classifying failures."""
    from hippolyzer.lib.base import llsd
    if acc is None:
        acc = {"key_amp": False, "xml_ok": True, "aware": False, "naive": False, "day": False, "uri": False, "nl": False, "vec": False, "usec": False}
    if isinstance(x, llsd.uri):
        acc["uri"] = True
        acc["xml_ok"] &= xml_legal(x) and "\r" not in x
    elif isinstance(x, str):
        acc["xml_ok"] &= xml_legal(x) and "\r" not in x
        acc["nl"] |= "\n" in x
    elif isinstance(x, datetime.datetime):
        acc["aware" if x.tzinfo is not None else "naive"] = True
        acc["usec"] |= x.microsecond != 0
    elif isinstance(x, datetime.date):
        acc["day"] = True
    elif isinstance(x, dict):
        for k, v in x.items():
            acc["key_amp"] |= any(c in k for c in "&<>")
            acc["xml_ok"] &= xml_legal(k) and "\r" not in k
            tree_facts(v, acc)
    elif isinstance(x, (list, tuple)):
        for v in x:
            tree_facts(v, acc)
    elif type(x).__name__ in ("Vector2", "Vector3", "Vector4", "Quaternion"):
        acc["vec"] = True
    return acc


def _codecs():
    from hippolyzer.lib.base import llsd
    return {
        "bin": (lambda v: llsd.format_binary(v, with_header=False), llsd.parse_binary, lambda b: b),
        "binh": (lambda v: llsd.format_binary(v), llsd.parse_binary, lambda b: b),
        "zip": (llsd.zip_llsd, llsd.unzip_llsd, zlib.decompress),
        "not": (llsd.format_notation, llsd.parse_notation, lambda b: b),
        "xml": (llsd.format_xml, llsd.parse_xml, lambda b: b),
        "xmlp": (llsd.format_pretty_xml, llsd.parse_xml, lambda b: b),
    }


# documents that announce their own format also go through the content-sniffing dispatcher llsd.parse()
SNIFF = {"binh": "bin", "not": "not", "xml": "xml", "xmlp": "xml"}


def form_events(val, forms, pv=None):
    """Run the real formatter/parser pairs on one value; one Form event per form."""
    evs = []
    pv = pv or proj(val)
    cod = _codecs()
    for form in forms:
        fmt, parse, inflate = cod[form]
        st, out = impl_call(fmt, val)
        ev = {"ev": "Form", "form": form, "v": pv, "st": st, "out": [], "pst": "ok", "r": V("err", []), "dt": [], "rt": [],
              "sniff": SNIFF.get(form, "none"), "head": [], "sst": "ok", "rs": V("err", [])}
        if st != "ok":
            ev["exc"] = out
            evs.append(ev)
            continue
        out = bytes(out)
        pst, r = impl_call(parse, out)
        ev["pst"] = pst
        if pst == "ok":
            ev["r"] = proj(r)
        else:
            ev["exc"] = r
        if ev["sniff"] != "none":
            from hippolyzer.lib.base import llsd
            ev["head"] = list(out[:40])
            sst, rs = impl_call(llsd.parse, out)
            ev["sst"] = sst
            if sst == "ok":
                ev["rs"] = proj(rs)
            else:
                ev["sexc"] = rs
        if form not in ("xml", "xmlp"):
            try:
                raw = inflate(out)
            except zlib.error as e:
                raw = b""
                ev["exc"] = "zlib: %s" % e
            ev["out"] = list(raw)
            if form == "not":
                ev["rt"] = real_table(raw)      # (binary dates need no table any more: TLC decodes the double itself)
        evs.append(ev)
    return evs


def _leaf_diffs(a, b, path=()):
    """Leaf-level differences between two projected values (classification of failures only)."""
    if a["t"] != b["t"] or a["t"] in ("arr", "map") and len(a["v"]) != len(b["v"]):
        if a["t"] in ("arr", "map") or b["t"] in ("arr", "map"):
            return [("shape", a["t"], b["t"], None, None)]
        return [("leaf", a["t"], b["t"], a["v"], b["v"])]
    if a["t"] == "arr":
        return [d for x, y in zip(a["v"], b["v"]) for d in _leaf_diffs(x, y)]
    if a["t"] == "map":
        out = []
        for (k1, x), (k2, y) in zip(a["v"], b["v"]):
            if k1 != k2:
                out.append(("shape", "key", "key", k1, k2))
            else:
                out += _leaf_diffs(x, y)
        return out
    return [] if a["v"] == b["v"] else [("leaf", a["t"], b["t"], a["v"], b["v"])]


def classify_codec(ev, tz, facts):
    """Names of the distinct ways this (value, form) diverged."""
    if ev["st"] != "ok":
        return {"format-raises"}
    if ev["pst"] != "ok":
        return {"parse-raises"}
    classes = set()
    for kind, ta, tb, va, vb in _leaf_diffs(ev["v"], ev["r"]):
        if kind == "leaf" and ta == "uri" and tb == "str" and va == vb:
            classes.add("uri-type-lost")
        elif kind == "leaf" and ta == tb == "date":
            da, db = datetime.datetime(*va), datetime.datetime(*vb)
            if da - db == datetime.timedelta(microseconds=1) and ev["form"] in ("not", "xml", "xmlp"):
                classes.add("date-usec-truncated")
            elif tz != "UTC" and facts["naive"] and ev["form"] in ("bin", "binh", "zip") and da.microsecond == db.microsecond \
                    and abs(da - db) <= datetime.timedelta(hours=15):
                classes.add("naive-date-local-tz")
            else:
                classes.add("other")
        else:
            classes.add("other")
    return classes or {"other"}


# ---- workers (fork pool): each job is (job id, tz, [(tree id, value, forms)])
_JOBS = None


def _run_codec_job(job_no):
    tz, items = _JOBS[job_no]
    set_tz(tz)
    try:
        return [(tid, tz, form_events(val, forms)) for tid, val, forms in items]
    finally:
        set_tz("UTC")


CODEC_CFG = "SPECIFICATION TraceSpec\nPOSTCONDITION TraceAccepted\nCHECK_DEADLOCK FALSE\n"


def _validate_codec(chk: Check, runs, label):
    """runs: [(tree id, tz, events, facts)].  TLC validates; failures are classified and registered."""
    traces = [evs for _, _, evs, _ in runs]
    acc, rej, results = common.validate_traces("LLSDFormat_Trace", CODEC_CFG, traces, chk.scratch, shards=10,
                                               tag="llsd")
    fails = {}
    for r in results:
        chk.add_tlc(r, "LLSDFormat_Trace " + label)
        for rec in r.printed():
            if isinstance(rec, dict) and "fail" in rec:
                fails.setdefault(rec["tid"], set()).add(rec["fail"])
    chk.cov["traces_validated_against_impl"] += len(traces)
    chk.count(sum(len(t) for t in traces))
    for ti, j, ev in rej:
        chk.violation("codec trace rejected by LLSDFormat_Trace", {"kind": "llsd-codec", "class": "trace-rejected", "form": ev.get("form")},
                      {"event": common._clip(ev)})
    for ti, clauses in sorted(fails.items()):
        tid, tz, evs, facts = runs[ti]
        by_form = {}
        for c in clauses:
            by_form.setdefault(c.split(".")[0], []).append(c)
        for form, cl in sorted(by_form.items()):
            ev = next(e for e in evs if e["form"] == form)
            sn = [c for c in cl if ".sniff-" in c]
            if sn and ev["st"] == ev["pst"] == "ok" and ev["r"] == ev["v"]:
                # the format's own parser is fine with the document, the sniffing dispatcher is not
                chk.violation("LLSD %s form through llsd.parse(): differs from the format's own parser" % form,
                              {"kind": "llsd-codec", "class": "sniff-dispatch", "form": form,
                               "clauses": "+".join(sorted(c.split(".", 1)[1] for c in sn))},
                              {"tz": tz, "value": common._clip(ev["v"]), "via_llsd_parse": common._clip(ev["rs"]), "exc": ev.get("sexc"),
                               "head": bytes(ev["head"]).decode("latin-1"), "out": bytes(ev["out"]).decode("latin-1")[:300]})
                cl = [c for c in cl if c not in sn]
                if not cl:
                    continue
            for cls in sorted(classify_codec(ev, tz, facts)):
                chk.violation("LLSD %s form: %s" % (form, cls),
                              {"kind": "llsd-codec", "class": cls, "form": form,
                               "clauses": "+".join(sorted(c.split(".", 1)[1] for c in cl))},
                              {"tz": tz, "failed_clauses": sorted(cl), "value": common._clip(ev["v"]), "reparsed": common._clip(ev["r"]),
                               "out": bytes(ev["out"]).decode("latin-1")[:300], "exc": ev.get("exc")})
    return fails


def _codec_table(chk: Check, big: bool):
    """LLSDFormat_MBT: laws on every value up to depth 2 + B3 table replay."""
    from hippolyzer.lib.base import llsd
    import hippolyzer.lib.base.serialization as se
    invs = ["WellFormed", "BinRoundTrip", "BinDocRoundTrip", "BinFraming", "NotRoundTrip", "NotAltRoundTrip", "NotNoNewline", "SniffLaw", "RLAgrees", "BinEmbedded"]

    def mk(tiny, both):
        return "SPECIFICATION Spec\nCONSTANTS Big = %s Tiny = %s SniffTrimBoth = %s\n%s" % (
            "TRUE" if big else "FALSE", "TRUE" if tiny else "FALSE", "TRUE" if both else "FALSE", "".join("INVARIANT %s\n" % i for i in invs))
    cfgp = os.path.join(chk.scratch, "llsdmbt.cfg")
    # the sniffing law bites: a dispatcher that trims BOTH ends of the body is refuted by TLC (binary documents end in raw bytes)
    with open(cfgp, "w") as f:
        f.write(mk(True, True))
    res = common.run_tlc(os.path.join(common.SPECS, "LLSDFormat_MBT.tla"), cfgp, workers=1, scratch=chk.scratch)
    chk.add_tlc(res, "LLSDFormat_MBT leaves, dispatcher trimming both ends (must be refuted)")
    if "SniffLaw" not in res.violated:
        raise common.MachineryError("SniffLaw does not refute a both-ends trimming dispatcher: %r" % res.violated)
    with open(cfgp, "w") as f:
        f.write(mk(False, False))
    res = common.run_tlc(os.path.join(common.SPECS, "LLSDFormat_MBT.tla"), cfgp, workers=1, scratch=chk.scratch, heap="8g")
    chk.require_model_ok(res, "LLSDFormat_MBT depth<=2 big=%s" % big)
    rows = [r for r in res.printed() if isinstance(r, dict) and r.get("row") == "val"]
    if len(rows) < 1000:
        raise common.MachineryError("LLSDFormat_MBT printed only %d rows" % len(rows))
    # vacuity of the newline law: some row's string holds a newline
    if not any(10 in r["bin"] for r in rows):
        raise common.MachineryError("no table row contains a newline")
    alt_ok = alt_n = 0
    runs_in = []
    for n, r in enumerate(rows):
        v, b, nt = r["v"], bytes(r["bin"]), bytes(r["notation"])
        chk.count(5)

        for what, fn, inp in (("parse_binary", llsd.parse_binary, b),
                              ("parse_binary(header)", llsd.parse_binary, b"<?llsd/binary?>\n" + b),
                              ("unzip_llsd", llsd.unzip_llsd, zlib.compress(b)),
                              ("parse_notation", llsd.parse_notation, nt),
                              ("parse(binary document)", llsd.parse, b"<?llsd/binary?>\n" + b),
                              ("parse(notation document)", llsd.parse, nt)):
            st, got = impl_call(fn, inp)
            if st != "ok" or proj(got) != v:
                cls = "other"
                diffs = _leaf_diffs(v, proj(got)) if st == "ok" else []
                if diffs and what in ("parse_notation", "parse(notation document)") and all(
                        d[0] == "leaf" and d[1] == d[2] == "date" and
                        datetime.datetime(*d[3]) - datetime.datetime(*d[4]) == datetime.timedelta(microseconds=1) for d in diffs):
                    cls = "date-usec-truncated"     # exactly the registered finding: one microsecond low through the text date parser
                chk.violation("table: %s differs from specification" % what,
                              {"kind": "llsd-table", "op": what, "class": cls},
                              {"value": common._clip(v), "input": inp.decode("latin-1")[:300], "impl": repr(got)[:300]})
        # the stream parser used by the serialization combinators: same value, and it stops where the format says
        junk = b"]\x07"
        reader = se.BufferReader("<", b + junk)
        st, got = impl_call(lambda: se.BinaryLLSD.deserialize(reader, None))
        if st != "ok" or proj(got) != v or len(reader) != len(junk):
            chk.violation("table: BinaryLLSD.deserialize differs from specification",
                          {"kind": "llsd-table", "op": "BinaryLLSD.deserialize", "root": v["t"]},
                          {"value": common._clip(v), "input": list(b), "impl": repr(got)[:300], "left": len(reader) if st == "ok" else None})
        # ... embedded at a non-zero offset of the caller's reader (after 1 / 4 / 16 prefix bytes), two documents back to
        # back (this row's and the previous row's), then trailing bytes: each read hands back its own value and leaves the
        # reader exactly behind its document
        pre = (b"\x07", b"\x01\x02\x03\x04", b"[" * 16)[n % 3]
        prev = rows[n - 1] if n else r
        pb = bytes(prev["bin"])
        reader = se.BufferReader("<", pre + b + pb + junk)

        def embedded():
            reader.read_bytes(len(pre))
            v1 = reader.read(se.BinaryLLSD)
            p1 = reader.tell()
            v2 = se.BinaryLLSD.deserialize(reader, None)
            return [proj(v1), p1, proj(v2), reader.tell(), len(reader)]
        got = impl_call(embedded)
        exp = [v, len(pre) + len(b), prev["v"], len(pre) + len(b) + len(pb), len(junk)]
        chk.count()
        if got != ("ok", exp):
            chk.violation("table: BinaryLLSD read at an offset / back to back differs from specification",
                          {"kind": "llsd-table", "op": "BinaryLLSD.embedded", "prefix": len(pre)},
                          {"value": common._clip(v), "second": common._clip(prev["v"]), "prefix": len(pre), "expected": common._clip(exp),
                           "impl": repr(got)[:400]})
        st, got = impl_call(llsd.parse_notation, bytes(r["alt"]))
        alt_n += 1
        alt_ok += st == "ok" and proj(got) == v
        if v["t"] in ("arr", "map"):
            chk.nontrivial(("row", n))
        forms = ["bin", "binh", "zip", "not", "xml"]
        # XML cannot carry control characters (third-party formatter drops them): XML-legal rows only
        val = unproj(v)
        if not tree_facts(val)["xml_ok"]:
            forms.remove("xml")
        runs_in.append((n, val, forms, {"bin": list(b), "binh": list(b"<?llsd/binary?>\n" + b), "zip": list(b), "not": list(nt)}))
    chk.cov["traces_validated_against_impl"] += len(rows)
    chk.notes.append("alternative notation syntax rows accepted by the real parser (informational, not part of the property): %d/%d" % (alt_ok, alt_n))
    chk.sample({"binding": "B3 table row (spec->code)", "row": rows[len(rows) // 2]})
    return runs_in


def _run_jobs(jobs):
    global _JOBS
    _JOBS = jobs
    res = common.parallel_map(_run_codec_job, list(range(len(jobs))))
    return [x for part in res for x in part]


# ---- long string values: the notation output law on documents of thousands of bytes (run-length form)
def to_rl(bs: bytes):
    import itertools
    return [[b, sum(1 for _ in g)] for b, g in itertools.groupby(bs)]


def long_values(rng, thorough: bool):
    """String values of 1022..70000 UTF-8 bytes with LF / CR / quote / backslash at the start, in the middle and at the
    end, multi-byte characters straddling the 1024-byte boundary, bare and nested, plus long map keys and URIs.
    Values are built from long runs of one filler byte so that their serialised form stays short in run-length form."""
    from hippolyzer.lib.base import llsd
    out = []
    lengths = [1022, 1023, 1024, 1025, 4096, 70000] + ([2047, 2048, 65535, 65536, 200000] if thorough else [])
    specials = ["\n", "\r", "'", '"', "\\", "\n\n", "\r\n"]

    def sized(n, special, where, fill="a"):
        k = len(special.encode("utf8"))
        body = n - k
        pos = {"start": 0, "mid": body // 2, "end": body}[where]
        return fill * pos + special + fill * (body - pos)
    for n in lengths:
        for sp in specials:
            for where in ("start", "mid", "end"):
                out.append(("str %s %r" % (where, sp), sized(n, sp, where), True))
    # multi-byte characters whose encoding straddles byte 1024, with a newline behind or in front of them
    for ch in ("\u00e9", "\u2603", "\U0001f600"):
        k = len(ch.encode("utf8"))
        for off in range(1, k):
            for tail in ("\n", "x\nx", ""):
                out.append(("str straddle %r+%d %r" % (ch, off, tail), "a" * (1024 - off) + ch + tail + "b" * 8, True))
                out.append(("str straddle-nl-first %r+%d" % (ch, off), "\n" + "a" * (1023 - off) + ch + "b" * 8, True))
    # nested, and next to long keys / URIs (keys and URIs themselves hold no line feed: outside the clause)
    for n in (1023, 1024, 4096):
        s_ = sized(n, "\n", "mid")
        out.append(("nested in array", [1, s_, None], False))
        out.append(("nested in map", {"k": s_, "z": [s_]}, False))
        out.append(("long key", {"k" * n: "a\nb", "q'\\" + "k" * n: s_}, False))
        out.append(("long uri", [llsd.uri("http://x/" + "u" * n + "?q='\"\\"), s_], False))
    if thorough:
        for _ in range(60):
            n = rng.choice([1000, 1023, 1024, 1030, 3000, 10000])
            chars = [rng.choice("ab") * rng.randrange(1, n // 3)] * 1
            s_ = ""
            while len(s_.encode("utf8")) < n:
                s_ += rng.choice(["a", "b"]) * rng.randrange(1, max(2, n // 4)) + rng.choice(specials + ["\u00e9", ""])
            out.append(("str random runs", s_, True))
    return out


def long_event(what, val, top):
    from hippolyzer.lib.base import llsd
    n = len(val.encode("utf8")) if top else max(len(x.encode("utf8")) for x in _strings_of(val))
    ev = {"ev": "Long", "what": what, "n": n, "st": "ok", "pst": "ok", "same": False, "outlen": 0, "out_rl": [], "top": bool(top),
          "binhead": [], "binlen": 0}
    st, out = impl_call(llsd.format_notation, val)
    ev["st"] = st
    if st == "ok":
        out = bytes(out)
        ev["outlen"], ev["out_rl"] = len(out), to_rl(out)
        pst, r = impl_call(llsd.parse_notation, out)
        ev["pst"] = pst
        ev["same"] = pst == "ok" and proj(r) == proj(val)
    else:
        ev["exc"] = out
    if top:
        st, b = impl_call(llsd.format_binary, val, False)
        if st == "ok":
            ev["binhead"], ev["binlen"] = list(b[:5]), len(b)
    return ev


def _strings_of(x):
    if isinstance(x, str):
        yield x
    elif isinstance(x, dict):
        for k, v in x.items():
            yield k
            yield from _strings_of(v)
    elif isinstance(x, (list, tuple)):
        for v in x:
            yield from _strings_of(v)


def _long(chk: Check, thorough: bool):
    vals = long_values(chk.rng, thorough)
    evs = [long_event(w, v, t) for w, v, t in vals]
    too_long = [e for e in evs if len(e["out_rl"]) > 400]
    if too_long:
        raise common.MachineryError("run-length form of a long value is itself too long: %s" % too_long[0]["what"])
    traces = [[e] for e in evs]
    acc, rej, results = common.validate_traces("LLSDFormat_Trace", CODEC_CFG, traces, chk.scratch, shards=4, tag="llong")
    fails = {}
    for r in results:
        chk.add_tlc(r, "LLSDFormat_Trace long values")
        for rec in r.printed():
            if isinstance(rec, dict) and "fail" in rec:
                fails.setdefault(rec["tid"], set()).add(rec["fail"])
    chk.cov["traces_validated_against_impl"] += len(traces)
    chk.cov["long_values"] = len(traces)
    chk.cov["long_values_with_newline"] = sum(1 for _, v, _ in vals if any("\n" in x for x in _strings_of(v)))
    chk.count(len(traces))
    for ti, j, ev in rej:
        chk.violation("long value trace rejected by LLSDFormat_Trace", {"kind": "llsd-long", "class": "trace-rejected"}, {"what": ev.get("what")})
    for ti, clauses in sorted(fails.items()):
        e = evs[ti]
        chk.nontrivial(("long", ti))
        for c in sorted(clauses):
            chk.violation("LLSD notation, long string value: %s" % c, {"kind": "llsd-long", "clause": c, "bytes": e["n"] if e["n"] in (1022, 1023, 1024, 1025, 4096, 70000) else "other"},
                          {"what": e["what"], "bytes": e["n"], "outlen": e["outlen"], "out_rl": e["out_rl"][:12], "exc": e.get("exc")})
    for i in range(len(evs)):
        chk.nontrivial(("long", i))
    chk.sample({"binding": "B2 long value (output law on the run-length form)", "event": {k: (v[:8] if isinstance(v, list) else v) for k, v in evs[len(evs) // 3].items()}})


def _codec(chk: Check, big: bool, n_trees: int, depth: int):
    rng = chk.rng
    table_rows = _codec_table(chk, big)
    table_items = [r[:3] for r in table_rows]
    table_bytes = {r[0]: r[3] for r in table_rows}
    # formatter side of the table rows (code -> spec): under UTC, date-bearing rows under every zone
    jobs = []
    for part in common.chunked(table_items, 16):
        jobs.append(("UTC", part))
    dated = [it for it in table_items if "date" in str(proj(it[1]))]
    step = max(1, len(dated) // (400 if not big else 1500))
    for tz in TZS[1:]:
        for part in common.chunked(dated[::step], 4):
            jobs.append((tz, part))
    # generated trees
    trees = []
    for i in range(n_trees):
        kinds = LEAF_KINDS
        binary_only = rng.random() < 0.12
        if binary_only:
            kinds = LEAF_KINDS + ["adate", "adate", "adate"]
        val = gen_tree(rng, rng.randrange(1, depth + 1), [rng.choice([3, 6, 10, 14])], kinds)
        facts = tree_facts(val)
        forms = ["bin", "binh", "zip"]
        if not facts["aware"]:
            forms.append("not")
            if facts["xml_ok"]:
                forms.append("xml")
                # pretty XML is outside the property's forms; it is exercised for the sniffing dispatcher only, on trees the
                # third-party pretty formatter can write (it does not escape & < > in map KEYS: tallied, not judged)
                if facts["key_amp"]:
                    chk.cov["pretty_xml_skipped_key_needs_escaping"] = chk.cov.get("pretty_xml_skipped_key_needs_escaping", 0) + 1
                elif i % 2:
                    forms.append("xmlp")
        trees.append((100000 + i, val, forms))
    facts_of = {tid: tree_facts(val) for tid, val, _ in table_items + trees}
    for part in common.chunked(trees, 16):
        jobs.append(("UTC", part))
    zoned = [t for t in trees if facts_of[t[0]]["naive"] or facts_of[t[0]]["aware"] or facts_of[t[0]]["day"]]
    for k, tz in enumerate(TZS[1:]):
        for part in common.chunked(zoned, 8):
            jobs.append((tz, part))
    out = _run_jobs(jobs)
    runs = []
    for tid, tz, evs in out:
        # keep TLC sequences short: drop events whose output is too long for a trace (counted)
        evs2 = [e for e in evs if len(e["out"]) <= 420]
        if len(evs2) != len(evs):
            chk.cov["codec_events_skipped_too_long"] = chk.cov.get("codec_events_skipped_too_long", 0) + len(evs) - len(evs2)
        if tid in table_bytes:
            # a table row whose real output is byte-identical to the bytes TLC printed for it and whose re-parse equals
            # the row's value needs no second TLC run: the model check already proved that those bytes denote the value
            # (XML has no bytes in the specification: there the recorded equality is all TLC would check)
            same = [e for e in evs2 if e["st"] == e["pst"] == "ok" and e["r"] == e["v"]
                    and (e["form"] in ("xml", "xmlp") or table_bytes[tid].get(e["form"]) == e["out"])
                    and (e["sniff"] == "none" or (e["sst"] == "ok" and e["rs"] == e["v"]
                                                  and bytes(e["head"]).startswith({"bin": b"<?llsd/binary?>\n", "xml": b"<", "not": b""}[e["sniff"]])))]
            chk.cov["table_rows_identical_output"] = chk.cov.get("table_rows_identical_output", 0) + len(same)
            chk.count(len(same))
            evs2 = [e for e in evs2 if not any(e is x for x in same)]
        if evs2:
            runs.append((tid, tz, evs2, facts_of[tid]))
            f = facts_of[tid]
            if f["naive"] or f["uri"] or f["nl"] or f["vec"] or f["aware"]:
                chk.nontrivial(("codec", tid, tz))
    _validate_codec(chk, runs, "table+trees")
    ex = next((r for r in runs if r[0] >= 100000 and len(r[2]) >= 4), runs[0])
    chk.sample({"binding": "B3 trace (code->spec)", "tz": ex[1],
                "events": [{k: (v if k not in ("out",) else bytes(v).decode("latin-1")[:80]) for k, v in e.items() if k in ("form", "v", "out", "st")} for e in ex[2][:2]]})



# =========================================================================================
# template-directed message generator (shared with c11.py)
# =========================================================================================

TYNAMES = {"MVT_FIXED": "Fixed", "MVT_VARIABLE": "Variable", "MVT_U8": "U8", "MVT_U16": "U16", "MVT_U32": "U32", "MVT_U64": "U64",
           "MVT_S8": "S8", "MVT_S16": "S16", "MVT_S32": "S32", "MVT_S64": "S64", "MVT_F32": "F32", "MVT_F64": "F64",
           "MVT_LLVector3": "LLVector3", "MVT_LLVector3d": "LLVector3d", "MVT_LLVector4": "LLVector4",
           "MVT_LLQuaternion": "LLQuaternion", "MVT_LLUUID": "LLUUID", "MVT_BOOL": "BOOL", "MVT_IP_ADDR": "IPADDR",
           "MVT_IP_PORT": "IPPORT"}
INT_RANGE = {"U8": (0, 2 ** 8 - 1), "U16": (0, 2 ** 16 - 1), "U32": (0, 2 ** 32 - 1), "U64": (0, 2 ** 64 - 1),
             "S8": (-2 ** 7, 2 ** 7 - 1), "S16": (-2 ** 15, 2 ** 15 - 1), "S32": (-2 ** 31, 2 ** 31 - 1), "S64": (-2 ** 63, 2 ** 63 - 1),
             "IPPORT": (0, 2 ** 16 - 1)}
INT_WIDTH = {"U8": 1, "U16": 2, "U32": 4, "U64": 8, "S8": 1, "S16": 2, "S32": 4, "S64": 8, "IPPORT": 2}
VEC_CLASS = {"LLVector3": ("Vector3", 3), "LLVector3d": ("Vector3", 3), "LLVector4": ("Vector4", 4), "LLQuaternion": ("Quaternion", 3)}


def tyname(tvar) -> str:
    return TYNAMES[tvar.type.name]


def templates():
    from hippolyzer.lib.base.message.template_dict import DEFAULT_TEMPLATE_DICT
    return list(DEFAULT_TEMPLATE_DICT.template_list)


def f32(x: float) -> float:
    return struct.unpack("<f", struct.pack("<f", x))[0]


def gen_f32(rng):
    c = rng.random()
    if c < 0.3:
        return rng.choice([0.0, -0.0, 1.0, -1.0, 0.5, 255.0, 3.4028234663852886e+38, 1.401298464324817e-45, f32(0.1), f32(1e-7)])
    if c < 0.7:
        return f32(rng.uniform(-4096, 4096))
    while True:
        x = struct.unpack("<f", rng.getrandbits(32).to_bytes(4, "little"))[0]
        if math.isfinite(x):
            return x


_TEXT_ALPHAS = ["abc XYZ", "a\nb \"q\" 'r' \\", "é☃\U0001f600 z", "x=1 #c [B] \\\n", "<&>", "0123-ab-cd", "\t\n ", "<1.0, 2.0, 3.0>"]


def gen_text(rng, maxlen, alphas=_TEXT_ALPHAS):
    """XML-legal text, no NUL; utf-8 length (plus the terminator) within maxlen."""
    n = min(rng.choice([0, 1, 2, 3, 5, 8, 13, 40]), max(0, maxlen - 1))
    alpha = rng.choice(alphas)
    s = "".join(rng.choice(alpha) for _ in range(n))
    while len(s.encode("utf8")) + 1 > maxlen and s:
        s = s[:-1]
    return s


def gen_value(rng, tvar, text_mode="text"):
    """A value in the range of the template type.
    text_mode 'text': Variable fields that are probably text get XML-legal str, others bytes;
              'bytes': every Variable field gets bytes."""
    from hippolyzer.lib.base.datatypes import UUID, Vector3, Vector4, Quaternion
    ty = tyname(tvar)
    if ty in INT_RANGE:
        lo, hi = INT_RANGE[ty]
        return rng.choice([lo, hi, 0, 1, min(hi, 127), min(hi, 128), rng.randrange(lo, hi + 1), rng.randrange(lo, hi + 1)])
    if ty == "BOOL":
        return rng.choice([True, False, 0, 1])
    if ty == "F32":
        return gen_f32(rng)
    if ty == "F64":
        return gen_float(rng)
    if ty == "LLUUID":
        return UUID(bytes=bytes(rng.randrange(256) for _ in range(16))) if rng.random() < 0.85 else UUID()
    if ty == "IPADDR":
        return ".".join(str(rng.choice([0, 1, 127, 255, rng.randrange(256)])) for _ in range(4))
    if ty == "Fixed":
        return bytes(rng.choice([0, 255, rng.randrange(256)]) for _ in range(tvar.size))
    if ty == "Variable":
        maxlen = 255 if tvar.size == 1 else 65535
        if text_mode == "text" and (tvar.probably_text or (not tvar.probably_binary and rng.random() < 0.5)):
            return gen_text(rng, min(maxlen, 60))
        n = rng.choice([0, 1, 2, 4, 9, 17, 33]) if rng.random() < 0.93 else min(maxlen, rng.choice([254, 255, 300]))
        return bytes(rng.choice([0, 10, 39, 92, 255, rng.randrange(256)]) for _ in range(n))
    if ty in ("LLVector3", "LLVector4"):
        n = VEC_CLASS[ty][1]
        comps = [gen_f32(rng) for _ in range(n)]
        return Vector3(*comps) if n == 3 else Vector4(*comps)
    if ty == "LLVector3d":
        return Vector3(*(gen_float(rng) if rng.random() < 0.5 else float(rng.randrange(-10 ** 6, 10 ** 6)) for _ in range(3)))
    if ty == "LLQuaternion":
        if rng.random() < 0.2:
            return Quaternion(0.0, 0.0, 0.0)
        while True:
            x, y, z = (f32(rng.uniform(-1, 1)) for _ in range(3))
            if x * x + y * y + z * z <= 1.0 or rng.random() < 0.1:
                return Quaternion(x, y, z)       # w is derived, as when decoded from the wire
    raise common.MachineryError("gen_value: " + ty)


def gen_counts(rng, tmpl, var_counts=(0, 1, 1, 2, 3)):
    from hippolyzer.lib.base.message.msgtypes import MsgBlockType
    counts = {}
    for b in tmpl.blocks:
        if b.block_type == MsgBlockType.MBT_SINGLE:
            counts[b.name] = 1
        elif b.block_type == MsgBlockType.MBT_MULTIPLE:
            counts[b.name] = b.number
        else:
            counts[b.name] = rng.choice(var_counts)
    return counts


def build_message(rng, tmpl, counts=None, text_mode="text", override=None):
    """A message conforming to the template; override = (block, var, value) sets instance 0."""
    from hippolyzer.lib.base.message.message import Message, Block
    counts = counts if counts is not None else gen_counts(rng, tmpl)
    msg = Message(tmpl.name)
    for b in tmpl.blocks:
        if counts[b.name] is None:
            continue                     # block omitted altogether (no block list at all)
        msg.create_block_list(b.name)
        for i in range(counts[b.name]):
            vals = {}
            for v in b.variables:
                vals[v.name] = gen_value(rng, v, text_mode)
                if override and i == 0 and override[0] == b.name and override[1] == v.name:
                    vals[v.name] = override[2]
            blk = Block(b.name)
            for k, x in vals.items():
                blk[k] = x
            msg.add_block(blk)
    return msg


# =========================================================================================
# message clause
# =========================================================================================

def py_to_mv(ty, x):
    """Message variable value -> model value [k, p] (projection; anything unexpected gets its own kind)."""
    import socket
    from hippolyzer.lib.base.datatypes import TupleCoord

    def other():
        return {"k": "other:" + type(x).__name__, "p": []}
    if ty == "BOOL" and isinstance(x, bool):
        return {"k": "bool", "p": [1 if x else 0]}
    if ty in INT_RANGE or ty == "BOOL":
        if isinstance(x, bool) or not isinstance(x, int):
            return other()
        w = INT_WIDTH.get(ty, 1)
        lo, hi = INT_RANGE.get(ty, (0, 255))
        if not lo <= x <= hi:
            return {"k": "int", "p": list(x.to_bytes(16, "big", signed=True))}
        return {"k": "int", "p": list(x.to_bytes(w, "big", signed=lo < 0))}
    if ty in ("F32", "F64"):
        return {"k": "real", "p": list(struct.pack("!d", x))} if isinstance(x, float) else other()
    if ty == "LLUUID":
        return {"k": "uuid", "p": list(x.bytes)} if isinstance(x, uuid.UUID) else other()
    if ty == "IPADDR":
        try:
            return {"k": "ip", "p": list(socket.inet_aton(x))} if isinstance(x, str) else other()
        except OSError:
            return other()
    if ty in ("Variable", "Fixed"):
        if isinstance(x, str):
            return {"k": "str", "p": list(x.encode("utf8", "surrogatepass"))}
        return {"k": "bytes", "p": list(x)} if isinstance(x, (bytes, bytearray)) else other()
    if ty in VEC_CLASS:
        cls, n = VEC_CLASS[ty]
        if not isinstance(x, TupleCoord) or type(x).__name__ != cls:
            return other()
        comps = tuple(x)[:n]
        if not all(isinstance(c, float) for c in comps):
            return other()
        return {"k": "vec", "p": [list(struct.pack("!d", c)) for c in comps]}
    return other()


def mv_to_py(ty, mv):
    import socket
    from hippolyzer.lib.base.datatypes import UUID, Vector3, Vector4, Quaternion
    k, p = mv["k"], mv["p"]
    if k == "bool":
        return p == [1]
    if k == "int":
        return int.from_bytes(bytes(p), "big", signed=ty in ("S8", "S16", "S32", "S64"))
    if k == "real":
        return struct.unpack("!d", bytes(p))[0]
    if k == "uuid":
        return UUID(bytes=bytes(p))
    if k == "ip":
        return socket.inet_ntoa(bytes(p))
    if k == "str":
        return bytes(p).decode("utf8")
    if k == "bytes":
        return bytes(p)
    if k == "vec":
        comps = [struct.unpack("!d", bytes(c))[0] for c in p]
        return {"LLVector3": Vector3, "LLVector3d": Vector3, "LLVector4": Vector4, "LLQuaternion": Quaternion}[ty](*comps)
    raise common.MachineryError("mv_to_py: " + k)


def _block_counts(blocks):
    return sorted([name, len(lst)] for name, lst in blocks.items())


def _observe_form(ser, msg, form):
    """serialize -> LLSD form (as a Python tree, for observation) -> deserialize."""
    from hippolyzer.lib.base import llsd
    if form == "dict":
        st, out = impl_call(ser.serialize, msg, True)
        tree = out
    else:
        st, out = impl_call(ser.serialize, msg)
        tree = None
        if st == "ok":
            tree = llsd.parse_xml(out)       # third-party parser: observation of what is on the wire
    if st != "ok":
        return st, out, None, "ok", None
    dst, back = impl_call(ser.deserialize, out)
    return st, out, tree, dst, back


def _fingerprint(tree, evs):
    import hashlib
    back = [[e["blk"], e["idx"], [[r[0], r[4]] for r in e["vars"]]] for e in evs[1:]]
    return hashlib.sha1(common.skey([proj(tree), evs[0]["bb"], back]).encode()).hexdigest()


def message_events(ser, tmpl, msg, form, prof="gen", hist=(), fresh=None):
    """One message through serializer instance `ser`.  With `fresh` (a factory of new instances) the same message
    is also sent through a fresh instance and both results are fingerprinted (history independence)."""
    evs = _message_events(ser, tmpl, msg, form)
    evs[0].update({"prof": prof, "hist": [list(h) for h in hist], "fp": "", "fp0": ""})
    if fresh is not None:
        evs0 = _message_events(fresh(), tmpl, msg, form)
        evs[0]["fp"] = evs[0].pop("_fp")
        evs[0]["fp0"] = evs0[0].pop("_fp")
    evs[0].pop("_fp", None)
    return evs


def _message_events(ser, tmpl, msg, form):
    ev = {"ev": "Msg", "name": tmpl.name, "form": form, "st": "ok", "dst": "ok", "lname": "", "top": [], "ob": _block_counts(msg.blocks),
          "lb": [], "bb": [], "_fp": "-"}
    st, out, tree, dst, back = _observe_form(ser, msg, form)
    ev["st"], ev["dst"] = st, dst
    if st != "ok":
        ev["exc"] = out
        ev["_fp"] = "raise " + str(out)
        return [ev]
    if dst != "ok":
        ev["exc"] = back
    ok_shape = isinstance(tree, dict) and isinstance(tree.get("body"), dict) and all(isinstance(x, list) for x in tree["body"].values())
    if not ok_shape:
        ev["top"] = ["?"]
        return [ev]
    ev["lname"] = tree.get("message") if isinstance(tree.get("message"), str) else "?"
    ev["top"] = sorted(str(k) for k in tree.keys())
    ev["lb"] = _block_counts(tree["body"])
    evs = [ev]
    if dst == "ok":
        ev["bb"] = _block_counts(back.blocks)
    for b in tmpl.blocks:
        for i, blk in enumerate(msg.blocks.get(b.name, ())):
            lblk = tree["body"].get(b.name, [])
            lvars = lblk[i] if i < len(lblk) and isinstance(lblk[i], dict) else {}
            bblk = back.blocks.get(b.name, []) if dst == "ok" else []
            bvars = bblk[i].vars if i < len(bblk) else {}
            rows = []
            for v in b.variables:
                ty = tyname(v)
                rows.append([v.name, ty, py_to_mv(ty, blk.vars[v.name]),
                             proj(lvars[v.name]) if v.name in lvars else V("missing", []),
                             py_to_mv(ty, bvars[v.name]) if v.name in bvars else {"k": "missing", "p": []}])
            extra = sorted(set(lvars) - {v.name for v in b.variables}) + sorted(set(bvars) - {v.name for v in b.variables})
            for name in extra:
                rows.append([name, "?", {"k": "extra", "p": []}, V("extra", []), {"k": "extra", "p": []}])
            evs.append({"ev": "Blk", "blk": b.name, "idx": i, "vars": rows})
    ev["_fp"] = _fingerprint(tree, evs)
    return evs


MSG_CFG = "SPECIFICATION TraceSpec\nCONSTANTS Dom <- TDom\n HistTypes <- NoTypes\n Memo = \"none\" MaxHist = 0\nPOSTCONDITION TraceAccepted\nCHECK_DEADLOCK FALSE\n"


def classify_msg(evs, tmpl):
    head = evs[0]
    tys = {tyname(v) for b in tmpl.blocks for v in b.variables}
    if head["st"] != "ok":
        if "LLQuaternion" in tys and "'tuple' object has no attribute 'data'" in str(head.get("exc")):
            return "quaternion-pack-raises"
        return "serialize-raises"
    if head["dst"] != "ok":
        return "deserialize-raises"
    return "other"


_MSG_JOBS = None


def _run_msg_job(job_no):
    from hippolyzer.lib.base.message.llsd_msg_serializer import LLSDMessageSerializer
    import random
    ser = LLSDMessageSerializer()
    out = []
    for tid, ti, seed, wire in _MSG_JOBS[job_no]:
        tmpl = templates()[ti]
        rng = random.Random(seed)
        msg = build_message(rng, tmpl)
        if wire:
            # the same message as the library's own UDP decoder hands it out (ambiguous Variable fields
            # come back as JankStringyBytes, text fields as str)
            from hippolyzer.lib.base.message.udpserializer import UDPMessageSerializer
            from hippolyzer.lib.base.message.udpdeserializer import UDPMessageDeserializer
            from hippolyzer.lib.base.settings import Settings
            settings = Settings()
            settings.ENABLE_DEFERRED_PACKET_PARSING = False
            for bl in msg.blocks.values():
                for b in bl:
                    for k, v in list(b.vars.items()):
                        if isinstance(v, bool):
                            b.vars[k] = int(v)
            msg = UDPMessageDeserializer(settings=settings).deserialize(UDPMessageSerializer().serialize(msg))
        for form in ("dict", "xml"):
            out.append((tid, ti, form, message_events(ser, tmpl, msg, form)))
    return out


def _messages(chk: Check, per_template: int):
    global _MSG_JOBS
    tmpls = templates()
    items = []
    for ti in range(len(tmpls)):
        for k in range(per_template):
            items.append((len(items), ti, chk.rng.getrandbits(48), k % 3 == 2))
    _MSG_JOBS = common.chunked(items, common.NCPU * 2)
    res = [x for part in common.parallel_map(_run_msg_job, list(range(len(_MSG_JOBS)))) for x in part]
    wire_ids = {it[0] for it in items if it[3]}
    traces = [evs for _, _, _, evs in res]
    acc, rej, results = common.validate_traces("LLSDMessage_Trace", MSG_CFG, traces, chk.scratch, shards=8, tag="lmsg")
    fails = {}
    for r in results:
        chk.add_tlc(r, "LLSDMessage_Trace")
        for rec in r.printed():
            if isinstance(rec, dict) and "fail" in rec:
                fails.setdefault(rec["tid"], set()).add(rec["fail"])
    chk.cov["traces_validated_against_impl"] += len(traces)
    chk.count(sum(len(t) for t in traces))
    seen_ty = set()
    for n, (tid, ti, form, evs) in enumerate(res):
        for e in evs[1:]:
            for row in e["vars"]:
                seen_ty.add(row[1])
                if row[1] in ("U32", "U64", "S64", "IPADDR") or row[1] in VEC_CLASS:
                    chk.nontrivial(("msg", tmpls[ti].name, form))
    chk.cov["template_types_exercised"] = sorted(seen_ty)
    chk.cov["templates_exercised"] = len({ti for _, ti, _, _ in res})
    for ti_, j, ev in rej:
        chk.violation("message trace rejected by LLSDMessage_Trace", {"kind": "llsd-msg", "class": "trace-rejected"},
                      {"message": res[ti_][3][0]["name"], "event": common._clip(ev)})
    for n, clauses in sorted(fails.items()):
        tid, ti, form, evs = res[n]
        cls = classify_msg(evs, tmpls[ti])
        if tid in wire_ids and "JankStringyBytes" in str(evs[0].get("exc")) and evs[0]["st"] != "ok":
            # The property quantifies over template-generated messages; values as the UDP decoder
            # hands them out (JankStringyBytes) are outside its domain for the XML form: tallied only.
            chk.cov["wire_style_messages_not_xml_serializable"] = chk.cov.get("wire_style_messages_not_xml_serializable", 0) + 1
            continue
        bad_rows = []
        if cls == "other":
            for e in evs[1:]:
                for row in e["vars"]:
                    if row[2] != row[4] or row[3].get("t") in ("missing", "extra"):
                        bad_rows.append([e["blk"], e["idx"]] + row)
        chk.violation("LLSD message form (%s): %s" % (form, cls),
                      {"kind": "llsd-msg", "class": cls, "form": form},
                      {"message": tmpls[ti].name, "failed_clauses": sorted(clauses), "exc": evs[0].get("exc"),
                       "diverging_vars": common._clip(bad_rows[:4]), "head": {k: v for k, v in evs[0].items() if k != "ev"}})
    ex = next((evs for _, _, _, evs in res if len(evs) > 1), res[0][3])
    chk.sample({"binding": "B2 message trace", "events": [ex[0], {"blk": ex[-1].get("blk"), "vars": ex[-1].get("vars", [])[:3]}]})


def _find_var(tmpls, ty):
    """A real template variable of this type; preferably in a block that may legitimately be empty or
    omitted (a Variable block that is not the first one), so that message profiles mean something."""
    from hippolyzer.lib.base.message.msgtypes import MsgBlockType
    best = None
    for t in tmpls:
        for bi, b in enumerate(t.blocks):
            for v in b.variables:
                if tyname(v) == ty and not (ty == "Fixed" and v.size != 4):
                    rank = (2 if bi > 0 and b.block_type == MsgBlockType.MBT_VARIABLE else 1 if bi > 0 else 0)
                    if best is None or rank > best[0]:
                        best = (rank, t, b, v)
                    if rank == 2:
                        return t, b, v
    return best[1:] if best else None


def _profile_counts(rng, t, b, prof):
    """Block multiplicities of a message whose watched block b has profile full | empty | cut."""
    from hippolyzer.lib.base.message.msgtypes import MsgBlockType
    base = gen_counts(rng, t, var_counts=(1, 2))
    counts, cut = {}, False
    for bb in t.blocks:
        if bb.name == b.name:
            if prof == "cut" or (prof == "empty" and bb.block_type != MsgBlockType.MBT_VARIABLE):
                cut = True
            elif prof == "empty":
                counts[bb.name] = 0
                continue
        counts[bb.name] = None if cut else base[bb.name]
    return counts


_B1 = None
M_ABSENT = {"k": "absent", "p": []}


def _replay_b1_chunk(edge_ids):
    """Every edge of the carrier/instance machine: its BFS path is replayed on ONE fresh serializer instance."""
    import random
    from hippolyzer.lib.base import llsd
    from hippolyzer.lib.base.message.llsd_msg_serializer import LLSDMessageSerializer
    from hippolyzer.lib.base.message.data_packer import LLSDDataPacker
    from hippolyzer.lib.base.message.msgtypes import MsgType
    g, targets = _B1
    bads = []
    for ei in edge_ids:
        e = g.edges[ei]
        path = g.path_to(e["_s"]) + [e]
        src, dst, act = e["src"], e["dst"], e["act"]["n"]
        ty = src["ty"]
        tgt = targets[ty]
        val = mv_to_py(ty, src["orig"])
        hist = [p["act"]["n"] + (":" + p["act"]["p"] if "p" in p["act"] else "") for p in path]
        profs = ">".join(list(dst["hist"]) + [dst["prof"]])

        def bad(what, exp, got):
            cls = "quaternion-pack-raises" if ty == "LLQuaternion" and "has no attribute 'data'" in repr(got) else "other"
            bads.append(("B1 LLSDMessage: %s differs from specification" % what,
                         {"kind": "llsd-msg-b1", "op": act, "ty": ty, "class": cls, "profiles": profs},
                         {"history": hist, "ty": ty, "orig": src["orig"], "expected": exp, "impl": repr(got)[:300]}))
        if tgt is None:
            # no template variable of this type (S64): the packer table itself (no instance, no history)
            mt = MsgType["MVT_" + ty]
            if act == "Serialize" and dst["prof"] == "full":
                got = impl_call(lambda: proj(LLSDDataPacker.pack(val, mt)))
                if got != ("ok", dst["carried"]):
                    bad("LLSDDataPacker.pack", dst["carried"], got)
            elif act == "Deserialize" and dst["prof"] == "full":
                got = impl_call(lambda: py_to_mv(ty, LLSDDataPacker.unpack(unproj(src["carried"]), mt)))
                if got != ("ok", dst["result"]):
                    bad("LLSDDataPacker.unpack", dst["result"], got)
            continue
        t, b, v = tgt
        rng = random.Random(ei)
        ser = LLSDMessageSerializer()         # ONE instance for the whole history

        def build(prof):
            return build_message(rng, t, _profile_counts(rng, t, b, prof), override=(b.name, v.name, val))
        msg = build(path[0]["src"]["prof"])
        form = tree = back = None
        failed = None
        for k, pe in enumerate(path):
            a = pe["act"]["n"]
            if a == "NextMessage":
                msg = build(pe["act"]["p"])
                form = tree = back = None
                continue
            if a == "Serialize":
                st, form = impl_call(ser.serialize, msg, True)
                tree = form
            elif a == "XmlHop":
                st, form = impl_call(ser.serialize, msg)
                tree = llsd.parse_xml(form) if st == "ok" else None
            else:
                st, back = impl_call(ser.deserialize, form)
            if st != "ok":
                failed = (a, form if a != "Deserialize" else back)
                break
        if failed:
            bad(failed[0] + " raised", dst["carried"] if act != "Deserialize" else dst["result"], failed)
            continue
        if act == "NextMessage":
            continue            # nothing observable: the next message has only been handed over
        if act in ("Serialize", "XmlHop"):
            def carried():
                insts = tree["body"].get(b.name, [])
                return proj(insts[0][v.name]) if insts else V("absent", [])
            got = impl_call(carried)
            if got != ("ok", dst["carried"]):
                bad("carrier after " + act, dst["carried"], got)
        else:
            def result():
                insts = back.blocks.get(b.name, [])
                return py_to_mv(ty, insts[0].vars[v.name]) if insts else M_ABSENT
            got = impl_call(result)
            if got != ("ok", dst["result"]):
                bad("value after Deserialize", dst["result"], got)
    return len(edge_ids), bads


def _carrier_machine(chk: Check, max_hist: int):
    """LLSDMessage_MBT: carrier + instance-history machine, exhaustively; every edge replayed (with its history,
    on one real serializer instance) through the real LLSDMessageSerializer."""
    global _B1
    invs = ["DomainOK", "CarrierIsLLSD", "RoundTrip", "NumberKept", "WideIsBinary", "HistoryIndependent"]

    def cfg(memo, with_invs=True):
        return ("SPECIFICATION MSpec\nCONSTANTS Dom <- MCDom\n HistTypes <- MCHistTypes\n Memo = \"%s\" MaxHist = %d\n" % (memo, max_hist)
                + ("".join("INVARIANT %s\n" % i for i in invs) if with_invs else ""))
    if chk.tier != "quick":
        common.model_check(chk, "LLSDMessage_MBT", cfg("template"), "LLSDMessage instance machine, per-type memo from the template")
    # the law bites: an instance that remembers what the FIRST body of a type contained is refuted by TLC
    cfgp = os.path.join(chk.scratch, "lm-firstbody.cfg")
    with open(cfgp, "w") as f:
        f.write(cfg("firstbody"))
    res = common.run_tlc(os.path.join(common.SPECS, "LLSDMessage_MBT.tla"), cfgp, workers=1, scratch=chk.scratch)
    chk.add_tlc(res, "LLSDMessage instance machine, memo from first body (must be refuted)")
    if not ({"HistoryIndependent", "CarrierIsLLSD"} & set(res.violated)):
        raise common.MachineryError("HistoryIndependent does not refute a first-body memo: %r" % res.violated)
    # one run: the invariants on the memory-less instance machine AND the export of its edges (one worker)
    with open(cfgp, "w") as f:
        f.write(cfg("none"))
    res = common.run_tlc(os.path.join(common.SPECS, "LLSDMessage_MBT.tla"), cfgp, workers=1, scratch=chk.scratch, heap="8g")
    chk.require_model_ok(res, "LLSDMessage instance machine, no memory (+ export)")
    if not res.ok:
        return
    g = common.Graph(res.printed())
    tmpls = templates()
    targets = {ty: _find_var(tmpls, ty) for ty in sorted(set(TYNAMES.values()))}
    _B1 = (g, targets)
    ids = g.reachable_edges()
    results = common.parallel_map(_replay_b1_chunk, common.chunked(ids, common.NCPU * 2))
    n_edges = sum(r[0] for r in results)
    chk.count(n_edges)
    for _, bads in results:
        for what, feats, detail in bads:
            chk.violation(what, feats, detail)
    with_hist = 0
    for ei in ids:
        e = g.edges[ei]
        if e["dst"]["hist"] and e["act"]["n"] != "NextMessage":
            with_hist += 1
            chk.nontrivial(("b1", ei))
    chk.cov["traces_validated_against_impl"] += n_edges
    chk.cov["b1_edges_replayed"] = n_edges
    chk.cov["b1_edges_with_instance_history"] = with_hist
    e = next(x for x in g.edges if len(x["dst"]["hist"]) >= 1 and x["act"]["n"] == "Serialize" and x["dst"]["prof"] == "full")
    chk.sample({"binding": "B1 edge (spec->code), replayed after its history on one instance", "act": e["act"],
                "history": e["dst"]["hist"], "profile": e["dst"]["prof"], "ty": e["dst"]["ty"], "expected_carrier": e["dst"]["carried"]})


# ---- B2 histories: per template, one long-lived instance fed messages of different block multiplicities
PROFILES = ["head", "full2", "empty", "cut1", "other", "full1"]


def _template_profile_message(rng, tmpls, ti, prof):
    from hippolyzer.lib.base.message.msgtypes import MsgBlockType
    if prof == "other":
        ti = (ti + 1) % len(tmpls)
        prof = "full1"
    t = tmpls[ti]
    counts = {}
    for bi, b in enumerate(t.blocks):
        var = b.block_type == MsgBlockType.MBT_VARIABLE
        n = b.number if b.block_type == MsgBlockType.MBT_MULTIPLE else 1
        if prof == "head" and bi > 0:
            n = None
        elif prof == "cut1" and bi == len(t.blocks) - 1 and bi > 0:
            n = None
        elif var:
            n = {"full2": 2, "empty": 0}.get(prof, 1)
        counts[b.name] = n
    return t, build_message(rng, t, counts)


def _euler_walk(k):
    """A closed walk over the complete digraph on k nodes (loops included): every ordered pair is an edge once."""
    adj = {i: [j for j in range(k)] for i in range(k)}
    stack, walk = [0], []
    while stack:
        v = stack[-1]
        if adj[v]:
            stack.append(adj[v].pop())
        else:
            walk.append(stack.pop())
    return walk[::-1]


_HIST_JOBS = None


def _run_hist_job(job_no):
    import random
    from hippolyzer.lib.base.message.llsd_msg_serializer import LLSDMessageSerializer
    tmpls = templates()
    out = []
    for tid, ti, seed, seq in _HIST_JOBS[job_no]:
        rng = random.Random(seed)
        ser = LLSDMessageSerializer()           # the long-lived instance of this trace
        hist, evs = [], []
        for k, (prof, judged, form) in enumerate(seq):
            t, msg = _template_profile_message(rng, tmpls, ti, prof)
            if judged:
                evs += message_events(ser, t, msg, form, prof=prof, hist=hist, fresh=LLSDMessageSerializer)
            else:
                st, out_ = impl_call(ser.serialize, msg, form == "dict")
                if st == "ok":
                    impl_call(ser.deserialize, out_)
                evs.append({"ev": "Handled", "name": t.name, "prof": prof})
            hist.append([t.name, prof])
        out.append((tid, ti, [s_[0] for s_ in seq], evs))
    return out


def _histories(chk: Check, thorough: bool):
    global _HIST_JOBS
    tmpls = templates()
    profs = PROFILES if thorough else PROFILES[:5]
    walk = _euler_walk(len(profs))                 # k*k + 1 nodes, all ordered pairs
    items = []
    for ti in range(len(tmpls)):
        seed = chk.rng.getrandbits(48)
        if thorough:
            # the whole walk on one instance, every message judged ...
            seq = [(profs[n], True, "dict" if i % 2 else "xml") for i, n in enumerate(walk)]
            items.append((len(items), ti, seed, seq))
            # ... and every ordered pair on a fresh instance (first message only handled, second judged)
            for a in profs:
                for b in profs:
                    items.append((len(items), ti, seed + 1, [(a, False, "dict"), (b, True, "dict"), (b, True, "xml")]))
        else:
            # a window of the walk, shifted per template: across the templates every ordered pair of profiles occurs
            off = (ti * 5) % (len(walk) - 1)
            win = [walk[(off + i) % (len(walk) - 1)] for i in range(6)]
            seq = [(profs[n], True, "dict" if (i + ti) % 2 else "xml") for i, n in enumerate(win)]
            items.append((len(items), ti, seed, seq))
    _HIST_JOBS = common.chunked(items, common.NCPU * 2)
    res = [x for part in common.parallel_map(_run_hist_job, list(range(len(_HIST_JOBS)))) for x in part]
    traces = [evs for _, _, _, evs in res]
    acc, rej, results = common.validate_traces("LLSDMessage_Trace", MSG_CFG, traces, chk.scratch, shards=10, tag="lhist")
    fails = {}
    for r in results:
        chk.add_tlc(r, "LLSDMessage_Trace histories")
        for rec in r.printed():
            if isinstance(rec, dict) and "fail" in rec:
                fails.setdefault(rec["tid"], set()).add(rec["fail"])
    chk.cov["traces_validated_against_impl"] += len(traces)
    chk.count(sum(len(t) for t in traces))
    pairs = set()
    for tid, ti, seq, evs in res:
        pairs |= set(zip(seq, seq[1:]))
        chk.nontrivial(("hist", tid))
    chk.cov["history_profile_pairs_exercised"] = len(pairs)
    chk.cov["history_traces"] = len(traces)
    for ti_, j, ev in rej:
        chk.violation("history trace rejected by LLSDMessage_Trace", {"kind": "llsd-msg-history", "class": "trace-rejected"},
                      {"message": tmpls[res[ti_][1]].name, "event": common._clip(ev)})
    for n, clauses in sorted(fails.items()):
        tid, ti, seq, evs = res[n]
        heads = [e for e in evs if e["ev"] == "Msg"]
        # first judged message of the trace that diverges (classification only: fingerprint / raise)
        first = next((e for e in heads if e["fp"] != e["fp0"] or e["st"] != "ok" or e["dst"] != "ok"), heads[0])
        cls = classify_msg([first], tmpls[ti])
        if cls == "other" and first["fp"] != first["fp0"]:
            cls = "history-dependent"
        chk.violation("LLSD message form on a long-lived serializer instance: %s" % cls,
                      {"kind": "llsd-msg-history", "class": cls, "after": ">".join(h[1] for h in first["hist"][-2:]), "profile": first["prof"]},
                      {"message": first["name"], "form": first["form"], "failed_clauses": sorted(clauses), "instance_history": first["hist"],
                       "exc": first.get("exc")})
    ex = next((r for r in res if len(r[3]) > 4), res[0])
    chk.sample({"binding": "B2 history trace (one instance)", "profiles": ex[2], "first_events": [
        {k: v for k, v in e.items() if k in ("ev", "name", "prof", "form", "hist", "fp", "fp0")} for e in ex[3] if e["ev"] != "Blk"][:4]})


def run(chk: Check):
    chk.cov["rule"] = ("messages: carrier + serializer-instance state machine (every template type x boundary values x {dict, XML} x "
                       "message profile full/empty/cut x instance histories of up to 2 (quick) / 3 earlier messages) exhaustively, every "
                       "edge replayed with its history on ONE real LLSDMessageSerializer instance; per template one long-lived instance fed "
                       "messages of changing block multiplicities (all ordered pairs of profiles), each judged by TLC (Carrier, round trip, "
                       "equality with a fresh instance); every template x generated values x {dict, XML} validated by TLC; "
                       "non-trivial = messages with a U32/U64/IP/vector/quaternion variable. "
                       "codec: every LLSD value up to depth 2 over the model's leaf sets (laws by TLC, rows replayed into the real "
                       "parsers; real formatter output parsed again by TLC) + generated trees to depth 3 (quick) / 4 in 3 time zones; "
                       "non-trivial = containers / trees holding a date, URI, newline string or vector.")
    chk.assumptions += [
        "floats are NaN-free; ints are within S32 (LLSD integer range)",
        "map keys and URIs contain no control characters (the newline clause speaks of string values)",
        "XML form only for XML-legal text without CR (XML line-end normalisation)",
        "llsd.parse() (content sniffing) is given every self-announcing document the real formatters emit: binary with header, "
        "notation, XML, pretty XML (pretty XML only for trees whose map keys need no XML escaping)",
        "message profiles: a Variable block may have zero instances; a suffix of the template's blocks may be omitted altogether "
        "(trailing blocks are routinely omitted; an addon-built message may lack them); 'other' = a message of the next template",
        "messages: built from the template with plain Python values; every third one is additionally passed through the library's own UDP encoder/decoder first (values as the proxy holds them)",
        "naive datetimes denote UTC instants (LLSD convention; what the notation/XML codecs assume); aware datetimes only through the binary forms; dates 1901..2100 (before and after the epoch)",
        "opaque leaves (IEEE doubles of reals, real texts) are decoded by Python's struct/float, never by Hippolyzer; binary dates are "
        "decoded by TLC itself (exact integer-microsecond arithmetic on the double's bits)",
    ]
    pend = Pending(chk)
    direct = chk.violation
    chk.violation = pend.violation          # (model-level violations registered by common.* are buffered too)
    try:
        _run(chk)
    finally:
        chk.violation = direct
        pend.flush()


def _run(chk: Check):
    if chk.tier == "quick":
        _carrier_machine(chk, 2)
        _histories(chk, False)
        _messages(chk, 3)
        _long(chk, False)
        _codec(chk, False, 400, 3)
    else:
        _carrier_machine(chk, 3)
        _histories(chk, True)
        _messages(chk, 18)
        _long(chk, True)
        _codec(chk, True, 10000, 4)
    chk.cov["exhaustive"] = True
