"""C01 — LLUDP codec: every template-conformant message round-trips by value (LLUDPFrame.tla).

Binding
  * model: LLUDPFrame_MC checks the laws of the format (round trip, prescribed length, framing of the
    ack trailer, default filling, canonical zero-coding, reassembly) on every message of the
    miniature template universe (LLUDPMini.tla), exhaustively within the bounds.
  * B3 spec->code: every TLC state is a table row (message, datagram).  The miniature universe is
    rendered as message_template.msg text and loaded into the REAL template parser, serializer and
    deserializer; every row is serialized and compared byte for byte with TLC's datagram.
  * B3 code->spec: the round trip of every row and of generated messages of all ~480 REAL templates
    (shapes read independently from message_template.msg, cross-checked with the implementation's
    parse of it) is recorded and validated by LLUDPFrame_Trace: TLC recomputes the datagram from
    shape + typed values, re-parses it, and compares with what the implementation produced/decoded.

Also the helper library of c02.py (template reflection, typed values, message construction).
"""
from __future__ import annotations

import io
import os
import re
import socket
import struct
import uuid as _uuid

from . import common
from .common import Check, impl_call, MachineryError

# ------------------------------------------------------------------------------------------
# implementation handles
# ------------------------------------------------------------------------------------------

class Impl:
    def __init__(self):
        from hippolyzer.lib.base.message.udpserializer import UDPMessageSerializer
        from hippolyzer.lib.base.message.udpdeserializer import UDPMessageDeserializer
        from hippolyzer.lib.base.message.message import Message, Block
        from hippolyzer.lib.base.message.template_dict import TemplateDictionary, DEFAULT_TEMPLATE_DICT
        from hippolyzer.lib.base.message.msgtypes import MsgType, MsgBlockType, MsgFrequency
        from hippolyzer.lib.base.settings import Settings
        from hippolyzer.lib.base import datatypes
        self.Serializer, self.Deserializer = UDPMessageSerializer, UDPMessageDeserializer
        self.Message, self.Block = Message, Block
        self.TemplateDictionary, self.DEFAULT = TemplateDictionary, DEFAULT_TEMPLATE_DICT
        self.MsgType, self.MsgBlockType, self.MsgFrequency = MsgType, MsgBlockType, MsgFrequency
        self.Settings = Settings
        self.dt = datatypes

    def codec(self, template_text=None, deferred=False):
        """(serializer, deserializer, template dictionary) over the default or a given template text."""
        ser = self.Serializer()
        st = self.Settings()
        st.ENABLE_DEFERRED_PACKET_PARSING = deferred
        des = self.Deserializer(settings=st)
        td = self.DEFAULT
        if template_text is not None:
            td = self.TemplateDictionary(message_template=io.StringIO(template_text))
            ser.template_dict = td
            des.template_dict = td
        return ser, des, td


_IMPL = None


def impl() -> Impl:
    global _IMPL
    if _IMPL is None:
        try:
            _IMPL = Impl()
        except Exception as e:  # noqa
            raise MachineryError("cannot import the implementation: %r" % (e,))
    return _IMPL


# ------------------------------------------------------------------------------------------
# template shapes
# ------------------------------------------------------------------------------------------
INT_TYPES = {"U8": (1, False), "S8": (1, True), "BOOL": (1, False), "U16": (2, False), "S16": (2, True),
             "IPPORT": (2, False), "U32": (4, False), "S32": (4, True), "U64": (8, False), "S64": (8, True)}
FLOAT_FMT = {"F32": "<f", "F64": "<d", "LLVector3": "<3f", "LLVector3d": "<3d", "LLVector4": "<4f", "LLQuaternion": "<3f"}
TYPE_NAMES = set(INT_TYPES) | set(FLOAT_FMT) | {"LLUUID", "IPADDR", "Fixed", "Variable"}


def read_template_file(text: str) -> list:
    """Independent reading of message_template.msg (brace structure; // comments) into shapes."""
    text = re.sub(r"//[^\n]*", "", text)
    toks = re.findall(r"[{}]|[^\s{}]+", text)
    pos = 0
    out = []

    def group():
        nonlocal pos
        assert toks[pos] == "{"
        pos += 1
        words, subs = [], []
        while toks[pos] != "}":
            if toks[pos] == "{":
                subs.append(group())
            else:
                words.append(toks[pos])
                pos += 1
        pos += 1
        return words, subs
    while pos < len(toks):
        if toks[pos] != "{":
            pos += 1          # "version 2.0"
            continue
        words, blocks = group()
        name, freq, num = words[0], words[1], int(words[2], 0)
        if freq == "Fixed":
            num &= 0xFF
        shape = {"name": name, "freq": freq, "num": num, "blocks": []}
        for bw, vs in blocks:
            b = {"name": bw[0], "kind": bw[1], "n": int(bw[2]) if bw[1] == "Multiple" else 0, "vars": []}
            for vw, _ in vs:
                b["vars"].append({"name": vw[0], "t": vw[1], "size": int(vw[2]) if vw[1] in ("Fixed", "Variable") else 0})
            shape["blocks"].append(b)
        out.append(shape)
    return out


def reflect_template(I: Impl, t) -> dict:
    """The implementation's parse of the same template, in the same shape format."""
    freq = {I.MsgFrequency.HIGH: "High", I.MsgFrequency.MEDIUM: "Medium", I.MsgFrequency.LOW: "Low",
            I.MsgFrequency.FIXED: "Fixed"}.get(t.frequency, str(t.frequency))
    kinds = {I.MsgBlockType.MBT_SINGLE: "Single", I.MsgBlockType.MBT_MULTIPLE: "Multiple", I.MsgBlockType.MBT_VARIABLE: "Variable"}
    tn = {"MVT_FIXED": "Fixed", "MVT_VARIABLE": "Variable", "MVT_IP_ADDR": "IPADDR", "MVT_IP_PORT": "IPPORT"}
    shape = {"name": t.name, "freq": freq, "num": t.num, "blocks": []}
    for b in t.blocks:
        sb = {"name": b.name, "kind": kinds.get(b.block_type, str(b.block_type)),
              "n": b.number if b.block_type == I.MsgBlockType.MBT_MULTIPLE else 0, "vars": []}
        for v in b.variables:
            ty = tn.get(v.type.name, v.type.name[4:])
            sb["vars"].append({"name": v.name, "t": ty, "size": v.size if ty in ("Fixed", "Variable") else 0})
        shape["blocks"].append(sb)
    return shape


def render_template_text(universe: list) -> str:
    """message_template.msg text of the miniature universe printed by TLC."""
    out = ["// miniature universe of LLUDPMini.tla", "version 2.0", ""]
    for t in universe:
        num = t["num"]
        out.append("{")
        out.append("\t%s %s %s NotTrusted Unencoded" % (t["name"], t["freq"], ("0xFFFFFF%02X" % num) if t["freq"] == "Fixed" else str(num)))
        for b in t["blocks"]:
            out.append("\t{")
            out.append("\t\t%s\t%s%s" % (b["name"], b["kind"], ("\t%d" % b["n"]) if b["kind"] == "Multiple" else ""))
            for v in b["vars"]:
                out.append("\t\t{\t%s\t%s%s\t}" % (v["name"], v["t"], ("\t%d" % v["size"]) if v["t"] in ("Fixed", "Variable") else ""))
            out.append("\t}")
        out.append("}")
    return "\n".join(out) + "\n"


def strip_names(shape: dict) -> dict:
    """What travels to TLC: the shape without names."""
    return {"freq": shape["freq"], "num": shape["num"],
            "blocks": [{"kind": b["kind"], "n": b["n"], "vars": [{"t": v["t"], "size": v["size"]} for v in b["vars"]]}
                       for b in shape["blocks"]]}


# ------------------------------------------------------------------------------------------
# typed values (the value language of LLUDPFrame.tla).  These are representation changes
# with Python's own struct / uuid / socket; nothing of Hippolyzer is used.
# ------------------------------------------------------------------------------------------

def limbs(n: int, count: int) -> list:
    return [(n >> (16 * i)) & 0xFFFF for i in range(count)]


def unlimbs(mag: list) -> int:
    return sum(x << (16 * i) for i, x in enumerate(mag))


def hl(n: int) -> list:
    """32-bit packet id as <<hi16, lo16>>."""
    return [(n >> 16) & 0xFFFF, n & 0xFFFF]


def unhl(p: list) -> int:
    return (p[0] << 16) | p[1]


def t_int(ty: str, v: int) -> dict:
    w = INT_TYPES[ty][0]
    return {"k": "int", "neg": 1 if v < 0 else 0, "mag": limbs(abs(v), max(1, w // 2))}


def t_raw(b: bytes) -> dict:
    return {"k": "raw", "b": list(b)}


BAD = {"k": "raw", "b": [256]}   # a value that is not of the variable's type at all (never equals a payload)


def to_typed(var: dict, val) -> dict:
    """Project a value of the Python API onto the value language, by the template type of its variable."""
    ty = var["t"]
    try:
        if ty in INT_TYPES:
            if isinstance(val, bool):
                val = int(val)
            if not isinstance(val, int):
                return BAD
            w = INT_TYPES[ty][0]
            if abs(val) >> (8 * w):
                return BAD
            return t_int(ty, val)
        if ty in FLOAT_FMT:
            fmt = FLOAT_FMT[ty]
            if ty in ("F32", "F64"):
                return t_raw(struct.pack(fmt, val))
            comps = tuple(val)
            n = int(fmt[1])
            if ty == "LLQuaternion":
                if len(comps) not in (3, 4):
                    return BAD
                comps = comps[:3]
            if len(comps) != n:
                return BAD
            return t_raw(struct.pack(fmt, *comps))
        if ty == "LLUUID":
            return t_raw(val.bytes if isinstance(val, _uuid.UUID) else _uuid.UUID(str(val)).bytes)
        if ty == "IPADDR":
            return t_raw(socket.inet_aton(val))
        if ty in ("Fixed", "Variable"):
            if isinstance(val, str):
                return {"k": "str", "b": list(val.encode("utf8"))}
            if isinstance(val, (bytes, bytearray, memoryview)):
                return t_raw(bytes(val))
            return BAD
    except Exception:  # noqa
        return BAD
    raise MachineryError("unknown template type %r" % ty)


def from_typed(var: dict, tv: dict):
    """A Python API value for a typed value printed by TLC (miniature universe: ints, bytes, text)."""
    if tv["k"] == "int":
        v = unlimbs(tv["mag"])
        return -v if tv["neg"] else v
    if tv["k"] == "raw":
        return bytes(tv["b"])
    if tv["k"] == "str":
        return bytes(tv["b"]).decode("utf8")
    raise MachineryError("cannot build a value from %r" % (tv,))


def build_message(I: Impl, shape: dict, hdr: dict, blocks_py: list, fill=False):
    """Message object from per-block lists of {var name: value} (unset variables absent)."""
    msg = I.Message(shape["name"], packet_id=hdr["pid"], flags=hdr["flags"], acks=tuple(hdr["acks"]))
    for sb, insts in zip(shape["blocks"], blocks_py):
        msg.create_block_list(sb["name"])
        for inst in insts:
            msg.add_block(I.Block(sb["name"], fill_missing=fill, **inst))
    if hdr["extra"]:
        msg.extra = bytes(hdr["extra"])
    return msg


def project_header(msg) -> dict:
    pid = msg.packet_id
    return {"flags": int(msg.send_flags), "pid": hl(pid) if isinstance(pid, int) and 0 <= pid < 2 ** 32 else [65536, 0],
            "extra": list(bytes(msg.extra)), "acks": [hl(a) for a in msg.acks]}


def project_blocks(msg, shape: dict) -> list:
    """Typed values of the blocks the message holds, in template order (observed through Message.blocks)."""
    out = []
    blocks = msg.blocks
    for sb in shape["blocks"]:
        if sb["name"] not in blocks:
            break
        insts = []
        for blk in blocks[sb["name"]]:
            insts.append([to_typed(v, blk.vars.get(v["name"])) if v["name"] in blk.vars else BAD for v in sb["vars"]])
        out.append(insts)
    # a block that is present behind an absent one cannot be expressed; make it visible as a shape error
    names = [sb["name"] for sb in shape["blocks"]][:len(out)]
    if any(n not in names for n in blocks):
        out.append([[BAD]])
    return out


def hdr_typed(hdr: dict) -> dict:
    return {"flags": hdr["flags"], "pid": hl(hdr["pid"]), "extra": list(hdr["extra"]), "acks": [hl(a) for a in hdr["acks"]]}


# ------------------------------------------------------------------------------------------
# value generation for real templates (per-type classes of the wire domain)
# ------------------------------------------------------------------------------------------
F32_NAMED = [0.0, -0.0, 1.0, -1.5, 3.4028234663852886e+38, -3.4028234663852886e+38, 1.401298464324817e-45,
             1.1754943508222875e-38, float("inf"), float("-inf"), 0.1 + 0.0]
F64_NAMED = [0.0, -0.0, 1.0, -2.5, 1.7976931348623157e+308, 5e-324, float("inf"), float("-inf"), 0.1]


def f32(x: float) -> float:
    return struct.unpack("<f", struct.pack("<f", x))[0]


def gen_f32(rng):
    if rng.random() < 0.5:
        return f32(rng.choice(F32_NAMED))
    return f32(rng.uniform(-1, 1) * 10 ** rng.randrange(-6, 7))


def gen_f64(rng):
    if rng.random() < 0.5:
        return rng.choice(F64_NAMED)
    return rng.uniform(-1, 1) * 10 ** rng.randrange(-30, 30)


def var_class(I: Impl, tvar) -> str:
    """How the decoder will guess a Fixed/Variable field (only used to choose the TYPE of inputs)."""
    return "binary" if tvar.probably_binary else "text" if tvar.probably_text else "unknown"


def eq_claimed(cls: str, val) -> bool:
    """Python-level == of the decoded value is claimed unless bytes given to a text-guessed field are
    NUL-terminated valid UTF-8 (those are handed out as text: equal by payload only), or text is
    given to a binary-guessed field."""
    if isinstance(val, str):
        return cls != "binary"
    if cls == "text" and isinstance(val, bytes) and val.endswith(b"\x00"):
        try:
            val.decode("utf8")
            return False
        except UnicodeDecodeError:
            return True
    return True


def gen_bytes_field(rng, var: dict, cls: str, maxlen: int, big: bool):
    """(value, python_eq_claimed).  Domain rule: a binary field takes bytes; text/unknown fields take bytes
    or str; a str never ends in NUL (the wire form of text is NUL-terminated, the packer adds the terminator).
    Python-level equality is claimed unless bytes given to a text field come back as text."""
    if var["t"] == "Fixed":
        n = var["size"]
        c = rng.randrange(4)
        b = bytes(n) if c == 0 else b"\xff" * n if c == 1 else bytes(rng.randrange(256) for _ in range(n))
        if cls == "text" and b.endswith(b"\x00"):
            return b, False
        return b, True
    limit = min(maxlen, 255 if var["size"] == 1 else 65535)
    c = rng.randrange(14)
    if big and c < 4:
        b = bytes(rng.randrange(256) for _ in range(limit))
        if cls == "text":
            b = b[:-1] + b"\x01"
        return b, True
    if cls != "binary" and c in (4, 5, 6):
        s = rng.choice(["", "a", "hello", "héllo 世界", "a\x00b", "\x00x", "tab\tnl\n"])
        return s[:max(0, limit // 4)].rstrip("\x00"), True      # domain rule: a str never ends in NUL
    raw = rng.choice([b"", b"\x00", b"abc", b"abc\x00", b"a\x00b", b"a\x00b\x00", b"\xff\xfe", b"\xff\x00", b"\xc3\x28\x00",
                      b"hi\x00\x00", b"\x00\x00", bytes(rng.randrange(256) for _ in range(rng.randrange(1, 12)))])[:limit]
    ok = True
    if cls == "text" and raw.endswith(b"\x00"):
        try:
            raw.decode("utf8")
            ok = False     # comes back as text: equal by payload, not by Python ==
        except UnicodeDecodeError:
            pass
    return raw, ok


def gen_value(I: Impl, rng, var: dict, cls: str, maxlen=40, big=False):
    ty = var["t"]
    if ty in INT_TYPES:
        w, signed = INT_TYPES[ty]
        lo, hi = (-(1 << (8 * w - 1)), (1 << (8 * w - 1)) - 1) if signed else (0, (1 << (8 * w)) - 1)
        if ty == "BOOL":
            return rng.choice([True, False, 0, 1]), True
        c = rng.randrange(6)
        return (lo if c == 0 else hi if c == 1 else 0 if c == 2 else (-1 if signed else 1) if c == 3 else rng.randint(lo, hi)), True
    if ty == "F32":
        return gen_f32(rng), True
    if ty == "F64":
        return gen_f64(rng), True
    if ty in ("LLVector3", "LLVector4"):
        n = 3 if ty == "LLVector3" else 4
        comps = tuple(gen_f32(rng) for _ in range(n))
        if rng.random() < 0.5:
            return (I.dt.Vector3 if n == 3 else I.dt.Vector4)(*comps), True
        return comps, True
    if ty == "LLVector3d":
        comps = tuple(gen_f64(rng) for _ in range(3))
        return (I.dt.Vector3(*comps) if rng.random() < 0.5 else comps), True
    if ty == "LLQuaternion":
        # unit quaternions, W >= 0 is re-derived on both sides from the same three components
        while True:
            x, y, z = (f32(rng.uniform(-1, 1)) for _ in range(3))
            if x * x + y * y + z * z <= 1.0:
                break
        if rng.random() < 0.2:
            x, y, z = rng.choice([(0.0, 0.0, 0.0), (1.0, 0.0, 0.0), (0.0, -1.0, 0.0), (-0.0, 0.0, 0.0)])
        return I.dt.Quaternion(x, y, z), True
    if ty == "LLUUID":
        c = rng.randrange(4)
        u = I.dt.UUID(int=0 if c == 0 else (1 << 128) - 1 if c == 1 else rng.getrandbits(128))
        return u, True
    if ty == "IPADDR":
        return rng.choice(["0.0.0.0", "255.255.255.255", "127.0.0.1", "%d.%d.%d.%d" % tuple(rng.randrange(256) for _ in range(4))]), True
    return gen_bytes_field(rng, var, cls, maxlen, big)


def extra_classes(rng):
    """Extra header bytes: empty, short incompressible, zero runs (which cost two bytes on a zero-coded wire however
    long), alternating 00 xx (which doubles), maximal length."""
    return [b"", bytes([7, 9, 11]), bytes(8), bytes(24), bytes(100), bytes(255),
            bytes(0 if i % 2 == 0 else rng.randrange(1, 256) for i in range(24)),
            bytes(rng.randrange(1, 256) for _ in range(255)), bytes(0 if i % 2 == 0 else 9 for i in range(255))]


def gen_header(rng, rich=True):
    flags = rng.choice([0, 0x80, 0x40, 0x20, 0x10, 0x90, 0xC0, 0x60, 0xF0, 0xB0, 0x50, 0x30, 0xA0, 0xD0, 0xE0, 0x70])
    pid = rng.choice([1, 0, 0xFFFFFFFF, 0x80000000, 255, 256, rng.getrandbits(32)])
    acks = []
    if flags & 0x10:
        n = rng.choice([0, 1, 1, 2, 3, 3, 7] + ([255] if rich and rng.random() < 0.1 else []))
        acks = [rng.choice([0, 1, 0xFFFFFFFF, rng.getrandbits(32)]) for _ in range(n)]
    c = rng.randrange(8)
    extra = b"" if c < 4 else b"\x00" if c == 4 else bytes(rng.randrange(256) for _ in range(4)) if c < 6 else \
        rng.choice(extra_classes(rng)[:5 if not rich else 9]) if c == 6 else \
        (bytes(rng.choice([0, 0, 255, 7]) for _ in range(255 if rich and rng.random() < 0.2 else 9)))
    return {"flags": flags, "pid": pid, "acks": acks, "extra": extra}


def gen_message(I: Impl, rng, shape: dict, tmpl, counts=(0, 1, 1, 2, 3), maxlen=40, big=False, fill=False, hdr=None, force=None):
    """Random conformant message of a real template: (hdr, blocks_py, typed blocks, python-eq claimed).
    force = {(block index, variable index): bytes} fixes the value of that variable in every instance."""
    hdr = hdr or gen_header(rng)
    blocks_py, typed = [], []
    eq = True
    for bi, (sb, tb) in enumerate(zip(shape["blocks"], tmpl.blocks)):
        n = 1 if sb["kind"] == "Single" else sb["n"] if sb["kind"] == "Multiple" else rng.choice(counts)
        insts_py, insts_t = [], []
        for _ in range(n):
            d, tl = {}, []
            for vi, (v, tv) in enumerate(zip(sb["vars"], tb.variables)):
                if fill and rng.random() < 0.6:
                    tl.append({"k": "unset"})
                    continue
                val, ok = gen_value(I, rng, v, var_class(I, tv) if v["t"] in ("Fixed", "Variable") else "", maxlen, big)
                if force and (bi, vi) in force:
                    val = force[(bi, vi)]
                    ok = eq_claimed(var_class(I, tv), val)
                eq = eq and ok
                d[v["name"]] = val
                tl.append(to_typed(v, val))
            insts_py.append(d)
            insts_t.append(tl)
        blocks_py.append(insts_py)
        typed.append(insts_t)
    return hdr, blocks_py, typed, eq


# ------------------------------------------------------------------------------------------
# one recorded round trip
# ------------------------------------------------------------------------------------------

def round_trip_event(I: Impl, ser, des, shape, hdr, blocks_py, typed, eq_claimed, fill):
    """Run serialize + deserialize of the real code and record the RT event (without eid)."""
    st, msg = impl_call(build_message, I, shape, hdr, blocks_py, fill)
    ev = {"ev": "RT", "T": strip_names(shape), "m": dict(hdr_typed(hdr), blocks=typed),
          "enc": {"res": "raise", "d": []}, "dec": {"res": "raise"}, "eq": -1}
    if st != "ok":
        ev["enc"]["exc"] = "building the message: " + str(msg)
        return ev, None
    st, data = impl_call(lambda: bytes(ser.serialize(msg)))
    if st != "ok":
        ev["enc"]["exc"] = data
        return ev, None
    ev["enc"] = {"res": "ok", "d": list(data)}

    def decode():
        m2 = des.deserialize(data)
        return m2, project_header(m2), project_blocks(m2, shape), m2.name
    st, r = impl_call(decode)
    if st != "ok":
        ev["dec"] = {"res": "raise", "exc": r}
        return ev, data
    m2, ph, pb, name = r
    ev["dec"] = dict(ph, res="ok", blocks=pb)
    if name != shape["name"]:
        ev["dec"]["blocks"] = [[[BAD]]]
    if eq_claimed and not fill:
        st, same = impl_call(lambda: bool(m2.to_dict() == msg.to_dict() and m2 == msg))
        ev["eq"] = 1 if (st == "ok" and same) else 0
    return ev, data


_CAUSE = re.compile(r"\[([a-z0-9-]+)\]$")


def report_rt_fails(chk: Check, label, traces, results, rejected, detail_of):
    """Register violations for failed clauses; one per (event, clause) so that nothing is masked."""
    seen = set()
    recs = []
    for r in sorted(results, key=lambda r: (r.distinct, r.generated)):       # shards finish in any order; report deterministically
        chk.add_tlc(r, "LLUDPFrame_Trace " + label)
        recs += [x for x in r.printed() if isinstance(x, dict) and "fail" in x]
    recs.sort(key=lambda x: (x["eid"], x["fail"]))
    for rec in recs:
        if not (isinstance(rec, dict) and "fail" in rec):
            continue
        key = (rec["eid"], rec["fail"])
        if key in seen:
            continue
        seen.add(key)
        m = _CAUSE.search(rec["fail"])
        clause = _CAUSE.sub("", rec["fail"])
        feats = {"kind": "rt", "label": label, "clause": clause, "cause": m.group(1) if m else "none"}
        chk.violation("B3 %s: %s" % (label, rec["fail"]), feats, detail_of(rec["eid"]))
    for ti, j, ev in rejected:
        chk.violation("B3 %s: record not consumable by LLUDPFrame_Trace" % label,
                      {"kind": "rt-reject", "label": label}, {"event": common._clip(ev)})


TRACE_CFG = "SPECIFICATION TraceSpec\nPOSTCONDITION TraceAccepted\nCHECK_DEADLOCK FALSE\n"


def validate_rt(chk: Check, label, events, details, per_trace=25, shards=12):
    for i, e in enumerate(events):
        e["eid"] = i
    traces = [events[i:i + per_trace] for i in range(0, len(events), per_trace)]
    acc, rej, results = common.validate_traces("LLUDPFrame_Trace", TRACE_CFG, traces, chk.scratch, shards=shards, tag="rt")
    chk.cov["traces_validated_against_impl"] += len(events)
    chk.count(len(events))

    def detail_of(eid):
        e = events[eid]
        return dict(details[eid], enc=common._clip(e["enc"], 400), dec=common._clip({k: v for k, v in e["dec"].items() if k != "blocks"}),
                    m=common._clip(e["m"], 40))
    report_rt_fails(chk, label, traces, results, rej, detail_of)


# ------------------------------------------------------------------------------------------
# part 1: miniature universe — model check + table replay
# ------------------------------------------------------------------------------------------
# zero runs around the places where zero-coding splits a run (255 per pair; 00 00 would be the wrap form)
ZERO_RUNS = (254, 255, 256, 509, 510, 511, 765)
RUN_LENS = "{%s}" % ", ".join(map(str, ZERO_RUNS))
INVS = ["InDomain", "RoundTrip", "Length", "Framing", "Fill", "ZeroCoded", "Reassembled"]


def mini_universe(chk: Check, pa, maxvar, maxcount):
    I = impl()
    cfgs = []
    for tids in ("{1, 2, 4, 5}", "{3}", "{6}"):
        cfgs.append("SPECIFICATION Spec\nCONSTANTS PA = %s MaxVar = %d MaxCount = %d Tids = %s RunLens = %s\n%s" % (
            pa, maxvar, maxcount, tids, RUN_LENS, "".join("INVARIANT %s\n" % i for i in INVS)))
    import concurrent.futures as cf

    def one(i):
        p = os.path.join(chk.scratch, "lf-mc-%d.cfg" % i)
        with open(p, "w") as f:
            f.write(cfgs[i])
        return common.run_tlc(os.path.join(common.SPECS, "LLUDPFrame_MC.tla"), p, workers=1, scratch=chk.scratch, heap="6g")
    with cf.ThreadPoolExecutor(max_workers=len(cfgs)) as ex:
        results = list(ex.map(one, range(len(cfgs))))
    rows, universe = [], None
    for i, res in enumerate(results):
        chk.require_model_ok(res, "LLUDPFrame_MC part %d" % i)
        for r in res.printed():
            if "universe" in r:
                universe = r["universe"]
            elif r.get("row") == "msg":
                rows.append(r)
    if universe is None or len(rows) < 1000:
        raise MachineryError("LLUDPFrame_MC printed %d rows" % len(rows))
    # vacuity: the antecedents of the laws / the cases of the property are inhabited
    cls = {}

    def bump(k):
        cls[k] = cls.get(k, 0) + 1
    for r in rows:
        m = r["m"]
        bump("part:" + r["part"])
        bump("zero-coded" if m["flags"] & 0x80 else "plain")
        bump("acks:%d" % len(m["acks"]) if m["flags"] & 0x10 else "no-ack-flag")
        bump("extra:%d" % len(m["extra"]))
        for sb, insts in zip(next(t for t in universe if t["name"] == r["t"])["blocks"], m["blocks"]):
            if sb["kind"] == "Variable":
                bump("variable-block-count:%d" % len(insts))
            for inst in insts:
                for v, tv in zip(sb["vars"], inst):
                    if tv["k"] == "unset":
                        bump("unset:" + v["t"])
                    elif tv["k"] == "str":
                        bump("text-value")
                    elif tv["k"] == "int" and tv["neg"]:
                        bump("negative-int")
                    elif tv["k"] == "raw" and v["t"] == "Variable":
                        bump("variable-payload-len:%d" % len(tv["b"]))
    chk.cov["mini_rows_by_class"] = dict(sorted(cls.items()))
    for need in ["variable-payload-len:%d" % n for n in ZERO_RUNS] + ["part:runs", "part:zext", "extra:24", "extra:255"]:
        if need not in cls:
            raise MachineryError("vacuous model: no table row of class %s" % need)
    for need in ("part:hdr", "part:body", "part:fill", "zero-coded", "plain", "acks:0", "acks:2", "extra:0", "extra:2",
                 "variable-block-count:0", "variable-block-count:%d" % maxcount, "unset:Fixed", "unset:Variable", "unset:U8",
                 "text-value", "negative-int", "variable-payload-len:0", "variable-payload-len:%d" % maxvar):
        if need not in cls:
            raise MachineryError("vacuous model: no table row of class %s" % need)
    text = render_template_text(universe)
    st, r = impl_call(I.codec, text, False)
    if st != "ok":
        chk.violation("the template parser refuses the miniature universe", {"kind": "template-parse", "where": "mini"}, {"exc": r, "text": text})
        return universe, text
    ser, des, td = r
    # the implementation's reading of the rendered text must be the universe itself
    for t in universe:
        got = impl_call(lambda: reflect_template(I, td[t["name"]]))
        if got != ("ok", t):
            chk.violation("template parser reads the miniature template differently",
                          {"kind": "template-parse", "where": "mini", "template": t["name"]}, {"spec": t, "impl": got[1]})
    events, details = [], []
    by_name = {t["name"]: t for t in universe}
    for r in rows:
        shape = by_name[r["t"]]
        m = r["m"]
        fill = r["part"] == "fill"
        hdr = {"flags": m["flags"], "pid": unhl(m["pid"]), "extra": bytes(m["extra"]), "acks": [unhl(a) for a in m["acks"]]}
        blocks_py = [[{v["name"]: from_typed(v, tv) for v, tv in zip(sb["vars"], inst) if tv["k"] != "unset"} for inst in insts]
                     for sb, insts in zip(shape["blocks"], m["blocks"])]
        tmpl = td[shape["name"]]
        eq = all(eq_claimed(var_class(I, tv), inst[v["name"]])
                 for sb, tb, insts in zip(shape["blocks"], tmpl.blocks, blocks_py) for inst in insts
                 for v, tv in zip(sb["vars"], tb.variables) if v["name"] in inst and v["t"] in ("Fixed", "Variable"))
        ev, data = round_trip_event(I, ser, des, shape, hdr, blocks_py, m["blocks"], eq, fill)
        chk.count()
        # direct byte-for-byte comparison with TLC's datagram
        if data is None or list(data) != r["dgram"]:
            unset_fixed = any(tv["k"] == "unset" and v["t"] == "Fixed" for sb, insts in zip(shape["blocks"], m["blocks"])
                              for inst in insts for v, tv in zip(sb["vars"], inst))
            chk.violation("B3 table: serialize() differs from LLUDPFrame!Datagram" + (" [default-fill-fixed]" if unset_fixed else ""),
                          {"kind": "table", "clause": "datagram", "cause": "default-fill-fixed" if unset_fixed else "none"},
                          {"template": r["t"], "m": m, "spec": r["dgram"], "impl": list(data) if data is not None else ev["enc"].get("exc")})
        events.append(ev)
        details.append({"template": r["t"], "part": r["part"]})
        if m["blocks"] and any(insts for insts in m["blocks"]):
            chk.nontrivial(("row", r["t"], common.skey(m)))
    chk.cov["traces_validated_against_impl"] += len(rows)
    chk.sample({"binding": "B3 table row (spec->code), replayed through serialize/deserialize", "row": rows[len(rows) // 2]})
    validate_rt(chk, "mini", events, details, per_trace=60)
    return universe, text


# ------------------------------------------------------------------------------------------
# part 1b: instances with history (LLUDPFrameInst.tla)
# ------------------------------------------------------------------------------------------
BAD_CLASSES = ("unset-var", "int-out-of-range", "multiple-count", "unknown-block", "block-after-missing-block",
               "unknown-message", "variable-too-long")


def make_bad(I: Impl, cls: str, shape: dict, hdr: dict, blocks_py: list):
    """A message outside the template language, derived from a conformant one of `shape`; None if the class
    does not apply to this template."""
    import copy
    bp = copy.deepcopy(blocks_py)
    if cls == "unknown-message":
        return I.Message("NoSuchMessageXyz", I.Block("Foo", Bar=1), packet_id=hdr["pid"])
    if cls == "unset-var":
        for insts in bp:
            if insts and insts[-1]:
                insts[-1].pop(sorted(insts[-1])[-1])
                return build_message(I, shape, hdr, bp)
        return None
    if cls == "int-out-of-range":
        for sb, insts in zip(shape["blocks"], bp):
            for v in sb["vars"]:
                if v["t"] in INT_TYPES and v["t"] != "BOOL" and insts:
                    w, signed = INT_TYPES[v["t"]]
                    insts[-1][v["name"]] = (1 << (8 * w - (1 if signed else 0)))
                    return build_message(I, shape, hdr, bp)
        return None
    if cls == "variable-too-long":
        for sb, insts in zip(shape["blocks"], bp):
            for v in sb["vars"]:
                if v["t"] == "Variable" and v["size"] == 1 and insts:
                    insts[-1][v["name"]] = b"\x01" * 256
                    return build_message(I, shape, hdr, bp)
        return None
    if cls == "multiple-count":
        for k, sb in enumerate(shape["blocks"]):
            if sb["kind"] == "Multiple" and sb["n"] > 1 and k < len(bp):
                bp[k] = bp[k][:-1]
                return build_message(I, shape, hdr, bp)
        return None
    if cls == "unknown-block":
        msg = build_message(I, shape, hdr, bp)
        msg.add_block(I.Block("NoSuchBlockXyz", Foo=1))
        return msg
    if cls == "block-after-missing-block":
        if len(shape["blocks"]) < 2 or len(bp) < 2:
            return None
        msg = I.Message(shape["name"], packet_id=hdr["pid"], flags=hdr["flags"] & ~0x10)
        for sb, insts in list(zip(shape["blocks"], bp))[1:]:
            msg.create_block_list(sb["name"])
            for inst in insts:
                msg.add_block(I.Block(sb["name"], **inst))
        return msg
    raise MachineryError("unknown bad class %r" % cls)


def ev_ser(I, ser, inst, shape, hdr, blocks_py, typed, fill=False):
    st, msg = impl_call(build_message, I, shape, hdr, blocks_py, fill)
    st, data = impl_call(lambda: bytes(ser.serialize(msg))) if st == "ok" else (st, msg)
    ev = {"ev": "Ser", "inst": inst, "T": strip_names(shape), "m": dict(hdr_typed(hdr), blocks=typed), "fill": 1 if fill else 0,
          "res": "ok" if st == "ok" else "raise", "d": list(data) if st == "ok" else []}
    if st != "ok":
        ev["exc"] = data
    return ev, (data if st == "ok" else None)


def ev_bad(I, ser, inst, cls, msg):
    st, r = impl_call(lambda: bytes(ser.serialize(msg)))
    return {"ev": "Bad", "inst": inst, "cls": cls, "res": "ok" if st == "ok" else "raise", "exc": r if st != "ok" else ""}


def ev_des(I, des, inst, shape, data: bytes):
    def decode():
        m2 = des.deserialize(data)
        return project_header(m2), project_blocks(m2, shape), m2.name
    st, r = impl_call(decode)
    ev = {"ev": "Des", "inst": inst, "T": strip_names(shape), "d": list(data), "res": "ok" if st == "ok" else "raise",
          "flags": 0, "pid": [0, 0], "extra": [], "acks": [], "blocks": []}
    if st == "ok":
        ev.update(r[0])
        ev["blocks"] = r[1] if r[2] == shape["name"] else [[[BAD]]]
    else:
        ev["exc"] = r
    return ev


def validate_instance_traces(chk: Check, label, traces, details, shards=8):
    """traces: lists of Ser/Bad/Des events, one serializer + one deserializer instance each."""
    flat = []
    for t, d in zip(traces, details):
        for e in t:
            e["eid"] = len(flat)
            flat.append((e, d))
    acc, rej, results = common.validate_traces("LLUDPFrame_Trace", TRACE_CFG, traces, chk.scratch, shards=shards, tag="inst")
    chk.cov["traces_validated_against_impl"] += len(traces)
    chk.count(len(flat))

    def detail_of(eid):
        e, d = flat[eid]
        tr = next(t for t in traces if any(x is e for x in t))
        return dict(d, failing_event=common._clip({k: v for k, v in e.items() if k != "T"}, 60),
                    calls=[(x["ev"], x.get("cls", ""), x["res"], x.get("exc", "")) for x in tr])
    report_rt_fails(chk, label, traces, results, rej, detail_of)


def instance_histories_mini(chk: Check, depth):
    """Every history TLC enumerates over the call alphabet of LLUDPFrameInst, each on one fresh pair of real
    serializer / deserializer instances loaded with the miniature templates."""
    I = impl()
    cfg = "SPECIFICATION Spec\nCONSTANTS Depth = %d KeepsOnRefusal = FALSE MBT = TRUE\nINVARIANT Independent\nINVARIANT Empty\n" % depth
    p = os.path.join(chk.scratch, "inst.cfg")
    with open(p, "w") as f:
        f.write(cfg)
    res = common.run_tlc(os.path.join(common.SPECS, "LLUDPFrameInst.tla"), p, workers=1, scratch=chk.scratch)
    chk.require_model_ok(res, "LLUDPFrameInst depth %d" % depth)
    table, hists = None, []
    for r in res.printed():
        if "universe" in r:
            table = r
        elif "hist" in r:
            hists.append(tuple(r["hist"]))
    if table is None or len(hists) < 50:
        raise MachineryError("LLUDPFrameInst exported %d histories" % len(hists))
    universe = table["universe"]
    text = render_template_text(universe)

    def py_of(tid, m):
        shape = universe[tid - 1]
        hdr = {"flags": m["flags"], "pid": unhl(m["pid"]), "extra": bytes(m["extra"]), "acks": [unhl(a) for a in m["acks"]]}
        bp = [[{v["name"]: from_typed(v, tv) for v, tv in zip(sb["vars"], inst) if tv["k"] != "unset"} for inst in insts]
              for sb, insts in zip(shape["blocks"], m["blocks"])]
        return shape, hdr, bp
    base_of = {g["tid"]: g for g in table["good"].values()}
    traces, details = [], []
    for h in sorted(set(hists)):
        st, r = impl_call(I.codec, text, False)
        if st != "ok":
            raise MachineryError("cannot load the miniature templates: %s" % r)
        ser, des, _ = r
        evs = []
        for x in h:
            if x in table["good"]:
                g = table["good"][x]
                shape, hdr, bp = py_of(g["tid"], g["m"])
                evs.append(ev_ser(I, ser, "s", shape, hdr, bp, g["m"]["blocks"])[0])
            elif x in table["bad"]:
                b = table["bad"][x]
                if "m" in b:
                    shape, hdr, bp = py_of(b["tid"], b["m"])
                    evs.append(ev_ser(I, ser, "s", shape, hdr, bp, b["m"]["blocks"])[0])
                else:
                    if b["tid"]:
                        shape, hdr, bp = py_of(b["tid"], base_of[b["tid"]]["m"])
                        st2, msg = impl_call(make_bad, I, b["cls"], shape, hdr, bp)
                    else:
                        st2, msg = impl_call(make_bad, I, b["cls"], universe[0], {"pid": 1, "flags": 0, "acks": [], "extra": b""}, [])
                    if st2 != "ok" or msg is None:
                        raise MachineryError("cannot build the %s message: %r" % (b["cls"], msg))
                    evs.append(ev_bad(I, ser, "s", b["cls"], msg))
            else:
                data = bytes(table["dgram"][x])
                tname = {"D1": 1, "D2": 3, "D3": 2}[x]
                evs.append(ev_des(I, des, "d", universe[tname - 1], data))
        traces.append(evs)
        details.append({"history": list(h)})
        if any(x in table["bad"] or x == "D2" for x in h[:-1]):
            chk.nontrivial(("inst", h))
    refused = sum(1 for t in traces for e in t if e["res"] == "raise")
    chk.cov["instance_histories_mini"] = len(traces)
    chk.cov["instance_calls_refused_mini"] = refused
    if refused == 0 and not chk.violations:
        raise MachineryError("vacuous run: no call of the instance histories was refused")
    chk.sample({"binding": "TLC-enumerated call history on one serializer/deserializer instance, validated by TLC",
                "calls": [(e["ev"], e.get("cls", ""), e["res"]) for e in traces[len(traces) // 2]]})
    validate_instance_traces(chk, "inst-mini", traces, details)


def instance_walks_real(chk: Check, n_walks, length):
    """Long-lived instances over the real template: conformant messages interleaved with every class of refused
    message and with unparseable datagrams."""
    I = impl()
    rng = chk.rng
    pairs = [p for p in real_shapes(chk) if p[0]["blocks"]]
    traces, details = [], []
    by_class = {}
    for w in range(n_walks):
        ser, des, _ = I.codec(None, False)
        evs, calls = [], []
        last = None
        for step in range(length):
            shape, tmpl = rng.choice(pairs)
            hdr, bp, ty, _ = gen_message(I, rng, shape, tmpl, counts=(1, 2), maxlen=8, hdr=gen_header(rng, rich=False))
            c = rng.random()
            if c < 0.4:
                cls = BAD_CLASSES[(w + step) % len(BAD_CLASSES)]
                if cls == "multiple-count":
                    mp = [p for p in pairs if any(b["kind"] == "Multiple" for b in p[0]["blocks"])]
                    shape, tmpl = rng.choice(mp)
                    hdr, bp, ty, _ = gen_message(I, rng, shape, tmpl, counts=(1,), maxlen=8, hdr=gen_header(rng, rich=False))
                st, msg = impl_call(make_bad, I, cls, shape, hdr, bp)
                if st != "ok" or msg is None:
                    continue
                e = ev_bad(I, ser, "s%d" % w, cls, msg)
                evs.append(e)
                by_class[cls + ":" + e["res"]] = by_class.get(cls + ":" + e["res"], 0) + 1
                calls.append(cls)
            elif c < 0.5 and last is not None:
                sh, data = last
                cut = data[:max(7, len(data) - rng.randrange(1, 6))] if rng.random() < 0.7 else data[:6]
                evs.append(ev_des(I, des, "d%d" % w, sh, cut))
                calls.append("des-garbage")
            else:
                e, data = ev_ser(I, ser, "s%d" % w, shape, hdr, bp, ty)
                evs.append(e)
                calls.append("ser " + shape["name"])
                if data is not None:
                    evs.append(ev_des(I, des, "d%d" % w, shape, data))
                    last = (shape, data)
        traces.append(evs)
        details.append({"walk": w, "calls": calls})
        chk.nontrivial(("walk", w))
    chk.cov["instance_walk_bad_calls_real"] = dict(sorted(by_class.items()))
    validate_instance_traces(chk, "inst-real", traces, details)


# ------------------------------------------------------------------------------------------
# part 2: every real template
# ------------------------------------------------------------------------------------------

def real_shapes(chk: Check):
    """Shapes of all real templates, read independently from the template file and cross-checked
    against the implementation's TemplateDictionary."""
    I = impl()
    path = os.path.join(common.REPO, "hippolyzer/lib/base/message/data/message_template.msg")
    with open(path) as f:
        shapes = read_template_file(f.read())
    if len(shapes) < 400:
        raise MachineryError("template file reader found only %d templates" % len(shapes))
    out = []
    for s in shapes:
        for b in s["blocks"]:
            for v in b["vars"]:
                if v["t"] not in TYPE_NAMES:
                    raise MachineryError("template file reader: unknown type %r" % v["t"])
        t = I.DEFAULT.get_template_by_name(s["name"])
        got = impl_call(lambda: reflect_template(I, t)) if t is not None else ("raise", "template missing")
        chk.count()
        if got != ("ok", s):
            chk.violation("the template parser reads %s differently from the template file" % s["name"],
                          {"kind": "template-parse", "where": "real", "template": s["name"]}, {"file": s, "impl": got[1]})
            continue
        out.append((s, t))
    names = {s["name"] for s in shapes}
    extra = [t.name for t in I.DEFAULT if t.name not in names]
    if extra:
        chk.violation("the template parser knows templates that are not in the file", {"kind": "template-parse", "where": "real-extra"}, {"names": extra})
    return out


def zero_run_sites(pairs):
    """Templates with a two-byte-length Variable field (the only fields that can hold a long zero run), as
    (shape, template, (block index, var index), is the field the last thing in the body)."""
    out = []
    for s, t in pairs:
        if sum(len(b["vars"]) for b in s["blocks"]) > 16 or any(b["kind"] == "Multiple" for b in s["blocks"]):
            continue
        for bi, b in enumerate(s["blocks"]):
            for vi, v in enumerate(b["vars"]):
                if v["t"] == "Variable" and v["size"] == 2:
                    out.append((s, t, (bi, vi), bi == len(s["blocks"]) - 1 and vi == len(b["vars"]) - 1))
    return out


def zero_run_payload(n: int, pos: str) -> bytes:
    """A zero run of n bytes at the start / in the middle / at the end of a payload."""
    return {"start": bytes(n) + b"\x01", "middle": b"\x01" + bytes(n) + b"\x01", "end": b"\x01" + bytes(n)}[pos]


def max_zero_runs(body: bytes) -> set:
    return {len(m) for m in re.findall(rb"\x00+", body)}


def inst_size(shape_block):
    return sum(v["size"] + 2 if v["t"] == "Variable" else v["size"] if v["t"] == "Fixed" else
               INT_TYPES[v["t"]][0] if v["t"] in INT_TYPES else {"F32": 4, "F64": 8, "LLVector3": 12, "LLVector3d": 24, "LLVector4": 16,
                                                                 "LLQuaternion": 12, "LLUUID": 16, "IPADDR": 4}[v["t"]]
               for v in shape_block["vars"])


def real_templates(chk: Check, per_template, n_fill, n_big, zero_rounds=1, header_rounds=1):
    I = impl()
    rng = chk.rng
    ser, des, _ = I.codec(None, False)
    pairs = real_shapes(chk)
    events, details = [], []

    def add(shape, tmpl, hdr, blocks_py, typed, eq, fill, what):
        ev, _ = round_trip_event(I, ser, des, shape, hdr, blocks_py, typed, eq, fill)
        events.append(ev)
        details.append({"template": shape["name"], "what": what})
        chk.nontrivial(("real", shape["name"], what))
    for shape, tmpl in pairs:
        for i in range(per_template):
            hdr, bp, ty, eq = gen_message(I, rng, shape, tmpl)
            add(shape, tmpl, hdr, bp, ty, eq, False, "random")
    # default filling: every template with a Fixed variable, plus random others
    with_fixed = [(s, t) for s, t in pairs if any(v["t"] == "Fixed" for b in s["blocks"] for v in b["vars"])]
    others = [p for p in pairs if p[0]["blocks"]]
    for shape, tmpl in with_fixed * 2 + [rng.choice(others) for _ in range(n_fill)]:
        hdr, bp, ty, eq = gen_message(I, rng, shape, tmpl, counts=(1, 2), fill=True)
        add(shape, tmpl, hdr, bp, ty, eq, True, "fill")
    # maximal repeat counts and maximal Variable payloads (kept small enough for TLC's sequences)
    small_var = [(s, t) for s, t in pairs if any(b["kind"] == "Variable" and inst_size(b) <= 8 for b in s["blocks"])
                 and sum(inst_size(b) for b in s["blocks"]) <= 60]
    rng.shuffle(small_var)
    for shape, tmpl in small_var[:n_big]:
        hdr, bp, ty, eq = gen_message(I, rng, shape, tmpl, counts=(255,), maxlen=2, hdr=gen_header(rng, rich=False))
        add(shape, tmpl, hdr, bp, ty, eq, False, "count-255")
    with_var1 = [(s, t) for s, t in pairs if any(v["t"] == "Variable" and v["size"] == 1 for b in s["blocks"] for v in b["vars"])
                 and sum(len(b["vars"]) for b in s["blocks"]) <= 12]
    rng.shuffle(with_var1)
    for k, (shape, tmpl) in enumerate(with_var1[:n_big]):
        # one one-byte-length field holds exactly the 255 bytes its prefix can describe (bytes not ending in NUL, or
        # 254 characters of text plus the terminator), the other fields are long at random
        site = rng.choice([(bi, vi) for bi, b in enumerate(shape["blocks"]) for vi, v in enumerate(b["vars"])
                           if v["t"] == "Variable" and v["size"] == 1])
        cls = var_class(I, tmpl.blocks[site[0]].variables[site[1]])
        val = bytes(rng.randrange(256) for _ in range(254)) + bytes([rng.randrange(1, 256)])
        if k % 3 == 2 and cls != "binary":
            val = "".join(rng.choice("abcxyz 09") for _ in range(254))
        hdr, bp, ty, eq = gen_message(I, rng, shape, tmpl, counts=(1,), maxlen=300, big=True, hdr=gen_header(rng, rich=False), force={site: val})
        add(shape, tmpl, hdr, bp, ty, eq, False, "var-maxlen")
    # header product: zero-coding x ack trailer with 0..n IDs x every class of extra bytes x small / large bodies, so that
    # the datagram is shorter than, about, or longer than 7 + len(extra)
    small = [p for p in pairs if sum(inst_size(b) * (b["n"] or 1) for b in p[0]["blocks"]) <= 8
             and all(v["t"] not in ("Variable",) for b in p[0]["blocks"] for v in b["vars"])
             and all(b["kind"] != "Variable" for b in p[0]["blocks"])]
    large = [p for p in pairs if 60 <= sum(inst_size(b) * (b["n"] or 1) for b in p[0]["blocks"]) <= 300]
    if len(small) < 5 or len(large) < 5:
        raise MachineryError("header product: %d small / %d large templates" % (len(small), len(large)))
    combos = [(0x90, 0), (0x90, 1), (0x90, 3), (0x80, 0), (0x10, 1)] + ([(0xD0, 2), (0xB0, 7), (0x10, 0), (0x10, 3)] if header_rounds > 1 else [])
    sizes = {"below": 0, "at-or-above": 0}
    for _ in range(header_rounds):
        for flags, nack in combos:
            for extra in extra_classes(rng):
                for cls, pool in (("small", small), ("large", large)):
                    shape, tmpl = rng.choice(pool)
                    hdr = {"flags": flags, "pid": rng.choice([1, 0xFFFFFFFF, rng.getrandbits(32)]),
                           "acks": [rng.choice([0, 1, rng.getrandbits(32)]) for _ in range(nack)], "extra": extra}
                    hdrx, bp, ty, eq = gen_message(I, rng, shape, tmpl, counts=(1,), maxlen=6, hdr=hdr)
                    add(shape, tmpl, hdrx, bp, ty, eq, False, "hdr-%02x-acks%d-extra%d-%s" % (flags, nack, len(extra), cls))
                    d = events[-1]["enc"]["d"]
                    if d and flags & 0x80:
                        sizes["below" if len(d) - (4 * nack + 1 if flags & 0x10 else 0) < 7 + len(extra) else "at-or-above"] += 1
    chk.cov["zero_coded_datagram_size_vs_7_plus_extra"] = sizes
    if not chk.violations and not (sizes["below"] and sizes["at-or-above"]):
        raise MachineryError("vacuous run: header product has no zero-coded datagram below / above 7 + len(extra)")
    # zero runs around the 255 boundaries of zero-coding, zero-coded, at the start / in the middle / at the end of a
    # payload (and of the body when the field is its last), plus the extra header bytes as a run right behind the number
    sites = zero_run_sites(pairs)
    last_sites = [x for x in sites if x[3]] or sites
    seen_runs = set()
    cases = [(n, pos) for n in ZERO_RUNS for pos in ("start", "middle", "end")] * zero_rounds
    for k, (n, pos) in enumerate(cases):
        shape, tmpl, site, _ = rng.choice(last_sites if pos == "end" else sites)
        hdr = dict(gen_header(rng, rich=False), flags=rng.choice([0x80, 0x80, 0xC0, 0x90]))
        if not hdr["flags"] & 0x10:
            hdr["acks"] = []
        hdr["extra"] = b"" if k % 3 else hdr["extra"][:4]
        hdrx, bp, ty, eq = gen_message(I, rng, shape, tmpl, counts=(1,), maxlen=6, hdr=hdr, force={site: zero_run_payload(n, pos)})
        add(shape, tmpl, hdrx, bp, ty, eq, False, "zero-run-%d-%s" % (n, pos))
        st, plain = impl_call(lambda: bytes(ser.serialize(build_message(I, shape, dict(hdrx, flags=0, acks=[]), bp))))
        if st == "ok":
            seen_runs |= max_zero_runs(plain[6:])
    for n in (254, 255):
        shape, tmpl = rng.choice([p for p in pairs if p[0]["blocks"] and sum(len(b["vars"]) for b in p[0]["blocks"]) <= 8])
        hdr = {"flags": 0x80, "pid": 7, "acks": [], "extra": bytes(n)}
        hdrx, bp, ty, eq = gen_message(I, rng, shape, tmpl, counts=(1,), maxlen=6, hdr=hdr)
        add(shape, tmpl, hdrx, bp, ty, eq, False, "zero-run-extra-%d" % n)
    chk.cov["real_body_zero_runs_seen"] = sorted(x for x in seen_runs if x >= 250)
    if not chk.violations and not {255, 510, 765} <= seen_runs:
        raise MachineryError("vacuous run: no zero-coded real body with a maximal zero run of 255, 510 and 765 bytes")
    chk.sample({"binding": "B3 round trip of a real template, recomputed by TLC (code->spec)",
                "template": details[7]["template"], "event": common._clip({k: v for k, v in events[7].items() if k != "T"}, 30)})
    validate_rt(chk, "real", events, details, per_trace=12)


def run(chk: Check):
    chk.cov["rule"] = ("spec->code: every message of the miniature template universe within the bounds (one TLC state each; all flag/"
                       "id/extra/ack combinations x small bodies, all bodies x three headers, all default-fill subsets), serialized by the "
                       "real code and compared byte for byte with TLC's datagram, then decoded; code->spec: generated messages of every real "
                       "template, datagram and decode recomputed by TLC.  non-trivial = message with at least one block instance / "
                       "distinct (template, class).")
    chk.assumptions += [
        "floats/vectors/quaternions/UUID/IP travel as packed bytes produced by Python's struct/uuid/socket (opaque leaves); "
        "F32 values are float32-representable, floats are NaN-free, quaternions are unit with W >= 0 re-derived",
        "a str value never ends in NUL; binary-named fields take bytes; equality is by packed payload (text handed out for "
        "NUL-terminated bytes counts as equal), Python-level == is additionally required where the input type is kept",
        "acks are given only together with the ACK flag; a packet id is always given",
        "template shapes of the real template are read from message_template.msg by the harness' own reader",
    ]
    if chk.tier == "quick":
        mini_universe(chk, "{0, 65}", 2, 2)
        instance_histories_mini(chk, 3)
        instance_walks_real(chk, 40, 12)
        real_templates(chk, 2, 30, 6)
    else:
        mini_universe(chk, "{0, 65, 255}", 3, 2)
        instance_histories_mini(chk, 4)
        instance_walks_real(chk, 600, 16)
        real_templates(chk, 40, 600, 60, zero_rounds=6, header_rounds=5)
    chk.cov["exhaustive"] = True
